package c18

import (
	"context"
	"fmt"
	"runtime"
	"sort"
	"strings"
	"sync"
	"sync/atomic"

	metav1 "k8s.io/apimachinery/pkg/apis/meta/v1"
	"k8s.io/apimachinery/pkg/types"

	kaiv2 "github.com/NVIDIA/KAI-scheduler/pkg/apis/scheduling/v2alpha2"

	u "kaiverif/internal/util"
)

// ---- string interning: long / non-printable strings are let-bound once per case

type intern struct {
	names   map[string]string
	order   []string
	pgNames map[string]string // PodGroup record term -> let-bound name (most events see the same PodGroup again)
	pgOrder []string
}

func newIntern() *intern { return &intern{names: map[string]string{}, pgNames: map[string]string{}} }

func (in *intern) S(s string) string {
	t := u.Str(s)
	if len(t) < 24 {
		return t
	}
	if n, ok := in.names[s]; ok {
		return n
	}
	n := fmt.Sprintf("s%d", len(in.order))
	in.names[s] = n
	in.order = append(in.order, s)
	return n
}

func (in *intern) Wrap(term string) string {
	var b strings.Builder
	b.WriteString("(")
	for i, s := range in.order {
		fmt.Fprintf(&b, "let s%d := %s in ", i, u.Str(s))
	}
	for i, t := range in.pgOrder {
		fmt.Fprintf(&b, "let g%d := %s in ", i, t)
	}
	b.WriteString(term)
	b.WriteString(")")
	return b.String()
}

// ---- Coq printers ----------------------------------------------------------

func (in *intern) smap(m map[string]string) string {
	keys := make([]string, 0, len(m))
	for k := range m {
		keys = append(keys, k)
	}
	sort.Strings(keys)
	xs := make([]string, len(keys))
	for i, k := range keys {
		xs[i] = u.Pair(in.S(k), in.S(m[k]))
	}
	return u.List(xs)
}

func (in *intern) osmap(m map[string]string) string {
	if len(m) == 0 {
		return "None"
	}
	return "(Some " + in.smap(m) + ")"
}

func (in *intern) gvk(g, v, k string) string {
	return fmt.Sprintf("{| g_group := %s; g_version := %s; g_kind := %s |}", in.S(g), in.S(v), in.S(k))
}

func (in *intern) refs(rs []Ref) string {
	return u.ListOf(rs, func(r Ref) string {
		return fmt.Sprintf("{| r_gvk := %s; r_name := %s; r_uid := %s |}", in.gvk(r.Group, r.Version, r.Kind), in.S(r.Name), in.S(r.UID))
	})
}

func (in *intern) obj(o Obj) string {
	return fmt.Sprintf("{| o_gvk := %s; o_name := %s; o_uid := %s; o_labels := %s; o_annots := %s; o_owners := %s; o_tom := %s |}",
		in.gvk(o.Group, o.Version, o.Kind), in.S(o.Name), in.S(o.UID), in.smap(o.Labels), in.smap(o.Annots), in.refs(o.Owners),
		in.S(TopOwnerYaml(o.Group, o.Version, o.Kind, o.Name, o.UID)))
}

func (in *intern) pod(p Pod) string {
	return fmt.Sprintf("{| p_name := %s; p_uid := %s; p_labels := %s; p_annots := %s; p_prio := %s; p_owners := %s; p_tom := %s |}",
		in.S(p.Name), in.S(p.UID), in.smap(p.Labels), in.smap(p.Annots), in.S(p.Prio), in.refs(p.Owners),
		in.S(TopOwnerYaml("", "v1", "Pod", p.Name, p.UID)))
}

func (in *intern) config(c Config, forbidden []string) string {
	cm := "CmNone"
	switch c.CMState {
	case 1:
		cm = "CmError"
	case 2:
		cm = "(CmEntries " + u.ListOf(c.CM, func(e CMEntry) string {
			return fmt.Sprintf("{| e_type := %s; e_group := %s; e_prio := %s; e_preempt := %s |}", in.S(e.TypeName), in.S(e.Group), in.S(e.PriorityName), in.S(e.Preemptibility))
		}) + ")"
	}
	return fmt.Sprintf("{| c_queue_key := %s; c_nodepool_key := %s; c_prio_classes := %s; c_defaults := %s; c_forbidden := %s |}",
		in.S(c.QueueKey), in.S(c.NodePoolKey), u.ListOf(c.PrioClasses, in.S), cm, u.ListOf(forbidden, in.S))
}

func splitAPIVersion(av string) (string, string) {
	if i := strings.Index(av, "/"); i >= 0 {
		return av[:i], av[i+1:]
	}
	return "", av
}

func (in *intern) pg(g *kaiv2.PodGroup) string {
	owners := []string{}
	for _, o := range g.OwnerReferences {
		grp, ver := splitAPIVersion(o.APIVersion)
		owners = append(owners, fmt.Sprintf("{| w_group := %s; w_version := %s; w_kind := %s; w_name := %s; w_uid := %s |}",
			in.S(grp), in.S(ver), in.S(o.Kind), in.S(o.Name), in.S(string(o.UID))))
	}
	mark := "None"
	if g.Spec.MarkUnschedulable != nil {
		mark = "(Some " + u.Bool(*g.Spec.MarkUnschedulable) + ")"
	}
	backoff := "None"
	if g.Spec.SchedulingBackoff != nil {
		backoff = "(Some " + u.Z(int64(*g.Spec.SchedulingBackoff)) + ")"
	}
	sgs := "None"
	if g.Spec.SubGroups != nil {
		xs := []string{}
		for _, s := range g.Spec.SubGroups {
			par := "None"
			if s.Parent != nil {
				par = "(Some " + in.S(*s.Parent) + ")"
			}
			xs = append(xs, fmt.Sprintf("{| sg_name := %s; sg_min := %s; sg_parent := %s |}", in.S(s.Name), u.Z(int64(s.MinMember)), par))
		}
		sgs = "(Some " + u.List(xs) + ")"
	}
	t := g.Spec.TopologyConstraint
	return in.bindPg(fmt.Sprintf("{| pg_labels := %s; pg_annots := %s; pg_owners := %s; sp_min := %s; sp_queue := %s; sp_prio := %s; sp_preempt := %s; sp_mark := %s; sp_backoff := %s; sp_subgroups := %s; sp_topo := {| t_preferred := %s; t_required := %s; t_topology := %s |} |}",
		in.osmap(g.Labels), in.osmap(g.Annotations), u.List(owners), u.Z(int64(g.Spec.MinMember)), in.S(g.Spec.Queue),
		in.S(g.Spec.PriorityClassName), in.S(string(g.Spec.Preemptibility)), mark, backoff, sgs,
		in.S(t.PreferredTopologyLevel), in.S(t.RequiredTopologyLevel), in.S(t.Topology)))
}

func (in *intern) bindPg(term string) string {
	if n, ok := in.pgNames[term]; ok {
		return n
	}
	n := fmt.Sprintf("g%d", len(in.pgOrder))
	in.pgNames[term] = n
	in.pgOrder = append(in.pgOrder, term)
	return n
}

func (in *intern) opg(g *kaiv2.PodGroup) string {
	if g == nil {
		return "None"
	}
	return "(Some " + in.pg(g) + ")"
}

func (in *intern) ostr(s *string) string {
	if s == nil {
		return "None"
	}
	return "(Some " + in.S(*s) + ")"
}

// ---- events ----------------------------------------------------------------

// KeyUpd sets (Val != nil) or deletes (Val == nil) one label / annotation key.
type KeyUpd struct {
	Key string
	Val *string
}

// Foreign is an update by another actor of the fields it owns; nil = leave alone. Labels / Annots are any
// other keys of the stored PodGroup (the scheduler's timestamp annotations, an administrator's keys), applied
// in order before NodePool / QLabel.
type Foreign struct {
	Queue    *string
	Mark     **bool
	Backoff  **int32
	NodePool **string // *nil = delete the label
	QLabel   **string
	Labels   []KeyUpd
	Annots   []KeyUpd
}

// quiet: the update touches label / annotation keys only
func (f *Foreign) quiet() bool {
	return f.Queue == nil && f.Mark == nil && f.Backoff == nil && f.NodePool == nil && f.QLabel == nil
}

// OwnerChange edits the owner object Idx of the world: label / annotation keys are removed, and added or
// changed (Set*: absolute values).
type OwnerChange struct {
	Idx                int
	DelLabels, DelAnns []string
	SetLabels, SetAnns map[string]string
}

func (c *OwnerChange) edits() bool { return len(c.SetLabels)+len(c.SetAnns) > 0 }

func (c *OwnerChange) describe() string {
	xs := []string{}
	add := func(tag string, m map[string]string) {
		keys := []string{}
		for k := range m {
			keys = append(keys, k)
		}
		sort.Strings(keys)
		for _, k := range keys {
			xs = append(xs, fmt.Sprintf("%s:%s=%q", tag, k, m[k]))
		}
	}
	add("label", c.SetLabels)
	add("annot", c.SetAnns)
	for _, k := range c.DelLabels {
		xs = append(xs, "-label:"+k)
	}
	for _, k := range c.DelAnns {
		xs = append(xs, "-annot:"+k)
	}
	return strings.Join(xs, ",")
}

// Tamper overwrites grouper-owned fields of the stored PodGroup (somebody edits the object by hand, a
// controller of another product rewrites it); nil / false = leave alone.
type Tamper struct {
	MinMember   *int32
	Prio        *string
	Preempt     *string
	Topology    *string // topology constraint name; also clears the levels
	DropOwners  bool    // owner references removed
	OtherOwner  bool    // owner reference replaced by another object's
	AddSubGroup bool
	OverLabels  int // so many of the labels the PodGroup carries (other than queue / node-pool) are overwritten ...
	DelLabels   int // ... removed
	OverAnnots  int
	DelAnnots   int
	desc        []string
}

type Event struct {
	Rec     int          // pod index, or -1
	Target  int          // foreign / tamper / delete: index of the pod whose PodGroup is meant
	Foreign *Foreign     // foreign update
	Own     *OwnerChange // owner object is edited
	Tamper  *Tamper      // the PodGroup is overwritten
	Delete  bool         // the PodGroup is deleted
}

func (e Event) isRec() bool { return e.Rec >= 0 }

func (in *intern) foreign(f *Foreign) string {
	q := in.ostr(f.Queue)
	mark := "None"
	if f.Mark != nil {
		if *f.Mark == nil {
			mark = "(Some None)"
		} else {
			mark = "(Some (Some " + u.Bool(**f.Mark) + "))"
		}
	}
	bo := "None"
	if f.Backoff != nil {
		if *f.Backoff == nil {
			bo = "(Some None)"
		} else {
			bo = "(Some (Some " + u.Z(int64(**f.Backoff)) + "))"
		}
	}
	lab := func(l **string) string {
		if l == nil {
			return "None"
		}
		return "(Some " + in.ostr(*l) + ")"
	}
	keys := func(us []KeyUpd) string {
		return u.ListOf(us, func(x KeyUpd) string { return u.Pair(in.S(x.Key), in.ostr(x.Val)) })
	}
	return fmt.Sprintf("{| f_queue := %s; f_mark := %s; f_backoff := %s; f_nodepool := %s; f_qlabel := %s; f_labels := %s; f_annots := %s |}",
		q, mark, bo, lab(f.NodePool), lab(f.QLabel), keys(f.Labels), keys(f.Annots))
}

func (f *Foreign) describe() string {
	xs := []string{}
	if !f.quiet() {
		xs = append(xs, "fields")
	}
	for _, x := range f.Labels {
		if x.Val == nil {
			xs = append(xs, "-label:"+x.Key)
		} else {
			xs = append(xs, "label:"+x.Key)
		}
	}
	for _, x := range f.Annots {
		if x.Val == nil {
			xs = append(xs, "-annot:"+x.Key)
		} else {
			xs = append(xs, "annot:"+x.Key)
		}
	}
	return strings.Join(xs, ",")
}

func (inst *Instance) applyForeign(name string, f *Foreign) {
	pg := inst.PodGroup(name)
	if pg == nil {
		return
	}
	if f.Queue != nil {
		pg.Spec.Queue = *f.Queue
	}
	if f.Mark != nil {
		pg.Spec.MarkUnschedulable = *f.Mark
	}
	if f.Backoff != nil {
		pg.Spec.SchedulingBackoff = *f.Backoff
	}
	setLabel := func(key string, l **string) {
		if l == nil {
			return
		}
		if *l == nil {
			delete(pg.Labels, key)
			return
		}
		if pg.Labels == nil {
			pg.Labels = map[string]string{}
		}
		pg.Labels[key] = **l
	}
	for _, x := range f.Labels {
		v := x.Val
		setLabel(x.Key, &v)
	}
	for _, x := range f.Annots {
		if x.Val == nil {
			delete(pg.Annotations, x.Key)
			continue
		}
		if pg.Annotations == nil {
			pg.Annotations = map[string]string{}
		}
		pg.Annotations[x.Key] = *x.Val
	}
	setLabel(inst.W.Cfg.NodePoolKey, f.NodePool)
	setLabel(inst.W.Cfg.QueueKey, f.QLabel)
	must(inst.Base.Update(context.Background(), pg))
}

// applyTamper overwrites the stored PodGroup; returns it as the store holds it afterwards (nil: no such PodGroup).
func (inst *Instance) applyTamper(name string, t *Tamper) *kaiv2.PodGroup {
	pg := inst.PodGroup(name)
	if pg == nil {
		return nil
	}
	t.desc = nil
	note := func(f string, a ...any) { t.desc = append(t.desc, fmt.Sprintf(f, a...)) }
	if t.MinMember != nil {
		pg.Spec.MinMember = *t.MinMember
		note("minMember=%d", *t.MinMember)
	}
	if t.Prio != nil {
		pg.Spec.PriorityClassName = *t.Prio
		note("priorityClassName=%q", *t.Prio)
	}
	if t.Preempt != nil {
		pg.Spec.Preemptibility = kaiv2.Preemptibility(*t.Preempt)
		note("preemptibility=%q", *t.Preempt)
	}
	if t.Topology != nil {
		pg.Spec.TopologyConstraint = kaiv2.TopologyConstraint{Topology: *t.Topology}
		note("topology=%q", *t.Topology)
	}
	if t.DropOwners {
		pg.OwnerReferences = nil
		note("ownerReferences=none")
	}
	if t.OtherOwner {
		pg.OwnerReferences = []metav1.OwnerReference{{APIVersion: "example.com/v1", Kind: "Widget", Name: "somebody-else", UID: "uid-else"}}
		note("ownerReferences=other")
	}
	if t.AddSubGroup {
		pg.Spec.SubGroups = append(pg.Spec.SubGroups, kaiv2.SubGroup{Name: "sneaked-in", MinMember: 2})
		note("subGroups+1")
	}
	keysOf := func(m map[string]string, skip ...string) []string {
		ks := []string{}
	next:
		for k := range m {
			for _, x := range skip {
				if k == x {
					continue next
				}
			}
			ks = append(ks, k)
		}
		sort.Strings(ks)
		return ks
	}
	lk := keysOf(pg.Labels, inst.W.Cfg.QueueKey, inst.W.Cfg.NodePoolKey)
	for i := 0; i < t.OverLabels && i < len(lk); i++ {
		pg.Labels[lk[i]] = "tampered"
		note("label:%s", lk[i])
	}
	for i := 0; i < t.DelLabels && i < len(lk); i++ {
		delete(pg.Labels, lk[len(lk)-1-i])
		note("-label:%s", lk[len(lk)-1-i])
	}
	ak := keysOf(pg.Annotations)
	for i := 0; i < t.OverAnnots && i < len(ak); i++ {
		pg.Annotations[ak[i]] = "tampered"
		note("annot:%s", ak[i])
	}
	for i := 0; i < t.DelAnnots && i < len(ak); i++ {
		delete(pg.Annotations, ak[len(ak)-1-i])
		note("-annot:%s", ak[len(ak)-1-i])
	}
	must(inst.Base.Update(context.Background(), pg))
	return inst.PodGroup(name)
}

func (inst *Instance) deletePodGroup(name string) {
	if pg := inst.PodGroup(name); pg != nil {
		must(inst.Base.Delete(context.Background(), pg))
	}
}

// applyOwner edits the stored owner object and returns the object as it is afterwards.
func (inst *Instance) applyOwner(cur Obj, c *OwnerChange) Obj {
	o := cur
	o.Labels = map[string]string{}
	o.Annots = map[string]string{}
	for k, v := range cur.Labels {
		o.Labels[k] = v
	}
	for k, v := range cur.Annots {
		o.Annots[k] = v
	}
	for _, k := range c.DelLabels {
		delete(o.Labels, k)
	}
	for _, k := range c.DelAnns {
		delete(o.Annots, k)
	}
	for k, v := range c.SetLabels {
		o.Labels[k] = v
	}
	for k, v := range c.SetAnns {
		o.Annots[k] = v
	}
	stored := o.unstructured()
	must(inst.Base.Get(context.Background(), types.NamespacedName{Namespace: ns, Name: o.Name}, stored))
	if len(o.Labels) == 0 {
		stored.SetLabels(nil)
	} else {
		stored.SetLabels(o.Labels)
	}
	if len(o.Annots) == 0 {
		stored.SetAnnotations(nil)
	} else {
		stored.SetAnnotations(o.Annots)
	}
	must(inst.Base.Update(context.Background(), stored))
	return o
}

// idemFlags classifies the repeated reconciles of a run that issued mutating calls (diagnostics for the
// label of a failing case only: the verdict is the monitor's, which demands zero calls).
type idemFlags struct{ noopUpdate, feedbackUpdate, repatch, other bool }

func (a *idemFlags) merge(b idemFlags) {
	a.noopUpdate = a.noopUpdate || b.noopUpdate
	a.feedbackUpdate = a.feedbackUpdate || b.feedbackUpdate
	a.repatch = a.repatch || b.repatch
	a.other = a.other || b.other
}

func (a idemFlags) String() string {
	xs := []string{}
	if a.noopUpdate {
		xs = append(xs, "noop-update")
	}
	if a.feedbackUpdate {
		xs = append(xs, "feedback-update")
	}
	if a.repatch {
		xs = append(xs, "repatch")
	}
	if a.other {
		xs = append(xs, "other-call")
	}
	if len(xs) == 0 {
		return "ok"
	}
	return "IDEM-VIOLATED:" + strings.Join(xs, ",")
}

type runStats struct {
	idem               idemFlags
	writesFirst        []int // mutating calls of the first reconcile of each pod
	writesRepeat       []int // mutating calls of repeated reconciles (no foreign update since)
	errors, reconciles int
	firstBad           string // the first repeated reconcile that wrote: which pod, after which event
	fresh              bool   // the run has a fresh companion run
	stale              string // history clause (diagnostics): first PodGroup of the fresh run that the run's store lacks / differs from
	frozenOwnerless    bool   // ... the same for a pod without owner reference (outside the clause)
	finals             []kaiv2.PodGroup // the store at the end of the run (diagnostics of the order worlds)
}

// recTerm reconciles pod i on inst and returns the event term together with what was observed.
func recTerm(in *intern, inst *Instance, i int) (term string, calls Calls, failed bool, bpg, apg *kaiv2.PodGroup) {
	before := map[string]kaiv2.PodGroup{}
	for _, g := range inst.PodGroups() {
		before[g.Name] = g
	}
	calls, failed = inst.Reconcile(i)
	pod := inst.Pod(i)
	var ann *string
	if v, ok := pod.Annotations["pod-group-name"]; ok {
		ann = &v
		if g, ok := before[v]; ok {
			bpg = &g
		}
		apg = inst.PodGroup(v)
	}
	term = fmt.Sprintf("(RecE %s, {| eo_writes := %s; eo_err := %s; eo_ann := %s; eo_before := %s; eo_after := %s |})",
		u.Nat(i), u.Z(int64(calls.Total())), u.Bool(failed), in.ostr(ann), in.opg(bpg), in.opg(apg))
	return
}

// finalTerms prints the store and the pods' annotations at the end of a run.
func finalTerms(in *intern, inst *Instance) (string, string) {
	final := []string{}
	for _, g := range inst.PodGroups() {
		g := g
		final = append(final, u.Pair(in.S(g.Name), in.pg(&g)))
	}
	anns := []string{}
	for i := range inst.W.Pods {
		var ann *string
		if v, ok := inst.Pod(i).Annotations["pod-group-name"]; ok {
			ann = &v
		}
		anns = append(anns, in.ostr(ann))
	}
	return u.List(final), u.List(anns)
}

// ownedDiff mirrors Run/C18.v owned_agreeb (diagnostics for the label only): "" when hist agrees with fresh on
// the grouper-owned part.
func ownedDiff(cfg Config, fresh, hist *kaiv2.PodGroup) string {
	if hist == nil {
		return "missing"
	}
	f, h := fresh.Spec, hist.Spec
	switch {
	case f.MinMember != h.MinMember:
		return fmt.Sprintf("minMember %d, fresh %d", h.MinMember, f.MinMember)
	case f.PriorityClassName != h.PriorityClassName:
		return fmt.Sprintf("priorityClassName %q, fresh %q", h.PriorityClassName, f.PriorityClassName)
	case f.Preemptibility != h.Preemptibility:
		return fmt.Sprintf("preemptibility %q, fresh %q", h.Preemptibility, f.Preemptibility)
	case f.TopologyConstraint != h.TopologyConstraint:
		return fmt.Sprintf("topology %v, fresh %v", h.TopologyConstraint, f.TopologyConstraint)
	case len(f.SubGroups) != len(h.SubGroups):
		return fmt.Sprintf("%d sub-groups, fresh %d", len(h.SubGroups), len(f.SubGroups))
	case fmt.Sprint(fresh.OwnerReferences) != fmt.Sprint(hist.OwnerReferences):
		return "ownerReferences differ"
	}
	for _, k := range sortedKeys(fresh.Labels) {
		if k == cfg.QueueKey || k == cfg.NodePoolKey {
			continue
		}
		if v, ok := hist.Labels[k]; !ok || v != fresh.Labels[k] {
			return fmt.Sprintf("label %s=%q, fresh %q", k, v, fresh.Labels[k])
		}
	}
	for _, k := range sortedKeys(fresh.Annotations) {
		if v, ok := hist.Annotations[k]; !ok || v != fresh.Annotations[k] {
			return fmt.Sprintf("annotation %s=%q, fresh %q", k, v, fresh.Annotations[k])
		}
	}
	return ""
}

func sortedKeys(m map[string]string) []string {
	ks := make([]string, 0, len(m))
	for k := range m {
		ks = append(ks, k)
	}
	sort.Strings(ks)
	return ks
}

// execRun plays the events on a fresh instance of the real code and returns the Coq term of the run. A run
// with other events than reconciles is followed by its FRESH run: the trailing reconciles on a second, new
// store that holds the final owner objects and the pods as they were created.
func execRun(in *intern, w *World, wk map[string]bool, evs []Event) (string, runStats) {
	inst := NewInstance(w)
	st := runStats{}
	seen := map[int]bool{}
	terms := []string{}
	objs := append([]Obj{}, w.Objs...)
	lastEv := "start"
	lastHist := ""
	pgOf := func(target int) string {
		if v, ok := inst.Pod(target).Annotations["pod-group-name"]; ok {
			return v
		}
		return ""
	}
	lastNonRec := -1
	for idx, e := range evs {
		if !e.isRec() && !(e.Tamper != nil && inst.PodGroup(pgOf(e.Target)) == nil) {
			lastNonRec = idx
		}
		switch {
		case e.Own != nil:
			objs[e.Own.Idx] = inst.applyOwner(objs[e.Own.Idx], e.Own)
			seen = map[int]bool{}
			lastEv = fmt.Sprintf("owner(%s)-edited(%s)", objs[e.Own.Idx].Kind, e.Own.describe())
			lastHist = lastEv
			terms = append(terms, fmt.Sprintf("(OwnE %s %s, {| eo_writes := 0%%Z; eo_err := false; eo_ann := None; eo_before := None; eo_after := None |})",
				u.Nat(e.Own.Idx), in.obj(objs[e.Own.Idx])))
		case e.Tamper != nil:
			name := pgOf(e.Target)
			bpg := inst.PodGroup(name)
			apg := inst.applyTamper(name, e.Tamper)
			if apg == nil {
				continue // nothing to overwrite (the pod's reconcile failed): not an event
			}
			seen = map[int]bool{}
			lastEv = "podgroup-overwritten(" + strings.Join(e.Tamper.desc, ",") + ")"
			lastHist = lastEv
			terms = append(terms, fmt.Sprintf("(TamE %s %s, {| eo_writes := 0%%Z; eo_err := false; eo_ann := None; eo_before := %s; eo_after := %s |})",
				in.S(name), in.pg(apg), in.opg(bpg), in.opg(apg)))
		case e.Delete:
			name := pgOf(e.Target)
			bpg := inst.PodGroup(name)
			inst.deletePodGroup(name)
			seen = map[int]bool{}
			lastEv = "podgroup-deleted"
			lastHist = lastEv
			terms = append(terms, fmt.Sprintf("(DelE %s, {| eo_writes := 0%%Z; eo_err := false; eo_ann := None; eo_before := %s; eo_after := None |})",
				in.S(name), in.opg(bpg)))
		case e.isRec():
			term, calls, failed, bpg, apg := recTerm(in, inst, e.Rec)
			st.reconciles++
			if failed {
				st.errors++
			}
			if seen[e.Rec] {
				st.writesRepeat = append(st.writesRepeat, calls.Total())
				if calls.Total() > 0 && st.firstBad == "" {
					st.firstBad = fmt.Sprintf("pod%d-after-%s", e.Rec, lastEv)
				}
				if calls.Update > 0 {
					if bpg != nil && apg != nil && in.pg(bpg) == in.pg(apg) {
						st.idem.noopUpdate = true
					} else {
						st.idem.feedbackUpdate = true
					}
				}
				if calls.Patch > 0 {
					st.idem.repatch = true
				}
				if calls.Create+calls.Delete+calls.Other > 0 {
					st.idem.other = true
				}
			} else {
				st.writesFirst = append(st.writesFirst, calls.Total())
			}
			seen[e.Rec] = true
			terms = append(terms, term)
		default:
			name := pgOf(e.Target)
			bpg := inst.PodGroup(name)
			inst.applyForeign(name, e.Foreign)
			apg := inst.PodGroup(name)
			if !quietForeign(wk, e.Foreign) { // as the monitor: keys of other actors do not excuse a write
				seen = map[int]bool{}
			}
			lastEv = "foreign(" + e.Foreign.describe() + ")"
			lastHist = lastEv
			terms = append(terms, fmt.Sprintf("(ForE %s %s, {| eo_writes := 0%%Z; eo_err := false; eo_ann := None; eo_before := %s; eo_after := %s |})",
				in.S(name), in.foreign(e.Foreign), in.opg(bpg), in.opg(apg)))
		}
	}
	final, anns := finalTerms(in, inst)
	st.finals = inst.PodGroups()
	fresh := "None"
	if lastNonRec >= 0 {
		st.fresh = true
		wf := *w
		wf.Objs = objs
		finst := NewInstance(&wf)
		fterms := []string{}
		for _, e := range evs[lastNonRec+1:] {
			if !e.isRec() {
				continue // an overwrite that found no PodGroup
			}
			term, _, _, _, _ := recTerm(in, finst, e.Rec)
			fterms = append(fterms, term)
		}
		ffinal, fanns := finalTerms(in, finst)
		fresh = fmt.Sprintf("(Some {| fr_events := %s; fr_final := %s; fr_final_ann := %s |})", u.List(fterms), ffinal, fanns)
		// diagnostics for the label
		ownerless := map[string]bool{}
		for i, p := range w.Pods {
			if len(p.Owners) == 0 {
				if v, ok := finst.Pod(i).Annotations["pod-group-name"]; ok {
					ownerless[v] = true
				}
			}
		}
		for _, g := range finst.PodGroups() {
			g := g
			if d := ownedDiff(w.Cfg, &g, inst.PodGroup(g.Name)); d != "" {
				if ownerless[g.Name] {
					st.frozenOwnerless = true
				} else if st.stale == "" {
					st.stale = fmt.Sprintf("%s(%s)-after-%s", g.Name, d, lastHist)
				}
			}
		}
	}
	return fmt.Sprintf("{| r_events := %s; r_final := %s; r_final_ann := %s; r_fresh := %s |}", u.List(terms), final, anns, fresh), st
}

// ---- generators ------------------------------------------------------------

type shape struct {
	name  string
	chain []Ref // kinds (group, version, kind) from the direct owner up to the top owner
}

var (
	kDeployment = Ref{Group: "apps", Version: "v1", Kind: "Deployment"}
	kReplicaSet = Ref{Group: "apps", Version: "v1", Kind: "ReplicaSet"}
	kStateful   = Ref{Group: "apps", Version: "v1", Kind: "StatefulSet"}
	kJob        = Ref{Group: "batch", Version: "v1", Kind: "Job"}
	kWidget     = Ref{Group: "example.com", Version: "v1", Kind: "Widget"}
	kWorkflow   = Ref{Group: "argoproj.io", Version: "v1alpha1", Kind: "Workflow"}
	kTraining   = Ref{Group: "run.ai", Version: "v2alpha1", Kind: "TrainingWorkload"}
	kTrainJob   = Ref{Group: "trainer.kubeflow.org", Version: "v1alpha1", Kind: "TrainJob"}
	kDynamo     = Ref{Group: "nvidia.com", Version: "v1alpha1", Kind: "DynamoGraphDeployment"}
	kSeldon     = Ref{Group: "machinelearning.seldon.io", Version: "v1", Kind: "SeldonDeployment"}
	kPodOwner   = Ref{Group: "", Version: "v1", Kind: "Pod"}
)

var shapes = []shape{
	{"bare-pod", nil},
	{"deployment-rs", []Ref{kReplicaSet, kDeployment}},
	{"job", []Ref{kJob}},
	{"statefulset", []Ref{kStateful}},
	{"replicaset", []Ref{kReplicaSet}},
	{"widget-crd", []Ref{kWidget}},
	{"seldon", []Ref{kSeldon}},
	{"skip:workflow>statefulset", []Ref{kStateful, kWorkflow}},
	{"skip:workflow>pod", []Ref{kWorkflow}},
	{"skip:workflow>job", []Ref{kJob, kWorkflow}},
	{"skip:trainingworkload*>widget", []Ref{kWidget, kTraining}},
	{"skip:trainjob>deployment-rs", []Ref{kReplicaSet, kDeployment, kTrainJob}},
	{"skip:dynamo>widget>replicaset", []Ref{kReplicaSet, kWidget, kDynamo}},
	{"widget>job", []Ref{kJob, kWidget}},
	{"pod-owned-by-pod", []Ref{kPodOwner}},
}

const (
	queueKey    = "kai.scheduler/queue"
	nodePoolKey = "kai.scheduler/node-pool"
)

func genLabels(r *u.Rng, cfg Config, rich bool) map[string]string {
	m := map[string]string{}
	if !rich && r.Chance(1, 3) {
		return m
	}
	if r.Chance(1, 3) {
		m[cfg.QueueKey] = u.Pick(r, []string{"team-a", "team-b", ""})
	}
	if r.Chance(1, 4) {
		m["project"] = u.Pick(r, []string{"proj1", "proj2", ""})
	}
	if r.Chance(1, 4) {
		m["priorityClassName"] = u.Pick(r, []string{"train", "inference", "build", "high", "nonexistent", ""})
	}
	if r.Chance(1, 4) {
		m["kai.scheduler/preemptibility"] = u.Pick(r, []string{"preemptible", "non-preemptible", "", "Preemptible", "bogus"})
	}
	if r.Chance(1, 5) {
		m["user"] = u.Pick(r, []string{"alice", "bob"})
	}
	if r.Chance(1, 3) {
		m["app"] = u.Pick(r, []string{"web", "trainer"})
	}
	if cfg.NodePoolKey != "" && r.Chance(1, 6) {
		m[cfg.NodePoolKey] = u.Pick(r, []string{"pool-a", "pool-b"})
	}
	return m
}

func genAnnots(r *u.Rng) map[string]string {
	m := map[string]string{}
	if r.Chance(1, 5) {
		m["kai.scheduler/topology"] = "topo-1"
		if r.Bool() {
			m["kai.scheduler/topology-required-placement"] = "rack"
		}
		if r.Bool() {
			m["kai.scheduler/topology-preferred-placement"] = "zone"
		}
	}
	if r.Chance(1, 4) {
		m["note"] = u.Pick(r, []string{"x", "some longer annotation value"})
	}
	if r.Chance(1, 8) {
		m["user"] = "carol"
	}
	if r.Chance(1, 12) {
		m["kai.scheduler/top-owner-metadata"] = "overridden-by-owner"
	}
	return m
}

func genConfig(r *u.Rng) Config {
	c := Config{QueueKey: queueKey, NodePoolKey: nodePoolKey}
	if r.Chance(1, 6) {
		c.NodePoolKey = ""
	}
	if r.Chance(1, 8) {
		c.QueueKey = "runai/queue"
	}
	for _, pc := range []string{"train", "inference", "build", "high"} {
		if r.Chance(2, 3) {
			c.PrioClasses = append(c.PrioClasses, pc)
		}
	}
	switch r.Intn(4) {
	case 0:
		c.CMState = 0
	case 1:
		if r.Chance(1, 3) {
			c.CMState = 1
		}
	default:
		c.CMState = 2
		pool := []CMEntry{
			{"StatefulSet", "apps", "high", "non-preemptible"},
			{"StatefulSet", "", "build", "Preemptible"},
			{"Deployment", "apps", "high", ""},
			{"Deployment", "", "nonexistent", "preemptible"},
			{"ReplicaSet", "apps", "build", "bogus"},
			{"Job", "batch", "build", "PREEMPTIBLE"},
			{"Pod", "", "high", "Non-Preemptible"},
			{"Widget", "example.com", "inference", "non-preemptible"},
			{"Workflow", "argoproj.io", "high", "preemptible"},
			{"Widget", "", "", "preemptible"},
			{"", "", "high", "preemptible"},
		}
		for i, n := 0, r.Range(0, 4); i < n; i++ {
			c.CM = append(c.CM, u.Pick(r, pool))
		}
	}
	return c
}

// genWorld builds one world of the given shape with n sibling pods. defect selects a malformed variant.
func genWorld(r *u.Rng, sh shape, n int, defect string) *World {
	w := &World{Cfg: genConfig(r)}
	// owner objects, top first so that references can be filled in
	var above *Ref
	objs := make([]Obj, len(sh.chain))
	for i := len(sh.chain) - 1; i >= 0; i-- {
		k := sh.chain[i]
		o := Obj{Group: k.Group, Version: k.Version, Kind: k.Kind,
			Name: fmt.Sprintf("%s-%d", strings.ToLower(k.Kind), i), UID: fmt.Sprintf("uid-%s-%d-%04x", strings.ToLower(k.Kind), i, r.Intn(1<<16)),
			Labels: genLabels(r, w.Cfg, i == len(sh.chain)-1), Annots: genAnnots(r)}
		if above != nil {
			o.Owners = []Ref{*above}
		}
		if k.Kind == "Pod" {
			o.Name = "launcher"
		}
		objs[i] = o
		above = &Ref{Group: k.Group, Version: k.Version, Kind: k.Kind, Name: o.Name, UID: o.UID}
	}
	tmplLabels := genLabels(r, w.Cfg, false)
	tmplAnnots := genAnnots(r)
	delete(tmplAnnots, "kai.scheduler/top-owner-metadata")
	prio := ""
	if r.Chance(1, 4) {
		prio = u.Pick(r, []string{"train", "inference", "high", "nonexistent"})
	}
	if r.Chance(1, 25) {
		tmplLabels["kai.scheduler/subgroup-name"] = "stale-subgroup"
	}
	switch defect {
	case "uid-mismatch":
		above.UID = "stale-uid"
	case "missing-owner":
		above.Name = "gone"
	case "two-owners-above":
		if len(objs) >= 1 {
			objs[0].Owners = append(objs[0].Owners, Ref{Group: "example.com", Version: "v1", Kind: "Widget", Name: "other", UID: "uid-other"})
		}
	case "forbidden-top":
		w.Forbidden = []string{sh.chain[len(sh.chain)-1].Kind}
	case "forbidden-direct":
		w.Forbidden = []string{sh.chain[0].Kind}
	case "user-annotation":
		tmplAnnots["pod-group-name"] = "my-own-group"
	}
	for j := 0; j < n; j++ {
		p := Pod{Name: fmt.Sprintf("w-%d", j), UID: fmt.Sprintf("uid-pod-%d-%04x", j, r.Intn(1<<16)), Labels: map[string]string{}, Annots: map[string]string{}, Prio: prio}
		for k, v := range tmplLabels {
			p.Labels[k] = v
		}
		for k, v := range tmplAnnots {
			p.Annots[k] = v
		}
		p.Labels["pod-index"] = fmt.Sprint(j) // a label that differs between siblings, as the workload controllers add
		if above != nil {
			p.Owners = []Ref{*above}
			if defect == "two-owner-refs" {
				p.Owners = append(p.Owners, Ref{Group: "example.com", Version: "v1", Kind: "Widget", Name: "second", UID: "uid-second"})
			}
		}
		w.Pods = append(w.Pods, p)
	}
	w.Objs = objs
	return w
}

func ptr[T any](v T) *T { return &v }

// keys of the scheduler (pkg/common/constants: LastStartTimeStamp, StalePodgroupTimeStamp, written by
// pkg/scheduler/cache/status_updater) and of an administrator; no generated owner or pod carries them
var (
	foreignAnnotKeys = []string{"kai.scheduler/last-start-timestamp", "kai.scheduler/stale-podgroup-timestamp", "admin.example.com/note"}
	foreignLabelKeys = []string{"admin.example.com/cost-center", "team-owner"}
	foreignValues    = map[string][]string{
		"kai.scheduler/last-start-timestamp":     {"2025-06-01T10:00:00Z", "2025-06-01T11:30:00Z"},
		"kai.scheduler/stale-podgroup-timestamp": {"2025-06-01T10:05:00Z", "2025-06-02T00:00:00Z"},
		"admin.example.com/note":                 {"do not delete", ""},
		"admin.example.com/cost-center":          {"cc-42", "cc-7"},
		"team-owner":                             {"ml-infra", "platform"},
	}
)

// worldKeys mirrors Run/C18.v world_keys: every label / annotation key some object of the world carries (the
// owner objects as edited in any of the runs included) plus the keys the grouper writes by itself.
func worldKeys(w *World, runs [][]Event) map[string]bool {
	m := map[string]bool{w.Cfg.QueueKey: true, w.Cfg.NodePoolKey: true, "kai.scheduler/top-owner-metadata": true,
		"user": true, "pod-group-name": true, "kai.scheduler/subgroup-name": true}
	for _, o := range w.Objs {
		for k := range o.Labels {
			m[k] = true
		}
		for k := range o.Annots {
			m[k] = true
		}
	}
	for _, p := range w.Pods {
		for k := range p.Labels {
			m[k] = true
		}
		for k := range p.Annots {
			m[k] = true
		}
	}
	for _, evs := range runs {
		for _, e := range evs {
			if e.Own != nil {
				for k := range e.Own.SetLabels {
					m[k] = true
				}
				for k := range e.Own.SetAnns {
					m[k] = true
				}
			}
		}
	}
	return m
}

func quietForeign(wk map[string]bool, f *Foreign) bool {
	if !f.quiet() {
		return false
	}
	for _, x := range f.Labels {
		if wk[x.Key] {
			return false
		}
	}
	for _, x := range f.Annots {
		if wk[x.Key] {
			return false
		}
	}
	return true
}

// genKeyUpds: add / change (2 in 3) or remove (1 in 3) one to three of the keys
func genKeyUpds(r *u.Rng, keys []string, max int) []KeyUpd {
	out := []KeyUpd{}
	for i, n := 0, r.Range(1, max); i < n; i++ {
		k := u.Pick(r, keys)
		if r.Chance(1, 3) {
			out = append(out, KeyUpd{Key: k})
		} else {
			out = append(out, KeyUpd{Key: k, Val: ptr(u.Pick(r, foreignValues[k]))})
		}
	}
	return out
}

// genKeyForeign: another actor labels / annotates the PodGroup and touches nothing else. first = the keys are
// set (the scheduler stamping a PodGroup that just started), otherwise set, changed or removed.
func genKeyForeign(r *u.Rng, first bool) *Foreign {
	f := &Foreign{}
	switch r.Intn(4) {
	case 0:
		f.Labels = genKeyUpds(r, foreignLabelKeys, 2)
	case 1, 2:
		f.Annots = genKeyUpds(r, foreignAnnotKeys, 3)
	default:
		f.Labels = genKeyUpds(r, foreignLabelKeys, 2)
		f.Annots = genKeyUpds(r, foreignAnnotKeys, 3)
	}
	if first {
		for i := range f.Labels {
			if f.Labels[i].Val == nil {
				f.Labels[i].Val = ptr(foreignValues[f.Labels[i].Key][0])
			}
		}
		for i := range f.Annots {
			if f.Annots[i].Val == nil {
				f.Annots[i].Val = ptr(foreignValues[f.Annots[i].Key][0])
			}
		}
	}
	return f
}

func genForeign(r *u.Rng, cfg Config) *Foreign {
	f := &Foreign{}
	for {
		if r.Chance(1, 2) {
			f.Queue = ptr(u.Pick(r, []string{"q-moved", "q-other", ""}))
		}
		if r.Chance(1, 2) {
			switch r.Intn(3) {
			case 0:
				f.Mark = ptr((*bool)(nil))
			case 1:
				f.Mark = ptr(ptr(true))
			default:
				f.Mark = ptr(ptr(false))
			}
		}
		if r.Chance(1, 2) {
			switch r.Intn(3) {
			case 0:
				f.Backoff = ptr((*int32)(nil))
			case 1:
				f.Backoff = ptr(ptr(int32(1)))
			default:
				f.Backoff = ptr(ptr(int32(-1)))
			}
		}
		if cfg.NodePoolKey != "" && r.Chance(1, 2) {
			if r.Chance(1, 3) {
				f.NodePool = ptr((*string)(nil))
			} else {
				f.NodePool = ptr(ptr(u.Pick(r, []string{"pool-x", "pool-y"})))
			}
		}
		if r.Chance(1, 4) {
			if r.Chance(1, 3) {
				f.QLabel = ptr((*string)(nil))
			} else {
				f.QLabel = ptr(ptr(u.Pick(r, []string{"ql-1", "ql-2"})))
			}
		}
		// the scheduler sets mark-unschedulable and its timestamps in one update
		if r.Chance(1, 3) {
			f.Annots = genKeyUpds(r, foreignAnnotKeys, 2)
		}
		if r.Chance(1, 6) {
			f.Labels = genKeyUpds(r, foreignLabelKeys, 1)
		}
		// another actor overwrites a key the grouper does compute: the next reconcile puts it back
		if r.Chance(1, 10) {
			f.Labels = append(f.Labels, KeyUpd{Key: "app", Val: ptr("hijacked")})
		}
		if r.Chance(1, 10) {
			f.Annots = append(f.Annots, KeyUpd{Key: "note", Val: ptr("hijacked")})
		}
		if !f.quiet() || len(f.Labels)+len(f.Annots) > 0 {
			return f
		}
	}
}

// genOwnerChange removes one or two label / annotation keys from an owner object (mostly the top owner, whose
// metadata the PodGroup copies); nil when no owner carries a key.
func genOwnerChange(r *u.Rng, w *World) *OwnerChange {
	cands := []int{}
	for i, o := range w.Objs {
		if len(o.Labels)+len(o.Annots) > 0 {
			cands = append(cands, i)
		}
	}
	if len(cands) == 0 {
		return nil
	}
	idx := cands[len(cands)-1]
	if r.Chance(1, 3) {
		idx = u.Pick(r, cands)
	}
	o := w.Objs[idx]
	type ka struct {
		key   string
		annot bool
	}
	keys := []ka{}
	for k := range o.Labels {
		keys = append(keys, ka{k, false})
	}
	for k := range o.Annots {
		keys = append(keys, ka{k, true})
	}
	sort.Slice(keys, func(a, b int) bool {
		if keys[a].annot != keys[b].annot {
			return !keys[a].annot
		}
		return keys[a].key < keys[b].key
	})
	u.Shuffle(r, keys)
	c := &OwnerChange{Idx: idx}
	for i, n := 0, r.Range(1, 2); i < n && i < len(keys); i++ {
		if keys[i].annot {
			c.DelAnns = append(c.DelAnns, keys[i].key)
		} else {
			c.DelLabels = append(c.DelLabels, keys[i].key)
		}
	}
	return c
}

// genOwnerEdit edits an owner object so that what the grouper computes from it CHANGES: priority class,
// preemptibility, queue / project / user labels, copied labels and annotations, topology annotations are set to
// new values (mostly on the top owner, whose metadata the PodGroup copies; priority class and preemptibility are
// read from every owner of the chain); sometimes keys are removed in the same edit. nil for worlds without owner.
func genOwnerEdit(r *u.Rng, w *World) *OwnerChange {
	if len(w.Objs) == 0 {
		return nil
	}
	idx := len(w.Objs) - 1
	if r.Chance(1, 3) {
		idx = r.Intn(len(w.Objs))
	}
	o := w.Objs[idx]
	c := &OwnerChange{Idx: idx, SetLabels: map[string]string{}, SetAnns: map[string]string{}}
	other := func(cur string, vals []string) string { // a value different from the current one
		for tries := 0; tries < 8; tries++ {
			if v := u.Pick(r, vals); v != cur {
				return v
			}
		}
		return cur + "-edited"
	}
	type choice struct {
		annot bool
		key   string
		vals  []string
	}
	choices := []choice{
		{false, "priorityClassName", []string{"train", "inference", "build", "high", "nonexistent"}},
		{false, "priorityClassName", []string{"train", "inference", "build", "high"}},
		{false, "kai.scheduler/preemptibility", []string{"preemptible", "non-preemptible", "bogus"}},
		{false, w.Cfg.QueueKey, []string{"team-a", "team-b", "team-c"}},
		{false, "project", []string{"proj1", "proj2", "proj3"}},
		{false, "user", []string{"alice", "bob", "dave"}},
		{false, "app", []string{"web", "trainer", "api"}},
		{false, "tier", []string{"gold", "silver"}},
		{true, "kai.scheduler/topology", []string{"topo-1", "topo-2"}},
		{true, "kai.scheduler/topology-required-placement", []string{"rack", "zone"}},
		{true, "kai.scheduler/topology-preferred-placement", []string{"zone", "block"}},
		{true, "note", []string{"x", "y", "edited by hand"}},
		{true, "user", []string{"carol", "erin"}},
		{true, "kai.scheduler/top-owner-metadata", []string{"overridden-by-owner", "overridden-again"}},
	}
	for i, n := 0, r.Range(1, 3); i < n; i++ {
		ch := u.Pick(r, choices)
		if ch.annot {
			c.SetAnns[ch.key] = other(o.Annots[ch.key], ch.vals)
		} else {
			c.SetLabels[ch.key] = other(o.Labels[ch.key], ch.vals)
		}
	}
	if r.Chance(1, 4) {
		if d := genOwnerChange(r, w); d != nil && d.Idx == idx {
			for _, k := range d.DelLabels {
				if _, set := c.SetLabels[k]; !set {
					c.DelLabels = append(c.DelLabels, k)
				}
			}
			for _, k := range d.DelAnns {
				if _, set := c.SetAnns[k]; !set {
					c.DelAnns = append(c.DelAnns, k)
				}
			}
		}
	}
	return c
}

// genTamper: one to three grouper-owned fields of the PodGroup are overwritten.
func genTamper(r *u.Rng) *Tamper {
	t := &Tamper{}
	for i, n := 0, r.Range(1, 3); i < n; i++ {
		switch r.Intn(10) {
		case 0, 1:
			t.MinMember = ptr(u.Pick(r, []int32{0, 2, 3, 7}))
		case 2, 3:
			t.Prio = ptr(u.Pick(r, []string{"build", "high", "nonexistent", ""}))
		case 4:
			t.Preempt = ptr(u.Pick(r, []string{"preemptible", "non-preemptible", ""}))
		case 5:
			t.Topology = ptr(u.Pick(r, []string{"topo-x", ""}))
		case 6:
			if r.Bool() {
				t.DropOwners = true
			} else {
				t.OtherOwner = true
			}
		case 7:
			t.AddSubGroup = true
		case 8:
			if r.Bool() {
				t.OverLabels = r.Range(1, 2)
			} else {
				t.DelLabels = r.Range(1, 2)
			}
		default:
			if r.Bool() {
				t.OverAnnots = r.Range(1, 2)
			} else {
				t.DelAnnots = 1
			}
		}
	}
	return t
}

// genHistEvent: one event after which the PodGroup has to be brought back to the function of the workload.
func genHistEvent(r *u.Rng, w *World, kind string) Event {
	n := len(w.Pods)
	switch kind {
	case "edit":
		if oc := genOwnerEdit(r, w); oc != nil {
			return Event{Rec: -1, Own: oc}
		}
		return Event{Rec: -1, Target: r.Intn(n), Tamper: genTamper(r)}
	case "tamper":
		return Event{Rec: -1, Target: r.Intn(n), Tamper: genTamper(r)}
	default:
		return Event{Rec: -1, Target: r.Intn(n), Delete: true}
	}
}

var histKinds = []string{"edit", "tamper", "delete"}

// histRuns: every pod is reconciled (all of them assigned); then the owner is edited / the PodGroup
// overwritten / deleted (kinds, one run each; a last run mixes several such events with partial reconciles and
// foreign updates); then every pod is reconciled again, in any order, twice.
func histRuns(r *u.Rng, w *World, kinds []string, mixed bool) [][]Event {
	n := len(w.Pods)
	perms := permutations(n)
	anyOrder := func() []Event { return recs(perms[r.Intn(len(perms))]...) }
	runs := [][]Event{}
	for _, kind := range kinds {
		evs := anyOrder()
		if r.Chance(1, 3) {
			evs = append(evs, anyOrder()...)
		}
		evs = append(evs, genHistEvent(r, w, kind))
		evs = append(evs, anyOrder()...)
		evs = append(evs, anyOrder()...)
		runs = append(runs, evs)
	}
	if mixed {
		evs := anyOrder()
		for i, m := 0, r.Range(2, 4); i < m; i++ {
			if r.Chance(1, 4) {
				evs = append(evs, Event{Rec: -1, Target: r.Intn(n), Foreign: genForeign(r, w.Cfg)})
			} else {
				evs = append(evs, genHistEvent(r, w, u.Pick(r, histKinds)))
			}
			if r.Bool() {
				evs = append(evs, recs(r.Intn(n))...)
			}
		}
		evs = append(evs, anyOrder()...)
		evs = append(evs, anyOrder()...)
		runs = append(runs, evs)
	}
	return runs
}

func permutations(n int) [][]int {
	if n == 0 {
		return [][]int{{}}
	}
	out := [][]int{}
	var rec func(cur []int, used []bool)
	rec = func(cur []int, used []bool) {
		if len(cur) == n {
			out = append(out, append([]int{}, cur...))
			return
		}
		for i := 0; i < n; i++ {
			if !used[i] {
				used[i] = true
				rec(append(cur, i), used)
				used[i] = false
			}
		}
	}
	rec(nil, make([]bool, n))
	return out
}

func recs(is ...int) []Event {
	out := make([]Event, len(is))
	for i, x := range is {
		out[i] = Event{Rec: x}
	}
	return out
}

// groupRuns: all orders, a run with repeats, runs with foreign updates between reconciles.
func groupRuns(r *u.Rng, w *World, thorough bool) [][]Event {
	n := len(w.Pods)
	runs := [][]Event{}
	perms := permutations(n)
	if n > 3 {
		u.Shuffle(r, perms)
		perms = perms[:6]
	}
	for _, p := range perms {
		runs = append(runs, recs(p...))
	}
	// repeats in a random order
	rep := []int{}
	for i := 0; i < n; i++ {
		rep = append(rep, i, i)
	}
	if r.Bool() {
		rep = append(rep, r.Intn(n))
	}
	u.Shuffle(r, rep)
	runs = append(runs, recs(rep...))
	// foreign updates interleaved
	nf := 1
	if thorough {
		nf = 3
	}
	for k := 0; k < nf; k++ {
		evs := []Event{}
		order := r.Intn(len(perms))
		evs = append(evs, recs(perms[order]...)...)
		for round, rounds := 0, r.Range(1, 2); round < rounds; round++ {
			for j, m := 0, r.Range(1, 2); j < m; j++ {
				if r.Chance(1, 3) {
					evs = append(evs, Event{Rec: -1, Target: r.Intn(n), Foreign: genKeyForeign(r, round == 0 && j == 0)})
				} else {
					evs = append(evs, Event{Rec: -1, Target: r.Intn(n), Foreign: genForeign(r, w.Cfg)})
				}
			}
			// the workload's own metadata changes after another actor touched the PodGroup
			if oc := genOwnerChange(r, w); oc != nil && r.Chance(1, 2) {
				evs = append(evs, Event{Rec: -1, Own: oc})
			}
			// ... the owner is edited, the PodGroup overwritten or deleted
			if r.Chance(1, 2) {
				evs = append(evs, genHistEvent(r, w, u.Pick(r, histKinds)))
			}
			again := perms[r.Intn(len(perms))]
			evs = append(evs, recs(again...)...)
		}
		runs = append(runs, evs)
	}
	return runs
}

// idemRuns: each pod twice in a row; everybody then everybody again; foreign update then twice; the PodGroup
// labelled / annotated by another actor, then everybody several times, the keys changed / removed, everybody
// again; an owner loses keys after the PodGroup was created, then everybody twice.
func idemRuns(r *u.Rng, w *World, thorough bool) [][]Event {
	n := len(w.Pods)
	runs := [][]Event{}
	runs = append(runs, recs(0, 0, 0))
	all := []int{}
	for i := 0; i < n; i++ {
		all = append(all, i)
	}
	if n > 1 {
		twice := append(append([]int{}, all...), all...)
		runs = append(runs, recs(twice...))
	}
	evs := recs(all...)
	evs = append(evs, Event{Rec: -1, Target: r.Intn(n), Foreign: genForeign(r, w.Cfg)})
	evs = append(evs, recs(all...)...)
	evs = append(evs, recs(all...)...)
	runs = append(runs, evs)
	// keys of other actors: the reconciles after them write nothing at all
	evs = recs(all...)
	evs = append(evs, Event{Rec: -1, Target: r.Intn(n), Foreign: genKeyForeign(r, true)})
	evs = append(evs, recs(all...)...)
	evs = append(evs, recs(all...)...)
	for i, m := 0, r.Range(1, 2); i < m; i++ {
		evs = append(evs, Event{Rec: -1, Target: r.Intn(n), Foreign: genKeyForeign(r, false)})
		evs = append(evs, recs(r.Intn(n))...)
	}
	evs = append(evs, recs(all...)...)
	runs = append(runs, evs)
	// a key is removed from an owner after the PodGroup was created (and another actor's key is there too)
	if oc := genOwnerChange(r, w); oc != nil {
		evs = recs(all...)
		if r.Bool() {
			evs = append(evs, Event{Rec: -1, Target: r.Intn(n), Foreign: genKeyForeign(r, true)})
		}
		evs = append(evs, Event{Rec: -1, Own: oc})
		evs = append(evs, recs(all...)...)
		evs = append(evs, recs(all...)...)
		runs = append(runs, evs)
	}
	// history independence: all pods assigned, then an owner edit that changes what is computed / an overwritten
	// PodGroup / a deleted PodGroup, then every pod again (the repeated reconciles must also be silent)
	runs = append(runs, histRuns(r, w, histKinds, true)...)
	return runs
}

func chainTerm(in *intern, sh shape) string {
	return u.ListOf(sh.chain, func(k Ref) string { return in.gvk(k.Group, k.Version, k.Kind) })
}

func sortedCopy(xs []int) []int { c := append([]int{}, xs...); sort.Ints(c); return c }

type emitter struct {
	out      *u.Out
	thorough bool
	extra    [][]Event // fixed runs added to the CkIdem case of the next world
	jobs     []func() *sink
	planned  int // cases planned so far (two per world)
}

// sink records what a world's execution reports, so that worlds can be executed in parallel and reported in order.
type sink struct{ ops []func(o *u.Out) }

func (k *sink) Count(key string)         { k.ops = append(k.ops, func(o *u.Out) { o.Count(key) }) }
func (k *sink) CountN(key string, n int) { k.ops = append(k.ops, func(o *u.Out) { o.CountN(key, n) }) }
func (k *sink) Add(term, label string)   { k.ops = append(k.ops, func(o *u.Out) { o.Add(term, label) }) }
func (k *sink) NonTrivial(fp string)     { k.ops = append(k.ops, func(o *u.Out) { o.NonTrivial(fp) }) }
func (k *sink) Sample(v any)             { k.ops = append(k.ops, func(o *u.Out) { o.Sample(v) }) }

// flush executes the planned worlds on a pool of workers (every run has its own API store) and reports them in
// the order they were planned.
func (em *emitter) flush() {
	res := make([]*sink, len(em.jobs))
	var wg sync.WaitGroup
	next := int64(-1)
	workers := runtime.GOMAXPROCS(0)
	if workers > 8 {
		workers = 8
	}
	for wkr := 0; wkr < workers; wkr++ {
		wg.Add(1)
		go func() {
			defer wg.Done()
			for {
				i := int(atomic.AddInt64(&next, 1))
				if i >= len(em.jobs) {
					return
				}
				res[i] = em.jobs[i]()
			}
		}()
	}
	wg.Wait()
	for _, k := range res {
		for _, op := range k.ops {
			op(em.out)
		}
	}
	em.jobs = nil
}

// emitWorld generates the runs of the world's two cases (consuming r) and plans their execution.
func (em *emitter) emitWorld(r *u.Rng, origin string, sh shape, w *World, defect string) {
	checks := []string{"CkGroup", "CkIdem"}
	runsOf := map[string][][]Event{
		"CkGroup": groupRuns(r, w, em.thorough),
	}
	runsOf["CkIdem"] = append(idemRuns(r, w, em.thorough), em.extra...)
	em.planned += len(checks)
	thorough := em.thorough
	em.jobs = append(em.jobs, func() *sink {
		k := &sink{}
		execWorld(k, thorough, origin, sh, w, defect, checks, runsOf)
		return k
	})
}

func execWorld(out *sink, thorough bool, origin string, sh shape, w *World, defect string, checks []string, runsOf map[string][][]Event) {
	staleSG := false
	for _, p := range w.Pods {
		if _, ok := p.Labels["kai.scheduler/subgroup-name"]; ok {
			staleSG = true
		}
	}
	desc := fmt.Sprintf("%s shape=%s pods=%d defect=%s cm=%d nodepoolkey=%q forbidden=%v stale-subgroup-label=%v", origin, sh.name, len(w.Pods), defect, w.Cfg.CMState, w.Cfg.NodePoolKey, w.Forbidden, staleSG)
	for _, check := range checks {
		in := newIntern()
		runs := runsOf[check]
		rterms := []string{}
		agg := runStats{}
		wk := worldKeys(w, runs)
		for _, evs := range runs {
			for _, e := range evs {
				switch {
				case e.Own != nil && e.Own.edits():
					out.Count("event:owner-edited")
				case e.Own != nil:
					out.Count("event:owner-keys-removed")
				case e.Tamper != nil:
					out.Count("event:podgroup-overwritten")
				case e.Delete:
					out.Count("event:podgroup-deleted")
				case e.Foreign != nil && quietForeign(wk, e.Foreign):
					out.Count("event:foreign-keys-only")
				case e.Foreign != nil && len(e.Foreign.Labels)+len(e.Foreign.Annots) > 0:
					out.Count("event:foreign-fields+keys")
				case e.Foreign != nil:
					out.Count("event:foreign-fields")
				}
			}
			t, st := execRun(in, w, wk, evs)
			rterms = append(rterms, t)
			if st.fresh {
				out.Count("runs-with-fresh-companion")
			}
			if agg.stale == "" {
				agg.stale = st.stale
			}
			agg.frozenOwnerless = agg.frozenOwnerless || st.frozenOwnerless
			agg.idem.merge(st.idem)
			agg.writesFirst = append(agg.writesFirst, st.writesFirst...)
			agg.writesRepeat = append(agg.writesRepeat, st.writesRepeat...)
			agg.errors += st.errors
			agg.reconciles += st.reconciles
			if agg.firstBad == "" {
				agg.firstBad = st.firstBad
			}
		}
		term := fmt.Sprintf("{| k_cfg := %s; k_cluster := %s; k_pods := %s; k_chain := %s; k_check := %s; k_runs := %s |}",
			in.config(w.Cfg, w.Forbidden), u.ListOf(w.Objs, in.obj), u.ListOf(w.Pods, in.pod), chainTerm(in, sh), check, u.List(rterms))
		label := fmt.Sprintf("%s check=%s", desc, check)
		switch {
		case agg.stale != "":
			label += " history=STALE:" + agg.stale
			out.Count("history:STALE")
		case agg.frozenOwnerless:
			label += " history=ok(ownerless-pod-frozen)"
			out.Count("history:ok(ownerless-pod-frozen)")
		default:
			label += " history=ok"
			out.Count("history:ok")
		}
		if check == "CkIdem" {
			label += fmt.Sprintf(" repeat-writes=%v idem=%s", sortedCopy(agg.writesRepeat), agg.idem)
			if agg.firstBad != "" {
				label += " first=" + agg.firstBad
			}
			out.Count("idem:" + agg.idem.String())
			for _, x := range agg.writesRepeat {
				out.Count(fmt.Sprintf("repeat-reconcile-writes:%d", x))
			}
		} else {
			for _, x := range agg.writesFirst {
				out.Count(fmt.Sprintf("first-reconcile-writes:%d", x))
			}
		}
		out.Add(in.Wrap("CaseW "+term), label)
		out.Count("check:" + check)
		out.Count("shape:" + sh.name)
		out.Count("origin:" + origin)
		out.Count(fmt.Sprintf("pods:%d", len(w.Pods)))
		out.CountN("reconciles", agg.reconciles)
		out.CountN("reconcile-errors", agg.errors)
		if defect != "" {
			out.Count("defect:" + defect)
		}
		// non-trivial: at least one reconcile succeeded and (two or more pods, or a repeated reconcile, or a foreign update)
		if agg.errors < agg.reconciles {
			out.NonTrivial(fmt.Sprintf("%s|%d|%s|%s|%d|%v", sh.name, len(w.Pods), defect, check, w.Cfg.CMState, w.Cfg.NodePoolKey != ""))
		}
		out.Sample(map[string]any{"label": label, "world": w, "runs": len(runs)})
	}
}

// Run generates n cases (two per world) from seed and writes them under dir.
func Run(dir string, seed uint64, n int, tier string) error {
	out := u.NewOut(dir, "C18", "KaiV.Run.C18", "tcase", 20)
	out.Flags = true // observation flag 100 (Run/C18.v case_flags)
	em := &emitter{out: out, thorough: tier == "thorough"}
	root := u.NewRng(seed)
	maxPods := 3
	if em.thorough {
		maxPods = 4
	}
	// fixed boundary corpus: every shape with two pods, no labels anywhere, then with queue labels on the top owner
	cr := root.Fork(1 << 40)
	for _, sh := range shapes {
		w := genWorld(cr, sh, 2, "")
		em.emitWorld(cr, "corpus", sh, w, "")
	}
	{
		// the witness of C18_idempotent_v0_refuted: a StatefulSet pod without any label
		w := &World{Cfg: Config{QueueKey: queueKey, NodePoolKey: nodePoolKey},
			Objs: []Obj{{Group: "apps", Version: "v1", Kind: "StatefulSet", Name: "web", UID: "u-sts"}},
			Pods: []Pod{{Name: "web-0", UID: "u-p0", Owners: []Ref{{"apps", "v1", "StatefulSet", "web", "u-sts"}}}}}
		em.emitWorld(cr, "corpus-witness", shapes[3], w, "")
		// the witness of C18_reconcile_twice_before_repair / C18_annotation_feedback_*: a pod owned directly by a Workflow
		w2 := &World{Cfg: Config{QueueKey: queueKey, NodePoolKey: nodePoolKey},
			Objs: []Obj{{Group: "argoproj.io", Version: "v1alpha1", Kind: "Workflow", Name: "wf", UID: "u-wf", Labels: map[string]string{queueKey: "q1"}}},
			Pods: []Pod{{Name: "step-0", UID: "u-p0", Owners: []Ref{{"argoproj.io", "v1alpha1", "Workflow", "wf", "u-wf"}}}}}
		em.emitWorld(cr, "corpus-witness", shapes[8], w2, "")
		// regression inputs of the repairs 3f1c7d2 and 8227120 (theorems C18_stale_subgroup_* and
		// C18_annotation_feedback_*): every reconcile after the first must be silent for them
		sts := Obj{Group: "apps", Version: "v1", Kind: "StatefulSet", Name: "web", UID: "u-sts", Labels: map[string]string{queueKey: "team-a"}}
		stsRef := Ref{"apps", "v1", "StatefulSet", "web", "u-sts"}
		// a pod that carries a sub-group label although its group has no sub-groups
		w3 := &World{Cfg: Config{QueueKey: queueKey, NodePoolKey: nodePoolKey, PrioClasses: []string{"train"}},
			Objs: []Obj{sts},
			Pods: []Pod{{Name: "web-9", UID: "u-p9", Labels: map[string]string{"kai.scheduler/subgroup-name": "gone"}, Owners: []Ref{stsRef}},
				{Name: "web-8", UID: "u-p8", Owners: []Ref{stsRef}}}}
		em.emitWorld(cr, "corpus-regression", shapes[3], w3, "")
		// a pod whose direct owner the grouper may not GET is its own grouping object
		w4 := &World{Cfg: Config{QueueKey: queueKey, NodePoolKey: nodePoolKey, PrioClasses: []string{"train"}},
			Objs: []Obj{sts}, Forbidden: []string{"StatefulSet"},
			Pods: []Pod{{Name: "web-0", UID: "u-p0", Owners: []Ref{stsRef}}}}
		em.emitWorld(cr, "corpus-regression", shapes[3], w4, "forbidden-direct")
		// the skipped owner itself carries a pod-group-name annotation (propagated down to the pod), and so does a plain top owner
		w5 := &World{Cfg: Config{QueueKey: queueKey, NodePoolKey: nodePoolKey},
			Objs: []Obj{{Group: "argoproj.io", Version: "v1alpha1", Kind: "Workflow", Name: "wf", UID: "u-wf", Annots: map[string]string{"pod-group-name": "from-workflow", "note": "x"}}},
			Pods: []Pod{{Name: "step-0", UID: "u-p0", Annots: map[string]string{"user": "carol"}, Owners: []Ref{{"argoproj.io", "v1alpha1", "Workflow", "wf", "u-wf"}}},
				{Name: "step-1", UID: "u-p1", Annots: map[string]string{"pod-group-name": "given-by-user"}, Owners: []Ref{{"argoproj.io", "v1alpha1", "Workflow", "wf", "u-wf"}}}}}
		em.emitWorld(cr, "corpus-regression", shapes[8], w5, "")
		w6 := &World{Cfg: Config{QueueKey: queueKey, NodePoolKey: nodePoolKey},
			Objs: []Obj{{Group: "apps", Version: "v1", Kind: "StatefulSet", Name: "web", UID: "u-sts", Annots: map[string]string{"pod-group-name": "from-owner"}}},
			Pods: []Pod{{Name: "web-0", UID: "u-p0", Owners: []Ref{stsRef}}, {Name: "web-1", UID: "u-p1", Labels: map[string]string{"kai.scheduler/subgroup-name": "gone"}, Owners: []Ref{stsRef}}}}
		em.emitWorld(cr, "corpus-regression", shapes[3], w6, "")
	}
	{
		// another actor's keys on the stored PodGroup (theorems C18_idempotent_with_foreign_keys,
		// C18_swapped_comparison_writes_forever, C18_owner_key_removed): StatefulSet team-a/trainer with two pods;
		// the scheduler sets a backoff and the node-pool label, later its two timestamp annotations together with
		// mark-unschedulable, an administrator labels the PodGroup; every reconcile after a reconcile is silent,
		// and so is the first one after the pure label / annotation updates
		sts := Obj{Group: "apps", Version: "v1", Kind: "StatefulSet", Name: "trainer", UID: "uid-trainer",
			Labels: map[string]string{queueKey: "team-a", "app": "trainer"}, Annots: map[string]string{"note": "x"}}
		ref := Ref{"apps", "v1", "StatefulSet", "trainer", "uid-trainer"}
		w := &World{Cfg: Config{QueueKey: queueKey, NodePoolKey: nodePoolKey, PrioClasses: []string{"train"}},
			Objs: []Obj{sts},
			Pods: []Pod{{Name: "trainer-0", UID: "u-t0", Owners: []Ref{ref}}, {Name: "trainer-1", UID: "u-t1", Owners: []Ref{ref}}}}
		stamp := &Foreign{Mark: ptr(ptr(true)), Annots: []KeyUpd{
			{Key: "kai.scheduler/last-start-timestamp", Val: ptr("2025-06-01T10:00:00Z")},
			{Key: "kai.scheduler/stale-podgroup-timestamp", Val: ptr("2025-06-01T10:05:00Z")}}}
		restamp := &Foreign{Annots: []KeyUpd{
			{Key: "kai.scheduler/stale-podgroup-timestamp"},
			{Key: "kai.scheduler/last-start-timestamp", Val: ptr("2025-06-01T11:00:00Z")}}}
		admin := &Foreign{Labels: []KeyUpd{{Key: "team-owner", Val: ptr("ml-infra")}}, Annots: []KeyUpd{{Key: "admin.example.com/note", Val: ptr("do not delete")}}}
		evs := recs(0, 1, 0, 1)
		evs = append(evs, Event{Rec: -1, Target: 0, Foreign: &Foreign{Backoff: ptr(ptr(int32(1))), NodePool: ptr(ptr("pool-x"))}})
		evs = append(evs, recs(0, 1)...)
		evs = append(evs, Event{Rec: -1, Target: 0, Foreign: stamp})
		evs = append(evs, recs(0, 1, 0, 1, 0, 1)...)
		evs = append(evs, Event{Rec: -1, Target: 1, Foreign: restamp})
		evs = append(evs, recs(1, 0)...)
		evs = append(evs, Event{Rec: -1, Target: 0, Foreign: admin})
		evs = append(evs, recs(0, 1, 1, 0)...)
		// the owner loses a label and an annotation the PodGroup copied at creation
		evs2 := recs(0, 1)
		evs2 = append(evs2, Event{Rec: -1, Own: &OwnerChange{Idx: 0, DelLabels: []string{"app"}, DelAnns: []string{"note"}}})
		evs2 = append(evs2, recs(0, 1, 0, 1)...)
		em.extra = [][]Event{evs, evs2}
		em.emitWorld(cr, "corpus-foreign-keys", shapes[3], w, "")
		em.extra = nil
	}
	{
		// history independence (theorems C18_history_independent, C18_early_return_depends_on_history; the scenario
		// of seeded/C18-3): StatefulSet team-a/train with three pods, all assigned; then (a) the owner gets a
		// priority class, a preemptibility, a label and a topology constraint, (b) minMember / priorityClassName /
		// owner references / a computed annotation of the PodGroup are overwritten, (c) the PodGroup is deleted,
		// (d) all of it in one run; each time every pod is reconciled again twice, in two orders
		sts := Obj{Group: "apps", Version: "v1", Kind: "StatefulSet", Name: "train", UID: "uid-train",
			Labels: map[string]string{queueKey: "research", "app": "trainer"}, Annots: map[string]string{"note": "x"}}
		ref := Ref{"apps", "v1", "StatefulSet", "train", "uid-train"}
		w := &World{Cfg: Config{QueueKey: queueKey, NodePoolKey: nodePoolKey, PrioClasses: []string{"train", "inference", "build"}},
			Objs: []Obj{sts},
			Pods: []Pod{{Name: "train-0", UID: "u-t0", Owners: []Ref{ref}}, {Name: "train-1", UID: "u-t1", Owners: []Ref{ref}},
				{Name: "train-2", UID: "u-t2", Owners: []Ref{ref}}}}
		edit := Event{Rec: -1, Own: &OwnerChange{Idx: 0,
			SetLabels: map[string]string{"priorityClassName": "inference", "kai.scheduler/preemptibility": "non-preemptible", "tier": "gold", "app": "api"},
			SetAnns:   map[string]string{"kai.scheduler/topology": "topo-1", "kai.scheduler/topology-required-placement": "rack", "note": "edited by hand"}}}
		tamper := Event{Rec: -1, Target: 1, Tamper: &Tamper{MinMember: ptr(int32(7)), Prio: ptr("build"), DropOwners: true, OverAnnots: 1, DelLabels: 1}}
		del := Event{Rec: -1, Target: 2, Delete: true}
		again := append(recs(2, 1, 0), recs(0, 1, 2)...)
		mk := func(hs ...Event) []Event {
			evs := recs(0, 1, 2)
			evs = append(evs, hs...)
			return append(evs, again...)
		}
		all := recs(0, 1, 2)
		all = append(all, edit)
		all = append(all, recs(1)...)
		all = append(all, tamper)
		all = append(all, recs(0)...)
		all = append(all, del, Event{Rec: -1, Own: &OwnerChange{Idx: 0, SetLabels: map[string]string{"priorityClassName": "build"}, DelLabels: []string{"tier"}}})
		all = append(all, again...)
		em.extra = [][]Event{mk(edit), mk(tamper), mk(del), all}
		em.emitWorld(cr, "corpus-history", shapes[3], w, "")
		em.extra = nil
		// the same three for an owner-less pod: outside the clause (the code skips a pod without owner reference once it
		// carries a pod-group annotation, C18_ownerless_pod_frozen); counted by observation flag 100
		wb := &World{Cfg: Config{QueueKey: queueKey, NodePoolKey: nodePoolKey, PrioClasses: []string{"train"}},
			Pods: []Pod{{Name: "solo", UID: "u-solo"}}}
		em.extra = [][]Event{
			{{Rec: 0}, {Rec: -1, Target: 0, Delete: true}, {Rec: 0}, {Rec: 0}},
			{{Rec: 0}, {Rec: -1, Target: 0, Tamper: &Tamper{MinMember: ptr(int32(7))}}, {Rec: 0}, {Rec: 0}}}
		em.emitWorld(cr, "corpus-history", shapes[0], wb, "")
		em.extra = nil
	}
	// API faults on the owner GETs: the scenario of seeded/C18-4 (README orders, transient answers, grant / revoke) and
	// the same workload in two namespaces for known kinds and longer chains
	faultCorpus(em, cr.Fork(77))
	// one workload whose pods carry different queue / project labels, every reconcile order: the world of
	// seeded/C18-5/README.md (PyTorchJob train, queue team-a; master without label, workers team-b), its twin under a
	// kind the model covers, and the label combinations owner only / pods only / owner vs pods / pods among themselves
	orderCorpus(em, cr.Fork(78))
	defects := []string{"uid-mismatch", "missing-owner", "two-owners-above", "forbidden-top", "forbidden-direct", "user-annotation", "two-owner-refs"}
	for i := 0; em.planned < n; i++ {
		r := root.Fork(uint64(i))
		if i%8 == 5 { // fault stream
			fw, runs := genFaultWorld(r)
			em.emitFaultWorld("faults", fw, runs)
			continue
		}
		if i%8 == 2 { // order stream: one workload whose pods carry different queue / project labels
			ow := genOrderWorld(r, maxPods)
			em.emitOrderWorld(r, "order", ow)
			continue
		}
		sh := shapes[i%len(shapes)]
		if r.Chance(1, 3) {
			sh = u.Pick(r, shapes)
		}
		defect := ""
		if i%5 == 4 { // malformed stream
			defect = u.Pick(r, defects)
			if len(sh.chain) == 0 && defect != "user-annotation" {
				defect = "user-annotation"
			}
			if defect == "forbidden-top" && len(sh.chain) < 2 {
				defect = "forbidden-direct"
			}
			if defect == "two-owners-above" && len(sh.chain) < 2 {
				defect = "missing-owner"
			}
		}
		w := genWorld(r, sh, r.Range(1, maxPods), defect)
		origin := "structured"
		if defect != "" {
			origin = "malformed"
		}
		em.emitWorld(r, origin, sh, w, defect)
	}
	em.flush()
	out.Stats["rule"] = "worlds drawn from one splitmix64 stream: owner-chain shape (bare pod, Deployment>ReplicaSet, Job, StatefulSet, ReplicaSet, CRD, 6 skip-top-owner chains, pod-owned pod) x 1-3 sibling pods x labels/annotations/priority classes/defaults config map; every fifth world malformed (stale uid, missing owner, two owners, forbidden kinds, user-provided annotation); after a fixed corpus (every shape with 2 pods + the witnesses of the three repaired findings: owner without labels, Workflow-owned pod, stale sub-group label, forbidden direct owner, owners carrying a pod-group-name annotation + a StatefulSet whose PodGroup the scheduler stamps with kai.scheduler/last-start-timestamp / kai.scheduler/stale-podgroup-timestamp and an administrator labels, and whose owner then loses a label and an annotation + the history world: StatefulSet with three assigned pods whose owner then gets a priority class / preemptibility / labels / topology constraint, whose PodGroup is overwritten (minMember, priorityClassName, owner references, a computed annotation, a computed label removed), whose PodGroup is deleted, and all of it in one run + an owner-less pod whose PodGroup is deleted / overwritten); 1 world in 25 gives its pods a stale sub-group label. Events: reconcile pod i; foreign update of a PodGroup = queue / markUnschedulable / schedulingBackoff / node-pool label / queue label and/or labels and annotations of other actors set, changed, removed (the scheduler's two timestamp annotations, admin keys admin.example.com/note, admin.example.com/cost-center, team-owner; 1 in 10 overwrites a key the grouper computes); an owner object loses one or two label / annotation keys after the PodGroup was created; an owner object is EDITED so that computed values change (priorityClassName, kai.scheduler/preemptibility, queue, project, user, app, tier labels; topology, note, user, top-owner-metadata annotations; mostly the top owner, 1 in 3 any owner of the chain); grouper-owned fields of the stored PodGroup are overwritten (minMember, priorityClassName, preemptibility, topology constraint, owner references dropped or replaced, a sub-group added, labels / annotations it carries overwritten or removed); the PodGroup is deleted. Each world gives a CkGroup case (all reconcile orders, a run with repeats, runs with foreign updates, owner changes, edits, overwritten / deleted PodGroups between reconciles) and a CkIdem case (repeated reconciles; after a foreign update; after keys of other actors were put on / changed on / removed from the PodGroup, where also the FIRST reconcile must be silent; after an owner lost keys; history runs: every pod assigned, then an owner edit / an overwritten PodGroup / a deleted PodGroup (one run each) and a run mixing several of them with partial reconciles and foreign updates, then every pod again in any order, twice). Every run with another event than a reconcile comes with its FRESH run: the trailing reconciles executed by the real reconciler on a second, new store holding the final owner objects and the pods as created. non-trivial = at least one reconcile succeeded; distinct by (shape, pods, defect, check, config-map state, node-pool key configured). FAULT WORLDS (check=CkFault, one case per world; 12 deterministic worlds + every 8th world of the stream): 2-3 namespaces team-a/b/c, 2-4 workloads of 1-3 pods (at most 6 pods), the first two workloads with the SAME owner chain in two namespaces, chains drawn from foo-crd, foo>bar, replicaset>foo, skip:workflow>foo (custom kinds example.com/v1), statefulset, deployment-rs, job, widget>job, widget-crd, skip:workflow>statefulset, skip:dynamo>widget>replicaset, skip:trainjob>deployment-rs, pod-owned-by-pod; initial rule = every (namespace, kind) pair of the world refused with probability 1/4 (mostly at least one pair); runs, each on ONE pod-grouper instance and a new store: all reconcile orders (<= 3 pods) or 3 random orders under the standing rule, one run reconciling everybody twice, 1-2 runs of 4-10 random events (20% grant, 20% revoke, 20% reconcile with a one-shot fault on the n-th owner GET - 403 : 404 : 500 = 2 : 1 : 1, 1 in 8 on a kind never asked for -, 40% plain reconcile) followed by everybody twice; reference runs: for every (pod, answers) seen, one reconcile on a new instance and an empty store. Deterministic worlds: the world of seeded/C18-4/README.md (Foo team-b/train with train-0, train-1; Foo team-a/other with other-0) under the rule team-a/Foo refused with the five README orders and every order twice; the same world without rule and one-shot 403 / 404 / 500 answers; the same world with team-b/Foo refused at first, granted, revoked, granted; nine two-namespace worlds (statefulset, widget>job x2, foo>bar, skip:workflow>foo, skip:dynamo>widget>replicaset, deployment-rs, skip:trainjob>deployment-rs, foo>foo) with one kind refused in team-a, four orders and a run with grant / revoke / a one-shot 500. non-trivial fault case = at least one reconcile succeeded; distinct by (shapes, namespaces, pods). ORDER WORLDS (check=CkOrder, one case per world; 45 deterministic worlds + every 8th world of the stream): ONE workload - PyTorchJob (kubeflow.org/v1, pytorchReplicaSpecs Master x1 / Worker x(n-1), pods with the kubeflow replica-type / replica-index labels; 1 world in 3) or StatefulSet, ReplicaSet, Widget CRD, Widget>ReplicaSet, SeldonDeployment - with 2-3 pods (4 in the thorough tier); the queue label (team-a / team-b) and, in half of the worlds, the project label (proj1 / proj2) are placed by one of 8 patterns each: none, owner only, some pods only (the workers or the master), all pods agreeing, owner vs pods, pods disagreeing among themselves with a silent owner, the same with a label on the owner, owner and pods agreeing; all other labels / annotations / priority class as in the structured worlds and equal among the siblings; runs: one per reconcile order (all permutations up to 3 pods, 6 otherwise), every pod in that order and once more in the same order, each run on a new instance and store. Deterministic worlds: the world of seeded/C18-5/README.md (owner train queue team-a, master without label, two workers team-b) as PyTorchJob, StatefulSet and Widget; for PyTorchJob and StatefulSet owners: owner queue absent / team-a x pods [-,b,b] [a,b,b] [b,b,b] [-,-,b] [b,-,-] [-,-,-] [a,b], owner project absent / proj1 x pods [-,p2,p2] [p1,p2,-] [p2,p2] with a node-pool label, and owner project proj1 with pods [-, queue b, queue b + project p2]. non-trivial order case = at least one reconcile succeeded; distinct by (shape, pods, label pattern, number of distinct queues the rule gives the pods)"
	return out.Flush()
}
