// Package c11 drives the real BindRequestReconciler.Reconcile (real Binder,
// real binder plugins, real resource-reservation service) on
// controller-runtime's fake client. An interceptor numbers every API call,
// fails call k with an error of one of the kinds the API server answers with
// ("Fail:<kind>": InternalError, ServerTimeout, NotFound, Conflict,
// AlreadyExists, Forbidden) or call k and everything after it ("Crash"), lets
// other actors change the store right before call k (the pod is bound to another
// node, deleted, re-created with another UID; the BindRequest or a reservation
// pod is deleted), plays the API server for the pods/binding sub-resource (409
// Conflict for a pod that has a node name, is being deleted or fails the
// Binding's UID precondition) and plays the GPU device plugin (annotates
// reservation pods with a device index, or stays silent so that the reservation
// service times out). Each run is emitted as a Coq case for Run/C11.v: ordered
// API-call log, final store projection, returned result.
package c11

import (
	"context"
	"encoding/json"
	"flag"
	"fmt"
	"io"
	"sort"
	"strings"
	"sync"
	"time"

	"github.com/go-logr/logr"
	v1 "k8s.io/api/core/v1"
	apierrors "k8s.io/apimachinery/pkg/api/errors"
	metav1 "k8s.io/apimachinery/pkg/apis/meta/v1"
	"k8s.io/apimachinery/pkg/runtime"
	"k8s.io/apimachinery/pkg/runtime/schema"
	"k8s.io/apimachinery/pkg/types"
	"k8s.io/apimachinery/pkg/watch"
	"k8s.io/client-go/informers"
	kubefake "k8s.io/client-go/kubernetes/fake"
	"k8s.io/client-go/tools/record"
	"k8s.io/klog/v2"
	ctrl "sigs.k8s.io/controller-runtime"
	"sigs.k8s.io/controller-runtime/pkg/client"
	crfake "sigs.k8s.io/controller-runtime/pkg/client/fake"
	"sigs.k8s.io/controller-runtime/pkg/client/interceptor"
	crlog "sigs.k8s.io/controller-runtime/pkg/log"

	kaischeme "github.com/NVIDIA/KAI-scheduler/pkg/apis/client/clientset/versioned/scheme"
	schedulingv1alpha2 "github.com/NVIDIA/KAI-scheduler/pkg/apis/scheduling/v1alpha2"
	"github.com/NVIDIA/KAI-scheduler/pkg/binder/binding"
	"github.com/NVIDIA/KAI-scheduler/pkg/binder/binding/resourcereservation"
	"github.com/NVIDIA/KAI-scheduler/pkg/binder/controllers"
	"github.com/NVIDIA/KAI-scheduler/pkg/binder/plugins"
	"github.com/NVIDIA/KAI-scheduler/pkg/binder/plugins/gpusharing"
	k8s_plugins "github.com/NVIDIA/KAI-scheduler/pkg/binder/plugins/k8s-plugins"
)

const (
	podNS     = "ns"
	podName   = "p"
	rsvNS     = "kai-resource-reservation"
	scaleNS   = "kai-scale-adjust"
	nodeName  = "n1"
	otherNode = "n2"
	brName    = "br"
	cmPrefix  = "pfx"

	lblGroup     = "runai-gpu-group"
	lblMultiPfx  = "runai-gpu-group/"
	annIdx       = "run.ai/reserve_for_gpu_index"
	annRecv      = "received-resource-type"
	annCM        = "runai/shared-gpu-configmap"
	annNumDev    = "gpu-fraction-num-devices"
	annFraction  = "gpu-fraction"
	envVisible   = "NVIDIA_VISIBLE_DEVICES"
	envVisibleBC = "RUNAI-VISIBLE-DEVICES"
	envPortion   = "GPU_PORTION"
	envNumGpusBC = "RUNAI_NUM_OF_GPUS"
	condBound    = "PodBound"
)

// ---- abstract scenario -------------------------------------------------------

// Scenario is the generated input: pod shape, initial store, device-plugin
// oracle and fault vector.
type Scenario struct {
	Shape     string `json:"shape"`  // whole | fraction | multifraction | dra
	Groups    []int  `json:"groups"` // selected GPU groups (ids)
	MultiAnn  bool   `json:"multiAnnotation"`
	VisInSpec bool   `json:"visibleDevicesEnvInSpec"`
	CMAnn     bool   `json:"configMapAnnotation"`
	K8sFail   bool   `json:"k8sPluginFails"` // DRA oracle: claim allocation missing -> PreBind of k8s-plugins fails
	Fraction  bool   `json:"receivedFraction"`

	BRPhase  string `json:"brPhase"` // "", Pending, Failed, Succeeded
	Attempts int32  `json:"failedAttempts"`
	Backoff  *int32 `json:"backoffLimit"`
	PodNode  int    `json:"podBoundTo"` // 0 unbound, 1 selected node, 2 another node

	// initial side objects
	Stale       []int `json:"staleLabels"`     // group labels already on the pod
	PreRsv      []int `json:"preReservation"`  // groups with an annotated reservation pod and a running sharer
	BareRsv     []int `json:"bareReservation"` // groups with a reservation pod without device index and no sharer
	PreCap      int   `json:"preCapCM"`        // 0 none, 1 owned by the pod, 2 foreign owner with data
	PreEvar     int   `json:"preEvarCM"`
	Orphans     []int `json:"orphanSharers"` // groups with a running sharer on the node but no reservation pod
	NodeMissing bool  `json:"nodeMissing"`

	DP     []int            `json:"devicePlugin"` // per watch (in order): device index, or -1 = silent (timeout)
	Faults map[int]string   `json:"faults"`       // call number (0-based) -> Fail:<kind> | Crash
	Env    map[int][]string `json:"env"`          // call number -> what other actors do right before that call
}

// error kinds an injected failure can have (the ones the API server returns)
var errKinds = []string{"Internal", "Timeout", "NotFound", "Conflict", "Exists", "Forbidden"}

// what another actor can do to the store between two calls of the reconcile
const (
	envBindElsewhere = "bind-elsewhere"
	envTerminate     = "terminate" // deleted, held by a finalizer: deletionTimestamp set
	envRemove        = "remove"    // deleted and gone
	envRecreate      = "recreate"  // removed and re-created under the same name with another UID
	envDeleteBR      = "delete-request"
	envDeleteRsvPfx  = "delete-reservation:" // + group id
)

func gname(g int) string { return fmt.Sprintf("g%d", g) }

// ---- world -------------------------------------------------------------------

// Call is one intercepted API call.
type Call struct {
	Term    string // Coq term of type call
	Human   string // verb kind key
	Outcome string // Ok | Fail | Crash | Err (not injected: the API itself refused)
}

type world struct {
	sc                 Scenario
	base               client.WithWatch
	cl                 client.WithWatch
	rec                *controllers.BindRequestReconciler
	rrs                resourcereservation.Interface
	envs               map[int][]string
	envDone            int            // env steps of call numbers < envDone have been applied
	uidN               int            // incarnation of the consumer pod: its UID is uid-p<uidN>
	rsvGroup           map[string]int // reservation pod name -> group (the pod may be gone when it is named)
	n                  int
	crashed            bool
	faults             map[int]string
	log                []Call
	watches            int
	lastRsv            string
	binds              int      // successful binding calls
	bindTo             []string // target of every successful binding call
	nodeHist           []string // server-side nodeName of the pod after every call
	marked             bool
	markBegin, markEnd int
}

var once sync.Once
var theScheme *runtime.Scheme

func initOnce() {
	once.Do(func() {
		theScheme = runtime.NewScheme()
		_ = v1.AddToScheme(theScheme)
		_ = kaischeme.AddToScheme(theScheme)
		crlog.SetLogger(logr.Discard())
		fs := flag.NewFlagSet("klog", flag.ContinueOnError)
		klog.InitFlags(fs)
		_ = fs.Set("logtostderr", "false")
		_ = fs.Set("stderrthreshold", "FATAL")
		klog.SetOutput(io.Discard)
	})
}

func nodeNameIndexer(o client.Object) []string {
	p := o.(*v1.Pod)
	if p.Spec.NodeName == "" {
		return nil
	}
	return []string{p.Spec.NodeName}
}

func (sc Scenario) consumerPod() *v1.Pod {
	p := &v1.Pod{
		ObjectMeta: metav1.ObjectMeta{Name: podName, Namespace: podNS, UID: "uid-p1",
			Labels: map[string]string{"app": "x"}, Annotations: map[string]string{}},
		Spec:   v1.PodSpec{Containers: []v1.Container{{Name: "c0", Image: "img"}}},
		Status: v1.PodStatus{Phase: v1.PodPending},
	}
	if sc.Shape != "whole" && sc.Shape != "dra" {
		p.Annotations[annFraction] = "0.5"
	}
	if sc.MultiAnn {
		p.Annotations[annNumDev] = fmt.Sprint(len(sc.Groups))
		if len(sc.Groups) < 2 {
			p.Annotations[annNumDev] = "2"
		}
	}
	if sc.CMAnn {
		p.Annotations[annCM] = cmPrefix
	}
	if sc.VisInSpec {
		p.Spec.Containers[0].Env = []v1.EnvVar{{Name: envVisible, ValueFrom: &v1.EnvVarSource{
			ConfigMapKeyRef: &v1.ConfigMapKeySelector{Key: envVisible,
				LocalObjectReference: v1.LocalObjectReference{Name: cmPrefix + "-0"}}}}}
	}
	if sc.K8sFail {
		tmpl := "tmpl"
		p.Spec.ResourceClaims = []v1.PodResourceClaim{{Name: "claim0", ResourceClaimTemplateName: &tmpl}}
		p.Status.ResourceClaimStatuses = []v1.PodResourceClaimStatus{{Name: "claim0", ResourceClaimName: &tmpl}}
	}
	for _, g := range sc.Stale {
		if sc.MultiAnn {
			p.Labels[lblMultiPfx+gname(g)] = gname(g)
		} else {
			p.Labels[lblGroup] = gname(g)
		}
	}
	switch sc.PodNode {
	case 1:
		p.Spec.NodeName = nodeName
	case 2:
		p.Spec.NodeName = otherNode
	}
	return p
}

func rsvPod(g int, idx string) *v1.Pod {
	p := &v1.Pod{
		ObjectMeta: metav1.ObjectMeta{Name: "gpu-reservation-" + nodeName + "-old" + gname(g), Namespace: rsvNS,
			Labels: map[string]string{lblGroup: gname(g), "app": "kai-resource-reservation"}, Annotations: map[string]string{}},
		Spec:   v1.PodSpec{NodeName: nodeName, Containers: []v1.Container{{Name: "resource-reservation", Image: "img"}}},
		Status: v1.PodStatus{Phase: v1.PodRunning},
	}
	if idx != "" {
		p.Annotations[annIdx] = idx
	}
	return p
}

func sharerPod(g int) *v1.Pod {
	return &v1.Pod{
		ObjectMeta: metav1.ObjectMeta{Name: "sharer-" + gname(g), Namespace: podNS, UID: types.UID("uid-s" + gname(g)),
			Labels: map[string]string{lblGroup: gname(g)}},
		Spec:   v1.PodSpec{NodeName: nodeName, Containers: []v1.Container{{Name: "c0", Image: "img"}}},
		Status: v1.PodStatus{Phase: v1.PodRunning},
	}
}

func preCM(name string, kind int) *v1.ConfigMap {
	cm := &v1.ConfigMap{ObjectMeta: metav1.ObjectMeta{Name: name, Namespace: podNS}}
	if kind == 1 {
		cm.OwnerReferences = []metav1.OwnerReference{{APIVersion: "v1", Kind: "Pod", Name: podName, UID: "uid-p1"}}
		cm.Data = map[string]string{}
	} else if kind == 3 {
		cm.OwnerReferences = []metav1.OwnerReference{{APIVersion: "v1", Kind: "Pod", Name: podName, UID: "uid-p1"}}
		cm.Data = map[string]string{envVisible: "7", envVisibleBC: "7", envPortion: "0.5"}
	} else {
		cm.OwnerReferences = []metav1.OwnerReference{{APIVersion: "v1", Kind: "Pod", Name: "old", UID: "uid-old"}}
		cm.Data = map[string]string{envVisible: "7", envVisibleBC: "7", envPortion: "0.1"}
	}
	return cm
}

func (sc Scenario) bindRequest() *schedulingv1alpha2.BindRequest {
	br := &schedulingv1alpha2.BindRequest{
		ObjectMeta: metav1.ObjectMeta{Name: brName, Namespace: podNS},
		Spec: schedulingv1alpha2.BindRequestSpec{PodName: podName, SelectedNode: nodeName,
			ReceivedResourceType: "Regular", BackoffLimit: sc.Backoff},
		Status: schedulingv1alpha2.BindRequestStatus{Phase: sc.BRPhase, FailedAttempts: sc.Attempts},
	}
	if sc.Fraction {
		br.Spec.ReceivedResourceType = "Fraction"
		br.Spec.ReceivedGPU = &schedulingv1alpha2.ReceivedGPU{Count: len(sc.Groups), Portion: "0.5"}
		for _, g := range sc.Groups {
			br.Spec.SelectedGPUGroups = append(br.Spec.SelectedGPUGroups, gname(g))
		}
	} else {
		br.Spec.ReceivedGPU = &schedulingv1alpha2.ReceivedGPU{Count: 1, Portion: "1"}
	}
	if sc.K8sFail {
		br.Spec.ResourceClaimAllocations = []schedulingv1alpha2.ResourceClaimAllocation{{Name: "claim0", Allocation: nil}}
	}
	return br
}

func newWorld(sc Scenario) (*world, error) {
	initOnce()
	w := &world{sc: sc, faults: map[int]string{}, envs: map[int][]string{}, uidN: 1, rsvGroup: map[string]int{}}
	objs := []client.Object{sc.consumerPod()}
	if !sc.NodeMissing {
		objs = append(objs, &v1.Node{ObjectMeta: metav1.ObjectMeta{Name: nodeName}})
	}
	for _, g := range sc.PreRsv {
		objs = append(objs, rsvPod(g, fmt.Sprint(10+g)), sharerPod(g))
	}
	for _, g := range sc.BareRsv {
		objs = append(objs, rsvPod(g, ""))
	}
	for _, g := range sc.Orphans {
		objs = append(objs, sharerPod(g))
	}
	if sc.PreCap != 0 {
		objs = append(objs, preCM(cmPrefix+"-0", sc.PreCap))
	}
	if sc.PreEvar != 0 {
		objs = append(objs, preCM(cmPrefix+"-0-evar", sc.PreEvar))
	}
	w.base = crfake.NewClientBuilder().WithScheme(theScheme).
		WithStatusSubresource(&schedulingv1alpha2.BindRequest{}).
		WithIndex(&v1.Pod{}, "spec.nodeName", nodeNameIndexer).
		WithObjects(objs...).Build()
	ctx := context.Background()
	br := sc.bindRequest()
	st := br.Status
	if err := w.base.Create(ctx, br); err != nil {
		return nil, err
	}
	br.Status = st
	if err := w.base.Status().Update(ctx, br); err != nil {
		return nil, err
	}
	w.cl = interceptor.NewClient(w.base, w.funcs())
	if err := w.wire(); err != nil {
		return nil, err
	}
	return w, nil
}

// wire builds the reconciler exactly as cmd/binder does: k8s-plugins first,
// then gpusharing; the real reservation service; the real Binder.
func (w *world) wire() error {
	kube := kubefake.NewSimpleClientset()
	inf := informers.NewSharedInformerFactory(kube, 0)
	k8s, err := k8s_plugins.New(kube, inf, 1)
	if err != nil {
		return err
	}
	bp := plugins.New()
	bp.RegisterPlugin(k8s)
	bp.RegisterPlugin(gpusharing.New(w.cl, false))
	// the allocation timeout is never waited for: an answered watch has its event queued before it is returned and a
	// silent device plugin is a closed watch (the service reads both as it reads a timeout); the generous value only
	// keeps a descheduled goroutine on a loaded machine from seeing the timer and the queued event ready together
	rrs := resourcereservation.NewService(false, w.cl, "img", 20*time.Second,
		rsvNS, "sa", "kai-resource-reservation", scaleNS, "", nil)
	w.rrs = rrs
	b := &markBinder{inner: binding.NewBinder(w.cl, rrs, bp), w: w}
	w.rec = controllers.NewBindRequestReconciler(w.cl, theScheme, &record.FakeRecorder{},
		&controllers.ReconcilerParams{MaxConcurrentReconciles: 1, RateLimiterBaseDelaySeconds: 1, RateLimiterMaxDelaySeconds: 1},
		b, rrs)
	return nil
}

// reconcile runs one Reconcile with the given fault vector and the given
// interleaved changes by other actors; the call counter restarts at 0.
func (w *world) reconcile(faults map[int]string, envs map[int][]string) (res ctrl.Result, err error, panicked bool) {
	w.n, w.crashed, w.faults, w.envs, w.envDone, w.log, w.watches = 0, false, faults, envs, 0, nil, 0
	defer func() {
		if r := recover(); r != nil {
			panicked = true
			err = fmt.Errorf("panic: %v", r)
		}
	}()
	res, err = w.rec.Reconcile(context.Background(), ctrl.Request{NamespacedName: types.NamespacedName{Namespace: podNS, Name: brName}})
	return
}

// injected builds an error of the given kind as the API server would for this verb / object.
func injected(kind, resource, name string) error {
	gr := schema.GroupResource{Resource: resource}
	cause := fmt.Errorf("injected fault")
	switch kind {
	case "Timeout":
		return apierrors.NewServerTimeout(gr, "call", 1)
	case "NotFound":
		return apierrors.NewNotFound(gr, name)
	case "Conflict":
		return apierrors.NewConflict(gr, name, cause)
	case "Exists":
		return apierrors.NewAlreadyExists(gr, name)
	case "Forbidden":
		return apierrors.NewForbidden(gr, name, cause)
	}
	return apierrors.NewInternalError(cause)
}

func faultKind(f string) string {
	if strings.HasPrefix(f, "Fail:") {
		return strings.TrimPrefix(f, "Fail:")
	}
	return "Internal"
}

// pre lets the other actors act: the changes scheduled right before the call
// that is about to be numbered. Every interceptor function calls it first, so
// that the call is classified and served on the changed store.
func (w *world) pre() {
	for ; w.envDone <= w.n; w.envDone++ {
		for _, e := range w.envs[w.envDone] {
			w.applyEnv(e)
		}
	}
}

// gate numbers the call and decides its injected outcome (nil = it reaches the API).
func (w *world) gate(term, human, resource, name string) (idx int, fail error) {
	idx = w.n
	w.n++
	out := "Ok"
	if w.crashed {
		out, fail = "Fail", injected("Internal", resource, name) // after a crash nothing reaches the API any more
	} else {
		f := w.faults[idx]
		switch {
		case strings.HasPrefix(f, "Fail"):
			out, fail = "Fail", injected(faultKind(f), resource, name)
		case f == "Crash":
			out, fail = "Crash", injected("Internal", resource, name)
			w.crashed = true
		}
	}
	w.log = append(w.log, Call{Term: term, Human: human, Outcome: out})
	return
}

// ---- the other actors --------------------------------------------------------

func (w *world) consumer() (*v1.Pod, bool) {
	p := &v1.Pod{}
	if err := w.base.Get(context.Background(), types.NamespacedName{Namespace: podNS, Name: podName}, p); err != nil {
		return nil, false
	}
	return p, true
}

// removeConsumer deletes the consumer pod for good (finalizers stripped).
func (w *world) removeConsumer() {
	ctx := context.Background()
	p, ok := w.consumer()
	if !ok {
		return
	}
	if len(p.Finalizers) > 0 {
		terminating := p.DeletionTimestamp != nil
		p.Finalizers = nil
		_ = w.base.Update(ctx, p)
		if terminating {
			return // the fake client drops a terminating object with its last finalizer
		}
	}
	_ = w.base.Delete(ctx, p)
}

func (w *world) applyEnv(e string) {
	ctx := context.Background()
	switch {
	case e == envBindElsewhere:
		// a direct binding by somebody else, through the same handler (no UID precondition)
		_ = w.serveBinding(&v1.Pod{ObjectMeta: metav1.ObjectMeta{Namespace: podNS, Name: podName}},
			&v1.Binding{ObjectMeta: metav1.ObjectMeta{Namespace: podNS, Name: podName}, Target: v1.ObjectReference{Kind: "Node", Name: otherNode}})
	case e == envTerminate:
		if p, ok := w.consumer(); ok && p.DeletionTimestamp == nil {
			if len(p.Finalizers) == 0 {
				p.Finalizers = []string{"example.com/hold"}
				_ = w.base.Update(ctx, p)
			}
			_ = w.base.Delete(ctx, p)
		}
	case e == envRemove:
		w.removeConsumer()
	case e == envRecreate:
		w.removeConsumer()
		w.uidN++
		sc := w.sc
		sc.Stale, sc.PodNode = nil, 0
		p := sc.consumerPod()
		p.UID = types.UID(fmt.Sprintf("uid-p%d", w.uidN))
		_ = w.base.Create(ctx, p)
	case e == envDeleteBR:
		br := &schedulingv1alpha2.BindRequest{ObjectMeta: metav1.ObjectMeta{Namespace: podNS, Name: brName}}
		_ = w.base.Delete(ctx, br)
	case strings.HasPrefix(e, envDeleteRsvPfx):
		g := strings.TrimPrefix(e, envDeleteRsvPfx)
		pods := &v1.PodList{}
		_ = w.base.List(ctx, pods, client.InNamespace(rsvNS), client.MatchingLabels{lblGroup: "g" + g})
		for i := range pods.Items {
			_ = w.base.Delete(ctx, &pods.Items[i], client.GracePeriodSeconds(0))
		}
	}
}

// serveBinding is the API server's pods/binding handler (BindingREST.Create ->
// assignPod -> setPodNodeAndMetadata in k8s.io/kubernetes/pkg/registry/core/pod/storage):
// a missing pod is NotFound; a failed UID precondition, a pod that is being
// deleted and a pod that already has a node name - whichever node - are 409
// Conflict; otherwise spec.nodeName is set.
func (w *world) serveBinding(p *v1.Pod, b *v1.Binding) error {
	ctx := context.Background()
	cur := &v1.Pod{}
	if err := w.base.Get(ctx, client.ObjectKeyFromObject(p), cur); err != nil {
		return err
	}
	conflict := func(msg string) error {
		return apierrors.NewConflict(schema.GroupResource{Resource: "pods/binding"}, p.Name, fmt.Errorf("%s", msg))
	}
	if b.UID != "" && b.UID != cur.UID {
		return conflict(fmt.Sprintf("Precondition failed: UID in precondition: %v, UID in object meta: %v", b.UID, cur.UID))
	}
	if cur.DeletionTimestamp != nil {
		return conflict(fmt.Sprintf("pod %s is being deleted, cannot be assigned to a host", cur.Name))
	}
	if cur.Spec.NodeName != "" {
		return conflict(fmt.Sprintf("pod %v is already assigned to node %q", cur.Name, cur.Spec.NodeName))
	}
	cur.Spec.NodeName = b.Target.Name
	return w.base.Update(ctx, cur)
}

// done records a refusal by the API itself (not injected) and samples the
// server-side nodeName of the pod after the call.
func (w *world) done(idx int, err error) error {
	if err != nil && w.log[idx].Outcome == "Ok" {
		w.log[idx].Outcome = "Err"
	}
	p := &v1.Pod{}
	if e := w.base.Get(context.Background(), types.NamespacedName{Namespace: podNS, Name: podName}, p); e == nil {
		w.nodeHist = append(w.nodeHist, p.Spec.NodeName)
	} else {
		w.nodeHist = append(w.nodeHist, "<gone>")
	}
	return err
}

func kindOf(o runtime.Object) string {
	switch o.(type) {
	case *v1.Pod, *v1.PodList:
		return "Pod"
	case *v1.Node:
		return "Node"
	case *v1.ConfigMap:
		return "ConfigMap"
	case *schedulingv1alpha2.BindRequest:
		return "BindRequest"
	}
	return fmt.Sprintf("%T", o)
}

func gid(name string) (int, bool) {
	var g int
	if _, err := fmt.Sscanf(name, "g%d", &g); err == nil && gname(g) == name {
		return g, true
	}
	return 0, false
}

func natList(xs []int) string {
	ss := make([]string, len(xs))
	for i, x := range xs {
		ss[i] = fmt.Sprintf("%d", x)
	}
	return "[" + strings.Join(ss, "; ") + "]%nat"
}

// podRef names a pod in the log: the consumer, a sharer, or a reservation pod
// (identified by its group: reservation pod names are random).
func (w *world) podRef(ns, name string, obj *v1.Pod) string {
	switch {
	case ns == podNS && name == podName:
		return "PSelf"
	case ns == rsvNS:
		g := -1
		if obj != nil {
			if gg, ok := gid(obj.Labels[lblGroup]); ok {
				g = gg
			}
		}
		if gg, ok := w.rsvGroup[name]; ok && g < 0 {
			g = gg
		}
		if g < 0 {
			cur := &v1.Pod{}
			if w.base.Get(context.Background(), types.NamespacedName{Namespace: ns, Name: name}, cur) == nil {
				if gg, ok := gid(cur.Labels[lblGroup]); ok {
					g = gg
				}
			}
		}
		if g >= 0 {
			return fmt.Sprintf("(PRsv %d)", g)
		}
	case ns == podNS && strings.HasPrefix(name, "sharer-"):
		if g, ok := gid(strings.TrimPrefix(name, "sharer-")); ok {
			return fmt.Sprintf("(PSharer %d)", g)
		}
	}
	return "(POther)"
}

func cmRef(ns, name string) string {
	if ns == podNS && name == cmPrefix+"-0" {
		return "CmCap"
	}
	if ns == podNS && name == cmPrefix+"-0-evar" {
		return "CmEvar"
	}
	return "CmOther"
}

// listKey classifies a pod list by its selectors.
func listTerm(opts []client.ListOption) (string, string) {
	lo := &client.ListOptions{}
	lo.ApplyOptions(opts)
	lsel, fsel := "", ""
	if lo.LabelSelector != nil {
		lsel = lo.LabelSelector.String()
	}
	if lo.FieldSelector != nil {
		fsel = lo.FieldSelector.String()
	}
	human := fmt.Sprintf("ns=%q labels=%q fields=%q", lo.Namespace, lsel, fsel)
	switch {
	case lo.Namespace == "" && lsel == lblGroup && fsel == "spec.nodeName="+nodeName:
		return "LNode", human
	case lo.Namespace == scaleNS && lsel == "" && fsel == "":
		return "LScaling", human
	case lo.Namespace == rsvNS && strings.HasPrefix(lsel, lblGroup+"=") && fsel == "":
		if g, ok := gid(strings.TrimPrefix(lsel, lblGroup+"=")); ok {
			return fmt.Sprintf("(LRsv %d)", g), human
		}
	case lo.Namespace == "" && strings.HasPrefix(lsel, lblGroup+"=") && fsel == "":
		if g, ok := gid(strings.TrimPrefix(lsel, lblGroup+"=")); ok {
			return fmt.Sprintf("(LGroup %d)", g), human
		}
	case lo.Namespace == "" && strings.HasPrefix(lsel, lblMultiPfx) && fsel == "":
		kv := strings.SplitN(strings.TrimPrefix(lsel, lblMultiPfx), "=", 2)
		if len(kv) == 2 && kv[0] == kv[1] {
			if g, ok := gid(kv[0]); ok {
				return fmt.Sprintf("(LMulti %d)", g), human
			}
		}
	}
	return "LOther", human
}

// patchTerm classifies a patch of the consumer pod / a config map by what it touches.
func (w *world) patchTerm(obj client.Object, patch client.Patch) (string, string) {
	data, _ := patch.Data(obj)
	human := fmt.Sprintf("%s %s", patch.Type(), string(data))
	switch o := obj.(type) {
	case *v1.Pod:
		ref := w.podRef(o.Namespace, o.Name, o)
		if ref != "PSelf" {
			return "(CPatchOther)", human
		}
		switch patch.Type() {
		case types.MergePatchType:
			var m struct {
				Metadata struct {
					Labels      map[string]*string `json:"labels"`
					Annotations map[string]*string `json:"annotations"`
				} `json:"metadata"`
				Spec   map[string]any `json:"spec"`
				Status map[string]any `json:"status"`
			}
			if err := json.Unmarshal(data, &m); err != nil || len(m.Spec) > 0 || len(m.Status) > 0 {
				return "(CPatchOther)", human
			}
			if len(m.Metadata.Annotations) == 1 && len(m.Metadata.Labels) == 0 {
				if v, ok := m.Metadata.Annotations[annRecv]; ok && v != nil {
					return fmt.Sprintf("(CPatchRecv %s)", recvTerm(*v)), human
				}
				return "(CPatchOther)", human
			}
			if len(m.Metadata.Annotations) > 0 {
				return "(CPatchOther)", human
			}
			plain, multi := "None", []int{}
			rmPlain, rmMulti, nulls := false, []int{}, 0
			for k, v := range m.Metadata.Labels {
				if v == nil {
					// a nulled label: removal (RemovePodGpuGroupsConnection)
					nulls++
					switch {
					case k == lblGroup:
						rmPlain = true
					case strings.HasPrefix(k, lblMultiPfx):
						g, ok := gid(strings.TrimPrefix(k, lblMultiPfx))
						if !ok {
							return "(CPatchOther)", human
						}
						rmMulti = append(rmMulti, g)
					default:
						return "(CPatchOther)", human
					}
					continue
				}
				g, ok := gid(*v)
				if !ok {
					return "(CPatchOther)", human
				}
				switch {
				case k == lblGroup:
					plain = fmt.Sprintf("(Some %d)", g)
				case k == lblMultiPfx+*v:
					multi = append(multi, g)
				default:
					return "(CPatchOther)", human
				}
			}
			if nulls > 0 {
				if nulls != len(m.Metadata.Labels) {
					return "(CPatchOther)", human
				}
				sort.Ints(rmMulti)
				return fmt.Sprintf("(CRemoveLabels %v %s)", rmPlain, natList(rmMulti)), human
			}
			sort.Ints(multi)
			return fmt.Sprintf("(CPatchLabels %s %s)", plain, natList(multi)), human
		case types.JSONPatchType:
			var ops []map[string]string
			if err := json.Unmarshal(data, &ops); err != nil {
				return "(CPatchOther)", human
			}
			plain, multi := false, []int{}
			for _, op := range ops {
				if op["op"] != "remove" {
					return "(CPatchOther)", human
				}
				path := strings.ReplaceAll(strings.ReplaceAll(op["path"], "~1", "/"), "~0", "~")
				key := strings.TrimPrefix(path, "/metadata/labels/")
				switch {
				case key == lblGroup:
					plain = true
				case strings.HasPrefix(key, lblMultiPfx):
					g, ok := gid(strings.TrimPrefix(key, lblMultiPfx))
					if !ok {
						return "(CPatchOther)", human
					}
					multi = append(multi, g)
				default:
					return "(CPatchOther)", human
				}
			}
			sort.Ints(multi)
			return fmt.Sprintf("(CRemoveLabelsJson %v %s)", plain, natList(multi)), human
		}
	case *v1.ConfigMap:
		var m struct {
			Metadata map[string]any     `json:"metadata"`
			Data     map[string]*string `json:"data"`
		}
		if err := json.Unmarshal(data, &m); err != nil {
			return "(CPatchOther)", human
		}
		var raw map[string]json.RawMessage
		_ = json.Unmarshal(data, &raw)
		clear := false
		if d, ok := raw["data"]; ok && string(d) == "null" {
			clear = true
		}
		owner := false
		for k := range m.Metadata {
			if k == "ownerReferences" {
				owner = true
			}
		}
		keys := []string{}
		for k, v := range m.Data {
			if v == nil {
				keys = append(keys, "(KDel "+envKey(k)+")")
			} else {
				keys = append(keys, "(KSet "+envKey(k)+")")
			}
		}
		sort.Strings(keys)
		return fmt.Sprintf("(CPatchCM %s %v %v [%s])", cmRef(o.Namespace, o.Name), owner, clear, strings.Join(keys, "; ")), human
	}
	return "(CPatchOther)", human
}

func envKey(k string) string {
	switch k {
	case envVisible:
		return "EVisible"
	case envVisibleBC:
		return "EVisibleBC"
	case envPortion:
		return "EPortion"
	case envNumGpusBC:
		return "ENumGpusBC"
	}
	return "EOther"
}

func recvTerm(s string) string {
	switch s {
	case "Fraction":
		return "RFraction"
	case "Regular":
		return "RRegular"
	}
	return "ROther"
}

type silentWatch struct{ ch chan watch.Event }

func (s *silentWatch) Stop()                          {}
func (s *silentWatch) ResultChan() <-chan watch.Event { return s.ch }

// ownerNum is the UID number of the consumer incarnation that is the only owner, 0 otherwise.
func ownerNum(refs []metav1.OwnerReference) int {
	if len(refs) != 1 || refs[0].Name != podName || refs[0].Kind != "Pod" {
		return 0
	}
	var n int
	if _, err := fmt.Sscanf(string(refs[0].UID), "uid-p%d", &n); err != nil || fmt.Sprintf("uid-p%d", n) != string(refs[0].UID) {
		return 0
	}
	return n
}

func (w *world) funcs() interceptor.Funcs {
	ctxb := context.Background()
	return interceptor.Funcs{
		Get: func(ctx context.Context, c client.WithWatch, key client.ObjectKey, obj client.Object, opts ...client.GetOption) error {
			w.pre()
			var term, res string
			switch obj.(type) {
			case *schedulingv1alpha2.BindRequest:
				term, res = "CGetBR", "bindrequests"
			case *v1.Pod:
				term, res = "(CGetPod "+w.podRef(key.Namespace, key.Name, nil)+")", "pods"
			case *v1.Node:
				term, res = "CGetNode", "nodes"
			case *v1.ConfigMap:
				term, res = "(CGetCM "+cmRef(key.Namespace, key.Name)+")", "configmaps"
			default:
				term, res = "COther", "objects"
			}
			i, fail := w.gate(term, fmt.Sprintf("get %s %s", kindOf(obj), key), res, key.Name)
			if fail != nil {
				return w.done(i, fail)
			}
			return w.done(i, c.Get(ctx, key, obj, opts...))
		},
		List: func(ctx context.Context, c client.WithWatch, list client.ObjectList, opts ...client.ListOption) error {
			w.pre()
			term, human := "LOther", ""
			if _, ok := list.(*v1.PodList); ok {
				term, human = listTerm(opts)
			}
			i, fail := w.gate("(CList "+term+")", "list "+kindOf(list)+" "+human, "pods", "")
			if fail != nil {
				return w.done(i, fail)
			}
			return w.done(i, c.List(ctx, list, opts...))
		},
		Create: func(ctx context.Context, c client.WithWatch, obj client.Object, opts ...client.CreateOption) error {
			w.pre()
			term, res := "COther", "objects"
			switch o := obj.(type) {
			case *v1.Pod:
				res = "pods"
				if o.Namespace == rsvNS && o.Spec.NodeName == nodeName {
					if g, ok := gid(o.Labels[lblGroup]); ok {
						term = fmt.Sprintf("(CCreateRsv %d)", g)
					}
				}
			case *v1.ConfigMap:
				res = "configmaps"
				owner := ownerNum(o.OwnerReferences)
				if len(o.Data) != 0 {
					owner = 0
				}
				term = fmt.Sprintf("(CCreateCM %s %d)", cmRef(o.Namespace, o.Name), owner)
			}
			i, fail := w.gate(term, fmt.Sprintf("create %s %s/%s", kindOf(obj), obj.GetNamespace(), obj.GetName()), res, obj.GetName())
			if fail != nil {
				return w.done(i, fail)
			}
			err := c.Create(ctx, obj, opts...)
			if p, ok := obj.(*v1.Pod); ok && err == nil && p.Namespace == rsvNS {
				w.lastRsv = p.Name
				if g, ok := gid(p.Labels[lblGroup]); ok {
					w.rsvGroup[p.Name] = g
				}
			}
			return w.done(i, err)
		},
		Delete: func(ctx context.Context, c client.WithWatch, obj client.Object, opts ...client.DeleteOption) error {
			w.pre()
			term, res := "COther", "objects"
			switch o := obj.(type) {
			case *v1.Pod:
				term, res = "(CDeletePod "+w.podRef(o.Namespace, o.Name, o)+")", "pods"
			case *v1.ConfigMap:
				term, res = "(CDeleteCM "+cmRef(o.Namespace, o.Name)+")", "configmaps"
			case *schedulingv1alpha2.BindRequest:
				term, res = "CDeleteBR", "bindrequests"
			}
			i, fail := w.gate(term, fmt.Sprintf("delete %s %s/%s", kindOf(obj), obj.GetNamespace(), obj.GetName()), res, obj.GetName())
			if fail != nil {
				return w.done(i, fail)
			}
			return w.done(i, c.Delete(ctx, obj, opts...))
		},
		Update: func(ctx context.Context, c client.WithWatch, obj client.Object, opts ...client.UpdateOption) error {
			w.pre()
			i, fail := w.gate("COther", fmt.Sprintf("update %s %s/%s", kindOf(obj), obj.GetNamespace(), obj.GetName()), "objects", obj.GetName())
			if fail != nil {
				return w.done(i, fail)
			}
			return w.done(i, c.Update(ctx, obj, opts...))
		},
		Patch: func(ctx context.Context, c client.WithWatch, obj client.Object, patch client.Patch, opts ...client.PatchOption) error {
			w.pre()
			term, human := w.patchTerm(obj, patch)
			res := "pods"
			if _, ok := obj.(*v1.ConfigMap); ok {
				res = "configmaps"
			}
			i, fail := w.gate(term, fmt.Sprintf("patch %s %s/%s %s", kindOf(obj), obj.GetNamespace(), obj.GetName(), human), res, obj.GetName())
			if fail != nil {
				return w.done(i, fail)
			}
			return w.done(i, c.Patch(ctx, obj, patch, opts...))
		},
		Watch: func(ctx context.Context, c client.WithWatch, list client.ObjectList, opts ...client.ListOption) (watch.Interface, error) {
			w.pre()
			lo := &client.ListOptions{}
			lo.ApplyOptions(opts)
			name := ""
			if lo.FieldSelector != nil {
				name = strings.TrimPrefix(lo.FieldSelector.String(), "metadata.name=")
			}
			cur := &v1.Pod{}
			found := w.base.Get(ctxb, types.NamespacedName{Namespace: rsvNS, Name: name}, cur) == nil
			term := "COther"
			if lo.Namespace == rsvNS {
				if g, ok := w.rsvGroup[name]; ok {
					term = fmt.Sprintf("(CWatchRsv %d)", g)
				} else if g, ok := gid(cur.Labels[lblGroup]); found && ok {
					term = fmt.Sprintf("(CWatchRsv %d)", g)
				}
			}
			i, fail := w.gate(term, fmt.Sprintf("watch Pod %s/%s", lo.Namespace, name), "pods", name)
			if fail != nil {
				return nil, w.done(i, fail)
			}
			// the device plugin: answers with a device index, or stays silent
			ans := -1
			if w.watches < len(w.sc.DP) {
				ans = w.sc.DP[w.watches]
			}
			w.watches++
			if ans < 0 || !found {
				w.log[i].Outcome = "Err" // the reservation service sees a timeout
				_ = w.done(i, nil)
				sw := &silentWatch{ch: make(chan watch.Event)}
				close(sw.ch) // unknown device at once, as after the allocation timeout
				return sw, nil
			}
			if cur.Annotations == nil {
				cur.Annotations = map[string]string{}
			}
			cur.Annotations[annIdx] = fmt.Sprint(ans)
			if err := w.base.Update(ctxb, cur); err != nil {
				return nil, w.done(i, err)
			}
			fw := watch.NewFakeWithChanSize(1, false)
			fw.Modify(cur.DeepCopy())
			return fw, w.done(i, nil)
		},
		SubResourceCreate: func(ctx context.Context, c client.Client, sub string, obj client.Object, subObj client.Object, opts ...client.SubResourceCreateOption) error {
			w.pre()
			b, isB := subObj.(*v1.Binding)
			p, isP := obj.(*v1.Pod)
			term := "COther"
			if sub == "binding" && isB && isP && p.Namespace == podNS && p.Name == podName && b.Target.Kind == "Node" {
				switch b.Target.Name {
				case nodeName:
					term = "(CBind true)"
				default:
					term = "(CBind false)"
				}
			}
			i, fail := w.gate(term, fmt.Sprintf("create %s/%s %s/%s", kindOf(obj), sub, obj.GetNamespace(), obj.GetName()), "pods/binding", obj.GetName())
			if fail != nil {
				return w.done(i, fail)
			}
			if sub != "binding" || !isB || !isP {
				return w.done(i, fmt.Errorf("unsupported sub-resource %s", sub))
			}
			if err := w.serveBinding(p, b); err != nil {
				return w.done(i, err)
			}
			w.binds++
			w.bindTo = append(w.bindTo, b.Target.Name)
			return w.done(i, nil)
		},
		SubResourcePatch: func(ctx context.Context, c client.Client, sub string, obj client.Object, patch client.Patch, opts ...client.SubResourcePatchOption) error {
			w.pre()
			data, _ := patch.Data(obj)
			term, res := "COther", "objects"
			switch o := obj.(type) {
			case *schedulingv1alpha2.BindRequest:
				res = "bindrequests/status"
				if sub == "status" {
					var m struct {
						Status struct {
							Phase          *string `json:"phase"`
							FailedAttempts *int32  `json:"failedAttempts"`
						} `json:"status"`
					}
					_ = json.Unmarshal(data, &m)
					att := "None"
					if m.Status.FailedAttempts != nil {
						att = fmt.Sprintf("(Some %d)", *m.Status.FailedAttempts)
					}
					ph := "None"
					if m.Status.Phase != nil {
						ph = "(Some " + brPhaseTerm(*m.Status.Phase) + ")"
					}
					term = fmt.Sprintf("(CPatchBRStatus %s %s)", ph, att)
				}
			case *v1.Pod:
				res = "pods/status"
				if sub == "status" && o.Namespace == podNS && o.Name == podName {
					var m struct {
						Status struct {
							Conditions []v1.PodCondition `json:"conditions"`
						} `json:"status"`
					}
					_ = json.Unmarshal(data, &m)
					if len(m.Status.Conditions) == 1 && m.Status.Conditions[0].Type == condBound {
						term = fmt.Sprintf("(CPatchPodCond %v)", m.Status.Conditions[0].Status == v1.ConditionTrue)
					}
				}
			}
			i, fail := w.gate(term, fmt.Sprintf("patch %s/%s %s/%s %s", kindOf(obj), sub, obj.GetNamespace(), obj.GetName(), string(data)), res, obj.GetName())
			if fail != nil {
				return w.done(i, fail)
			}
			return w.done(i, c.SubResource(sub).Patch(ctx, obj, patch, opts...))
		},
	}
}

func brPhaseTerm(ph string) string {
	switch ph {
	case "Succeeded":
		return "BSucceeded"
	case "Failed":
		return "BFailed"
	case "Pending", "":
		return "BPending"
	}
	return "BPending"
}
