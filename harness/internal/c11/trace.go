package c11

import (
	"context"
	"encoding/json"
	"fmt"
	"sort"

	v1 "k8s.io/api/core/v1"
	"k8s.io/apimachinery/pkg/types"

	schedulingv1alpha2 "github.com/NVIDIA/KAI-scheduler/pkg/apis/scheduling/v1alpha2"
)

// Trace runs one scenario and prints the call log and the final store (debug aid).
func Trace(js string) error {
	var sc Scenario
	if err := json.Unmarshal([]byte(js), &sc); err != nil {
		return err
	}
	w, err := newWorld(sc)
	if err != nil {
		return err
	}
	if len(sc.DP) == 0 {
		w.sc.DP = []int{0, 1, 2, 3, 4}
	}
	res, rerr, pan := w.reconcile(sc.Faults, sc.Env)
	for i, c := range w.log {
		fmt.Printf("%3d %-5s %-40s %s  node=%q\n", i, c.Outcome, c.Term, c.Human, w.nodeHist[i])
	}
	fmt.Printf("result requeueAfter=%v err=%v panicked=%v binds=%d\n", res.RequeueAfter, rerr, pan, w.binds)
	w.dump()
	fmt.Println(w.project().Term)
	return nil
}

func (w *world) dump() {
	ctx := context.Background()
	pods := &v1.PodList{}
	_ = w.base.List(ctx, pods)
	sort.Slice(pods.Items, func(i, j int) bool {
		return pods.Items[i].Namespace+pods.Items[i].Name < pods.Items[j].Namespace+pods.Items[j].Name
	})
	for _, p := range pods.Items {
		fmt.Printf("pod %s/%s node=%q phase=%s labels=%v ann=%v cond=%v\n", p.Namespace, p.Name, p.Spec.NodeName, p.Status.Phase, p.Labels, p.Annotations, p.Status.Conditions)
	}
	cms := &v1.ConfigMapList{}
	_ = w.base.List(ctx, cms)
	for _, c := range cms.Items {
		fmt.Printf("cm %s/%s owners=%v data=%v\n", c.Namespace, c.Name, c.OwnerReferences, c.Data)
	}
	br := &schedulingv1alpha2.BindRequest{}
	if err := w.base.Get(ctx, types.NamespacedName{Namespace: podNS, Name: brName}, br); err != nil {
		fmt.Println("br gone:", err)
	} else {
		fmt.Printf("br phase=%q attempts=%d\n", br.Status.Phase, br.Status.FailedAttempts)
	}
}
