package c11

import (
	"context"
	"fmt"
	"regexp"
	"sort"
	"strconv"
	"strings"

	v1 "k8s.io/api/core/v1"
	"k8s.io/apimachinery/pkg/types"

	schedulingv1alpha2 "github.com/NVIDIA/KAI-scheduler/pkg/apis/scheduling/v1alpha2"
	"github.com/NVIDIA/KAI-scheduler/pkg/binder/binding"

	u "kaiverif/internal/util"
)

// markBinder delegates to the real Binder and notes the API-call numbers at
// which Rollback is entered and left.
type markBinder struct {
	inner binding.Interface
	w     *world
}

func (m *markBinder) Bind(ctx context.Context, pod *v1.Pod, node *v1.Node, br *schedulingv1alpha2.BindRequest) error {
	return m.inner.Bind(ctx, pod, node, br)
}

func (m *markBinder) Rollback(ctx context.Context, pod *v1.Pod, node *v1.Node, br *schedulingv1alpha2.BindRequest) error {
	m.w.markBegin = m.w.n
	m.w.marked = true
	err := m.inner.Rollback(ctx, pod, node, br)
	m.w.markEnd = m.w.n
	return err
}

// ---- projection of the real store to the model's store ------------------------

func nodeID(n string) int {
	switch n {
	case "":
		return 0
	case nodeName:
		return 1
	}
	return 2
}

func phaseTerm(ph v1.PodPhase) string {
	switch ph {
	case v1.PodPending:
		return "PhPending"
	case v1.PodRunning:
		return "PhRunning"
	}
	return "PhOther"
}

func optNat(ok bool, v int) string {
	if !ok {
		return "None"
	}
	return fmt.Sprintf("(Some %d)", v)
}

func podName2ID(p *v1.Pod) int {
	switch {
	case p.Namespace == podNS && p.Name == podName:
		return 0
	case p.Namespace == podNS && strings.HasPrefix(p.Name, "sharer-"):
		if g, ok := gid(strings.TrimPrefix(p.Name, "sharer-")); ok {
			return 100 + g
		}
	case p.Namespace == rsvNS:
		if i := strings.Index(p.Name, "-old"); i >= 0 {
			if g, ok := gid(p.Name[i+4:]); ok {
				return 200 + g
			}
		}
		if g, ok := gid(p.Labels[lblGroup]); ok {
			return 1000 + g
		}
	}
	return 9999
}

func podTerm(p *v1.Pod) string {
	plain := "None"
	if v, ok := p.Labels[lblGroup]; ok {
		g, ok2 := gid(v)
		if !ok2 {
			g = 999
		}
		plain = fmt.Sprintf("(Some %d)", g)
	}
	multi := []int{}
	for k, v := range p.Labels {
		if strings.HasPrefix(k, lblMultiPfx) {
			g, ok := gid(v)
			if !ok || k != lblMultiPfx+v {
				g = 999
			}
			multi = append(multi, g)
		}
	}
	sort.Ints(multi)
	idx := "None"
	if v, ok := p.Annotations[annIdx]; ok {
		n, err := strconv.Atoi(v)
		if err != nil {
			n = 9999
		}
		idx = fmt.Sprintf("(Some %d)", n)
	}
	recv := "None"
	if v, ok := p.Annotations[annRecv]; ok {
		recv = "(Some " + recvTermSpec(v) + ")"
	}
	cond := "None"
	for _, c := range p.Status.Conditions {
		if c.Type == condBound {
			cond = fmt.Sprintf("(Some %v)", c.Status == v1.ConditionTrue)
		}
	}
	return fmt.Sprintf("(mkPod %d %v %d %s %s %s %s %s %s)", podName2ID(p), p.Namespace == rsvNS, nodeID(p.Spec.NodeName),
		phaseTerm(p.Status.Phase), plain, natList(multi), idx, recv, cond)
}

func recvTermSpec(s string) string {
	switch s {
	case "Fraction":
		return "RFraction"
	case "Regular":
		return "RRegular"
	}
	return "ROtherType"
}


func cvalTerm(k, v string) string {
	switch k {
	case envVisible, envVisibleBC:
		parts := []int{}
		if v != "" {
			for _, s := range strings.Split(v, ",") {
				n, err := strconv.Atoi(s)
				if err != nil {
					return "VOther"
				}
				parts = append(parts, n)
			}
		}
		return "(VList " + natList(parts) + ")"
	case envPortion, envNumGpusBC:
		if v == "0.5" {
			return "VPortion"
		}
	}
	return "VOther"
}

func cmTerm(c *v1.ConfigMap) string {
	owned := len(c.OwnerReferences) == 1 && c.OwnerReferences[0].UID == "uid-p" && c.OwnerReferences[0].Name == podName
	f := func(k string) string {
		v, ok := c.Data[k]
		if !ok {
			return "None"
		}
		return "(Some " + cvalTerm(k, v) + ")"
	}
	return fmt.Sprintf("(mkCM %v (mkData %s %s %s %s))", owned, f(envNumGpusBC), f(envPortion), f(envVisible), f(envVisibleBC))
}

type storeObs struct {
	Term     string
	SelfCond string // message of the PodBound condition
	Human    string
}

func (w *world) project() storeObs {
	ctx := context.Background()
	pods := &v1.PodList{}
	_ = w.base.List(ctx, pods)
	self := "(mkPod 0 false 0 PhOther None []%nat None None None)"
	alive := false
	others := []*v1.Pod{}
	msg := ""
	hum := []string{}
	for i := range pods.Items {
		p := &pods.Items[i]
		if p.Namespace == podNS && p.Name == podName {
			self, alive = podTerm(p), true
			for _, c := range p.Status.Conditions {
				if c.Type == condBound {
					msg = c.Message
				}
			}
			hum = append(hum, fmt.Sprintf("p node=%q labels=%v", p.Spec.NodeName, groupLabels(p)))
			continue
		}
		others = append(others, p)
	}
	sort.Slice(others, func(i, j int) bool { return podName2ID(others[i]) < podName2ID(others[j]) })
	ot := []string{}
	for _, p := range others {
		ot = append(ot, podTerm(p))
		hum = append(hum, fmt.Sprintf("%s/%s idx=%q", p.Namespace, p.Name, p.Annotations[annIdx]))
	}
	cms := &v1.ConfigMapList{}
	_ = w.base.List(ctx, cms)
	ct := []string{"None", "None"}
	for j, ref := range []string{cmPrefix + "-0", cmPrefix + "-0-evar"} {
		for i := range cms.Items {
			c := &cms.Items[i]
			if c.Namespace == podNS && c.Name == ref {
				ct[j] = "(Some " + cmTerm(c) + ")"
				hum = append(hum, fmt.Sprintf("cm %s %v", c.Name, c.Data))
			}
		}
	}
	brT := "None"
	br := &schedulingv1alpha2.BindRequest{}
	if err := w.base.Get(ctx, types.NamespacedName{Namespace: podNS, Name: brName}, br); err == nil {
		brT = fmt.Sprintf("(Some (mkBR %s %d))", brPhaseTerm(br.Status.Phase), br.Status.FailedAttempts)
		hum = append(hum, fmt.Sprintf("br %q/%d", br.Status.Phase, br.Status.FailedAttempts))
	}
	node := &v1.Node{}
	nodeOK := w.base.Get(ctx, types.NamespacedName{Name: nodeName}, node) == nil
	return storeObs{
		Term: fmt.Sprintf("(mkStore %s %v [%s] %s %s %s %v)", self, alive, strings.Join(ot, "; "), ct[0], ct[1], brT, nodeOK),
		SelfCond: msg, Human: strings.Join(hum, " | "),
	}
}

func groupLabels(p *v1.Pod) []string {
	out := []string{}
	for k, v := range p.Labels {
		if k == lblGroup || strings.HasPrefix(k, lblMultiPfx) {
			out = append(out, k+"="+v)
		}
	}
	sort.Strings(out)
	return out
}

// ---- case emission -----------------------------------------------------------

var reGroupList = regexp.MustCompile(`^\(CList \(LGroup (\d+)\)\)$`)

// syncOrders extracts, for every SyncForNode that listed its pods, the order
// in which it visited the groups (Go map iteration order).
func syncOrders(log []Call) [][]int {
	out := [][]int{}
	for i := 0; i < len(log); i++ {
		if log[i].Term != "(CList LNode)" || log[i].Outcome != "Ok" {
			continue
		}
		cur := []int{}
		for j := i + 1; j < len(log); j++ {
			t := log[j].Term
			if m := reGroupList.FindStringSubmatch(t); m != nil {
				g, _ := strconv.Atoi(m[1])
				cur = append(cur, g)
				continue
			}
			if strings.HasPrefix(t, "(CList (LMulti") || strings.HasPrefix(t, "(CDeletePod") {
				continue
			}
			break
		}
		out = append(out, cur)
	}
	return out
}

func faultTerm(f map[int]string) string {
	ks := []int{}
	for k := range f {
		ks = append(ks, k)
	}
	sort.Ints(ks)
	out := []string{}
	for _, k := range ks {
		out = append(out, fmt.Sprintf("(%d, %s)", k, f[k]))
	}
	return "[" + strings.Join(out, "; ") + "]"
}

func logTerm(log []Call) string {
	out := make([]string, len(log))
	for i, c := range log {
		out[i] = fmt.Sprintf("(%s, %sO)", strings.TrimSuffix(strings.TrimPrefix(c.Term, "("), ")"), c.Outcome)
		if !strings.HasPrefix(c.Term, "(") {
			out[i] = fmt.Sprintf("(%s, %sO)", c.Term, c.Outcome)
		}
	}
	return "[" + strings.Join(out, "; ") + "]"
}

func dpTerm(dp []int) string {
	out := make([]string, len(dp))
	for i, d := range dp {
		out[i] = optNat(d >= 0, d)
	}
	return "[" + strings.Join(out, "; ") + "]"
}

func ordersTerm(o [][]int) string {
	out := make([]string, len(o))
	for i, l := range o {
		out[i] = natList(l)
	}
	return "[" + strings.Join(out, "; ") + "]"
}

func histTerm(h []string) string {
	xs := make([]int, len(h))
	for i, n := range h {
		if n == "<gone>" {
			xs[i] = 3
		} else {
			xs[i] = nodeID(n)
		}
	}
	return natList(xs)
}

func (sc Scenario) scenTerm(sameMsg bool) string {
	backoff := "None"
	if sc.Backoff != nil {
		backoff = fmt.Sprintf("(Some %d)", *sc.Backoff)
	}
	return fmt.Sprintf("(mkScen %v %s %s %v %v %v %v %v)", sc.Fraction, natList(sc.Groups), backoff,
		sc.MultiAnn, sc.CMAnn, sc.VisInSpec, !sc.K8sFail, sameMsg)
}

type runObs struct {
	init, fin storeObs
	log       []Call
	hist      []string
	requeue   int64
	err       bool
	panicked  bool
	marked    bool
	mb, me    int
	faults    map[int]string
	dp        []int
}

func (w *world) observe(faults map[int]string, dp []int) runObs {
	o := runObs{faults: faults, dp: dp}
	o.init = w.project()
	w.sc.DP = dp
	w.marked, w.markBegin, w.markEnd = false, 0, 0
	w.nodeHist = nil
	res, err, pan := w.reconcile(faults)
	o.fin = w.project()
	o.log, o.hist = w.log, w.nodeHist
	o.requeue, o.err, o.panicked = int64(res.RequeueAfter.Seconds()), err != nil, pan
	o.marked, o.mb, o.me = w.marked, w.markBegin, w.markEnd
	return o
}

func (sc Scenario) caseTerm(o runObs, rec *runObs) string {
	sameMsg := true
	for _, c := range o.log {
		if c.Term == "(CPatchPodCond false)" {
			sameMsg = false
		}
	}
	mark := "None"
	if o.marked {
		mark = fmt.Sprintf("(Some (%d, %d))", o.mb, o.me)
	}
	recT := "None"
	if rec != nil {
		recT = fmt.Sprintf("(Some (%s, %v))", rec.fin.Term, rec.err)
	}
	return fmt.Sprintf("{| k_sc := %s; k_init := %s; k_faults := %s; k_dp := %s; k_orders := %s; k_log := %s; k_final := %s; k_requeue := %d; k_err := %v; k_hist := %s; k_mark := %s; k_panicked := %v; k_rec := %s |}",
		sc.scenTerm(sameMsg), o.init.Term, faultTerm(o.faults), dpTerm(o.dp), ordersTerm(syncOrders(o.log)),
		logTerm(o.log), o.fin.Term, o.requeue, o.err, histTerm(o.hist), mark, o.panicked, recT)
}

// pointName is the human name of a fault point (used in labels and by
// known-finding signatures).
func pointName(c Call) string {
	t := c.Term
	num := regexp.MustCompile(`\d+`)
	g := func() string {
		if m := num.FindString(t); m != "" {
			return "(group " + m + ")"
		}
		return ""
	}
	switch {
	case t == "CGetBR":
		return "get-bindrequest"
	case strings.HasPrefix(t, "(CGetPod"):
		return "get-pod"
	case t == "CGetNode":
		return "get-node"
	case strings.HasPrefix(t, "(CGetCM CmCap"):
		return "get-cm(capabilities)"
	case strings.HasPrefix(t, "(CGetCM"):
		return "get-cm(env)"
	case t == "(CList LNode)":
		return "list-node-pods"
	case t == "(CList LScaling)":
		return "list-scaling-pods"
	case strings.HasPrefix(t, "(CList (LRsv"):
		return "list-reservation" + g()
	case strings.HasPrefix(t, "(CList (LGroup"):
		return "sync-list-group" + g()
	case strings.HasPrefix(t, "(CList (LMulti"):
		return "sync-list-multi" + g()
	case strings.HasPrefix(t, "(CCreateRsv"):
		return "create-reservation" + g()
	case strings.HasPrefix(t, "(CWatchRsv"):
		return "wait-device-index" + g()
	case strings.HasPrefix(t, "(CDeletePod (PRsv"):
		return "delete-reservation" + g()
	case strings.HasPrefix(t, "(CDeletePod"):
		return "delete-pod"
	case strings.HasPrefix(t, "(CCreateCM CmCap"):
		return "create-cm(capabilities)"
	case strings.HasPrefix(t, "(CCreateCM"):
		return "create-cm(env)"
	case strings.HasPrefix(t, "(CDeleteCM CmCap"):
		return "rollback-delete-cm(capabilities)"
	case strings.HasPrefix(t, "(CDeleteCM"):
		return "rollback-delete-cm(env)"
	case strings.HasPrefix(t, "(CPatchCM CmCap"):
		return "patch-cm(capabilities)"
	case strings.HasPrefix(t, "(CPatchCM"):
		return "patch-cm(env)"
	case strings.HasPrefix(t, "(CPatchLabels"):
		all := num.FindAllString(t, -1)
		if len(all) > 0 {
			return "label-patch(group " + all[len(all)-1] + ")"
		}
		return "label-patch(no-op)"
	case strings.HasPrefix(t, "(CRemoveLabels"):
		return "rollback-remove-labels"
	case strings.HasPrefix(t, "(CPatchRecv"):
		return "patch-received-type"
	case strings.HasPrefix(t, "(CBind"):
		return "binding"
	case strings.HasPrefix(t, "(CPatchBRStatus"):
		return "status-patch"
	case strings.HasPrefix(t, "(CPatchPodCond"):
		return "pod-condition-patch"
	case t == "CDeleteBR":
		return "delete-bindrequest"
	}
	return "other"
}

func (sc Scenario) shapeLabel() string {
	s := sc.Shape
	if sc.Shape == "multifraction" {
		s = fmt.Sprintf("multifraction(%d)", len(sc.Groups))
	}
	init := []string{}
	add := func(c bool, s string) {
		if c {
			init = append(init, s)
		}
	}
	add(len(sc.Stale) > 0, fmt.Sprintf("stale-labels%v", sc.Stale))
	add(len(sc.PreRsv) > 0, fmt.Sprintf("shared-reservation%v", sc.PreRsv))
	add(len(sc.BareRsv) > 0, fmt.Sprintf("bare-reservation%v", sc.BareRsv))
	add(len(sc.Orphans) > 0, fmt.Sprintf("orphan-sharer%v", sc.Orphans))
	add(sc.PreCap != 0, fmt.Sprintf("cap-cm=%d", sc.PreCap))
	add(sc.PreEvar != 0, fmt.Sprintf("env-cm=%d", sc.PreEvar))
	add(sc.VisInSpec, "visible-in-spec")
	add(!sc.CMAnn && sc.Fraction, "no-cm-annotation")
	add(sc.K8sFail, "k8s-plugin-fails")
	add(sc.BRPhase != "" && sc.BRPhase != "Pending", "request="+sc.BRPhase)
	add(sc.Backoff != nil, fmt.Sprintf("backoff=%d/%d", sc.Attempts, deref(sc.Backoff)))
	add(sc.PodNode != 0, fmt.Sprintf("pod-on-node-%d", sc.PodNode))
	add(sc.NodeMissing, "node-missing")
	add(sc.Fraction && !sc.MultiAnn && len(sc.Groups) > 1, "malformed-groups")
	for i, d := range sc.DP {
		add(d < 0, fmt.Sprintf("device-plugin-silent@wait%d", i))
	}
	if len(init) == 0 {
		init = []string{"fresh"}
	}
	return fmt.Sprintf("shape=%s init=%s", s, strings.Join(init, ","))
}

func deref(p *int32) int32 {
	if p == nil {
		return -1
	}
	return *p
}

func faultLabel(faults map[int]string, log []Call) string {
	if len(faults) == 0 {
		return "fault=none"
	}
	ks := []int{}
	for k := range faults {
		ks = append(ks, k)
	}
	sort.Ints(ks)
	out := []string{}
	for _, k := range ks {
		name := "unreached"
		if k < len(log) {
			name = pointName(log[k])
		}
		out = append(out, fmt.Sprintf("%s@%s#%d", faults[k], name, k))
	}
	return "fault=" + strings.Join(out, "+")
}

// emit runs one scenario under one fault vector, then a fault-free second
// reconcile, and adds both runs as cases.
func emit(out *u.Out, sc Scenario, faults map[int]string, origin string) (first runObs, err error) {
	w, err := newWorld(sc)
	if err != nil {
		return runObs{}, err
	}
	dp := append([]int{}, sc.DP...)
	for len(dp) < len(sc.Groups)+2 {
		dp = append(dp, 10+len(dp))
	}
	first = w.observe(faults, dp)
	// before the retry the environment catches up: a reservation pod that was
	// created but not yet waited for reports its device (it annotates itself)
	w.annotateBareReservations()
	dp2 := []int{}
	for i := 0; i < len(sc.Groups)+2; i++ {
		dp2 = append(dp2, 40+i)
	}
	second := w.observe(map[int]string{}, dp2)

	lab := sc.shapeLabel() + " " + faultLabel(faults, first.log)
	out.Add(sc.caseTerm(first, &second), origin+" "+lab)
	out.Add(sc.caseTerm(second, nil), origin+" retry-after["+lab+"]")

	out.Count("origin:" + origin)
	out.Count("shape:" + sc.Shape)
	out.Count(fmt.Sprintf("faults:%d", len(faults)))
	for _, f := range faults {
		out.Count("fault-kind:" + f)
	}
	for k := range faults {
		if k < len(first.log) {
			out.Count("fault-point:" + regexp.MustCompile(`\(group \d+\)`).ReplaceAllString(pointName(first.log[k]), ""))
		} else {
			out.Count("fault-point:unreached")
		}
	}
	switch {
	case strings.Contains(first.fin.Human, `p node="n1"`):
		out.Count("outcome:bound")
	case first.marked:
		out.Count("outcome:unbound-after-rollback")
	default:
		out.Count("outcome:unbound-no-rollback")
	}
	if strings.Contains(second.fin.Human, `p node="n1"`) {
		out.Count("retry:bound")
	} else {
		out.Count("retry:unbound")
	}
	// non-trivial: at least one injected fault was reached, or the device plugin stayed silent
	reached := false
	for k := range faults {
		if k < len(first.log) {
			reached = true
		}
	}
	if reached || first.marked {
		out.NonTrivial(lab)
	}
	out.Sample(map[string]any{"scenario": sc, "faults": faults, "calls": len(first.log), "final": first.fin.Human,
		"returned_error": first.err, "final_after_retry": second.fin.Human})
	return first, nil
}

// ---- scenarios ---------------------------------------------------------------

func i32(v int32) *int32 { return &v }

func baseScenarios() []Scenario {
	whole := Scenario{Shape: "whole"}
	frac := Scenario{Shape: "fraction", Groups: []int{1}, Fraction: true, CMAnn: true}
	multi2 := Scenario{Shape: "multifraction", Groups: []int{1, 2}, Fraction: true, CMAnn: true, MultiAnn: true}
	multi3 := Scenario{Shape: "multifraction", Groups: []int{1, 2, 3}, Fraction: true, CMAnn: true, MultiAnn: true}
	out := []Scenario{whole, frac, multi2, multi3}

	v := whole
	v.Backoff, v.Attempts = i32(3), 1
	out = append(out, v)
	v = whole
	v.BRPhase = "Failed"
	out = append(out, v)
	v = whole
	v.K8sFail = true
	v.Shape = "dra"
	out = append(out, v)

	v = frac
	v.VisInSpec, v.PreRsv = true, []int{1}
	out = append(out, v)
	v = frac
	v.PreCap, v.PreEvar = 2, 1
	out = append(out, v)
	v = frac
	v.PreCap, v.PreEvar, v.Stale = 3, 3, []int{1}
	v.BRPhase, v.Backoff, v.Attempts = "Failed", i32(2), 1
	out = append(out, v)
	v = frac
	v.DP = []int{-1}
	out = append(out, v)
	v = frac
	v.BareRsv = []int{1}
	out = append(out, v)
	v = frac
	v.Stale = []int{4}
	out = append(out, v)
	v = frac
	v.K8sFail = true
	out = append(out, v)

	v = multi2
	v.DP = []int{5, -1}
	out = append(out, v)
	v = multi2
	v.Stale, v.PreRsv = []int{1}, []int{1}
	out = append(out, v)
	v = multi2
	v.Orphans = []int{7}
	v.VisInSpec = true
	out = append(out, v)
	v = multi3
	v.PreRsv = []int{2}
	v.Backoff = i32(1)
	out = append(out, v)
	return out
}

// boundary corpus: no-op inputs and malformed requests (run fault free and with a few faults)
func corpusScenarios() []Scenario {
	out := []Scenario{}
	for _, ph := range []string{"Succeeded"} {
		out = append(out, Scenario{Shape: "whole", BRPhase: ph})
		out = append(out, Scenario{Shape: "fraction", Groups: []int{1}, Fraction: true, CMAnn: true, BRPhase: ph, Stale: []int{1}})
	}
	for _, n := range []int{1, 2} {
		out = append(out, Scenario{Shape: "whole", PodNode: n})
		out = append(out, Scenario{Shape: "fraction", Groups: []int{1}, Fraction: true, CMAnn: true, PodNode: n, BRPhase: "Failed"})
	}
	out = append(out, Scenario{Shape: "fraction", Groups: nil, Fraction: true, CMAnn: true})                // InvalidCrdWarning path
	out = append(out, Scenario{Shape: "fraction", Groups: []int{1}, Fraction: true, CMAnn: false})          // no config-map annotation
	out = append(out, Scenario{Shape: "fraction", Groups: []int{1, 2}, Fraction: true, CMAnn: true})         // two groups, not multi-fraction
	out = append(out, Scenario{Shape: "whole", NodeMissing: true})
	out = append(out, Scenario{Shape: "multifraction", Groups: []int{1, 2}, Fraction: true, CMAnn: true, MultiAnn: true, Orphans: []int{1}})
	return out
}

func copyFaults(f map[int]string) map[int]string {
	g := map[int]string{}
	for k, v := range f {
		g[k] = v
	}
	return g
}

// Run: the corpus and every base scenario fault free, then every single fault
// (Fail and Crash at every call of the fault-free run and - because a fault
// changes what follows - at every call of each singly-faulted run that lies
// after the first fault: thorough tier only, all pairs), then n random
// scenario/fault-pair draws.
func Run(dir string, seed uint64, n int, tier string) error {
	out := u.NewOut(dir, "C11", "KaiV.Run.C11", "case", 60)
	kinds := []string{"Fail", "Crash"}
	scs := baseScenarios()
	for _, sc := range corpusScenarios() {
		first, err := emit(out, sc, map[int]string{}, "corpus")
		if err != nil {
			return err
		}
		for k := 0; k < len(first.log); k++ {
			if _, err := emit(out, sc, map[int]string{k: "Fail"}, "corpus"); err != nil {
				return err
			}
		}
	}
	type single struct {
		sc     Scenario
		faults map[int]string
		calls  int
		k      int
	}
	singles := []single{}
	for _, sc := range scs {
		first, err := emit(out, sc, map[int]string{}, "exhaustive")
		if err != nil {
			return err
		}
		for k := 0; k < len(first.log); k++ {
			for _, kind := range kinds {
				f := map[int]string{k: kind}
				o, err := emit(out, sc, f, "exhaustive")
				if err != nil {
					return err
				}
				if kind == "Fail" {
					singles = append(singles, single{sc, f, len(o.log), k})
				}
			}
		}
	}
	if tier == "thorough" {
		for _, s := range singles {
			for j := s.k + 1; j < s.calls; j++ {
				for _, kind := range kinds {
					f := copyFaults(s.faults)
					f[j] = kind
					if _, err := emit(out, s.sc, f, "pairs"); err != nil {
						return err
					}
				}
			}
		}
	}
	root := u.NewRng(seed)
	for i := 0; i < n && len(singles) > 0; i++ {
		r := root.Fork(uint64(i))
		s := u.Pick(r, singles)
		f := copyFaults(s.faults)
		if s.calls > s.k+1 {
			f[r.Range(s.k+1, s.calls-1)] = u.Pick(r, kinds)
		}
		if r.Chance(1, 4) && s.calls > s.k+2 {
			f[r.Range(s.k+1, s.calls-1)] = "Fail"
		}
		if _, err := emit(out, s.sc, f, "random"); err != nil {
			return err
		}
	}
	out.Stats["rule"] = "every base scenario (whole GPU, fraction, multi-fraction 2 and 3 groups, with shared / bare reservation pods, stale labels, pre-existing config maps, silent device plugin, failing k8s plugin, retry states) under every single Fail and Crash at every API call of its fault-free run; thorough: additionally a second Fail/Crash at every later call of every singly-faulted run; plus n random fault pairs/triples; every run is followed by a fault-free second reconcile which is a case of its own; non-trivial = an injected fault was reached or Rollback ran; distinct by (scenario, fault vector)"
	return out.Flush()
}

func (w *world) annotateBareReservations() {
	ctx := context.Background()
	pods := &v1.PodList{}
	_ = w.base.List(ctx, pods)
	for i := range pods.Items {
		p := &pods.Items[i]
		if p.Namespace != rsvNS {
			continue
		}
		if _, ok := p.Annotations[annIdx]; ok {
			continue
		}
		if p.Annotations == nil {
			p.Annotations = map[string]string{}
		}
		g, _ := gid(p.Labels[lblGroup])
		p.Annotations[annIdx] = fmt.Sprint(30 + g)
		_ = w.base.Update(ctx, p)
	}
}
