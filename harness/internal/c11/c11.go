package c11

import (
	"context"
	"fmt"
	"regexp"
	"runtime"
	"sort"
	"strconv"
	"strings"
	"sync"
	"sync/atomic"

	v1 "k8s.io/api/core/v1"
	"k8s.io/apimachinery/pkg/types"

	schedulingv1alpha2 "github.com/NVIDIA/KAI-scheduler/pkg/apis/scheduling/v1alpha2"
	"github.com/NVIDIA/KAI-scheduler/pkg/binder/binding"

	u "kaiverif/internal/util"
)

// markBinder delegates to the real Binder and notes the API-call numbers at
// which Rollback is entered and left.
type markBinder struct {
	inner binding.Interface
	w     *world
}

func (m *markBinder) Bind(ctx context.Context, pod *v1.Pod, node *v1.Node, br *schedulingv1alpha2.BindRequest) error {
	return m.inner.Bind(ctx, pod, node, br)
}

func (m *markBinder) Rollback(ctx context.Context, pod *v1.Pod, node *v1.Node, br *schedulingv1alpha2.BindRequest) error {
	m.w.markBegin = m.w.n
	m.w.marked = true
	err := m.inner.Rollback(ctx, pod, node, br)
	m.w.markEnd = m.w.n
	return err
}

// ---- projection of the real store to the model's store ------------------------

func nodeID(n string) int {
	switch n {
	case "":
		return 0
	case nodeName:
		return 1
	}
	return 2
}

func phaseTerm(ph v1.PodPhase) string {
	switch ph {
	case v1.PodPending:
		return "PhPending"
	case v1.PodRunning:
		return "PhRunning"
	}
	return "PhOther"
}

func optNat(ok bool, v int) string {
	if !ok {
		return "None"
	}
	return fmt.Sprintf("(Some %d)", v)
}

func podName2ID(p *v1.Pod) int {
	switch {
	case p.Namespace == podNS && p.Name == podName:
		return 0
	case p.Namespace == podNS && strings.HasPrefix(p.Name, "sharer-"):
		if g, ok := gid(strings.TrimPrefix(p.Name, "sharer-")); ok {
			return 100 + g
		}
	case p.Namespace == rsvNS:
		if i := strings.Index(p.Name, "-old"); i >= 0 {
			if g, ok := gid(p.Name[i+4:]); ok {
				return 200 + g
			}
		}
		if g, ok := gid(p.Labels[lblGroup]); ok {
			return 1000 + g
		}
	}
	return 9999
}

func podTerm(p *v1.Pod) string {
	plain := "None"
	if v, ok := p.Labels[lblGroup]; ok {
		g, ok2 := gid(v)
		if !ok2 {
			g = 999
		}
		plain = fmt.Sprintf("(Some %d)", g)
	}
	multi := []int{}
	for k, v := range p.Labels {
		if strings.HasPrefix(k, lblMultiPfx) {
			g, ok := gid(v)
			if !ok || k != lblMultiPfx+v {
				g = 999
			}
			multi = append(multi, g)
		}
	}
	sort.Ints(multi)
	idx := "None"
	if v, ok := p.Annotations[annIdx]; ok {
		n, err := strconv.Atoi(v)
		if err != nil {
			n = 9999
		}
		idx = fmt.Sprintf("(Some %d)", n)
	}
	recv := "None"
	if v, ok := p.Annotations[annRecv]; ok {
		recv = "(Some " + recvTermSpec(v) + ")"
	}
	cond := "None"
	for _, c := range p.Status.Conditions {
		if c.Type == condBound {
			cond = fmt.Sprintf("(Some %v)", c.Status == v1.ConditionTrue)
		}
	}
	uid := 0
	if p.Namespace == podNS && p.Name == podName {
		uid = uidNum(string(p.UID))
	}
	return fmt.Sprintf("(mkPod %d %v %d %s %s %s %s %s %s %d %v)", podName2ID(p), p.Namespace == rsvNS, nodeID(p.Spec.NodeName),
		phaseTerm(p.Status.Phase), plain, natList(multi), idx, recv, cond, uid, p.DeletionTimestamp != nil)
}

func uidNum(uid string) int {
	var n int
	if _, err := fmt.Sscanf(uid, "uid-p%d", &n); err != nil || fmt.Sprintf("uid-p%d", n) != uid {
		return 0
	}
	return n
}

func recvTermSpec(s string) string {
	switch s {
	case "Fraction":
		return "RFraction"
	case "Regular":
		return "RRegular"
	}
	return "ROtherType"
}

func cvalTerm(k, v string) string {
	switch k {
	case envVisible, envVisibleBC:
		parts := []int{}
		if v != "" {
			for _, s := range strings.Split(v, ",") {
				n, err := strconv.Atoi(s)
				if err != nil {
					return "VOther"
				}
				parts = append(parts, n)
			}
		}
		return "(VList " + natList(parts) + ")"
	case envPortion, envNumGpusBC:
		if v == "0.5" {
			return "VPortion"
		}
	}
	return "VOther"
}

func cmTerm(c *v1.ConfigMap) string {
	owned := ownerNum(c.OwnerReferences)
	f := func(k string) string {
		v, ok := c.Data[k]
		if !ok {
			return "None"
		}
		return "(Some " + cvalTerm(k, v) + ")"
	}
	return fmt.Sprintf("(mkCM %d (mkData %s %s %s %s))", owned, f(envNumGpusBC), f(envPortion), f(envVisible), f(envVisibleBC))
}

type storeObs struct {
	Term     string
	SelfCond string // message of the PodBound condition
	Human    string
}

func (w *world) project() storeObs {
	ctx := context.Background()
	pods := &v1.PodList{}
	_ = w.base.List(ctx, pods)
	self := fmt.Sprintf("(mkPod 0 false 0 PhOther None []%%nat None None None %d false)", w.uidN)
	alive := false
	others := []*v1.Pod{}
	msg := ""
	hum := []string{}
	for i := range pods.Items {
		p := &pods.Items[i]
		if p.Namespace == podNS && p.Name == podName {
			self, alive = podTerm(p), true
			for _, c := range p.Status.Conditions {
				if c.Type == condBound {
					msg = c.Message
				}
			}
			hum = append(hum, fmt.Sprintf("p node=%q labels=%v uid=%s deleting=%v", p.Spec.NodeName, groupLabels(p), p.UID, p.DeletionTimestamp != nil))
			continue
		}
		others = append(others, p)
	}
	sort.Slice(others, func(i, j int) bool { return podName2ID(others[i]) < podName2ID(others[j]) })
	ot := []string{}
	for _, p := range others {
		ot = append(ot, podTerm(p))
		hum = append(hum, fmt.Sprintf("%s/%s idx=%q", p.Namespace, p.Name, p.Annotations[annIdx]))
	}
	cms := &v1.ConfigMapList{}
	_ = w.base.List(ctx, cms)
	ct := []string{"None", "None"}
	for j, ref := range []string{cmPrefix + "-0", cmPrefix + "-0-evar"} {
		for i := range cms.Items {
			c := &cms.Items[i]
			if c.Namespace == podNS && c.Name == ref {
				ct[j] = "(Some " + cmTerm(c) + ")"
				hum = append(hum, fmt.Sprintf("cm %s %v", c.Name, c.Data))
			}
		}
	}
	brT := "None"
	br := &schedulingv1alpha2.BindRequest{}
	if err := w.base.Get(ctx, types.NamespacedName{Namespace: podNS, Name: brName}, br); err == nil {
		brT = fmt.Sprintf("(Some (mkBR %s %d))", brPhaseTerm(br.Status.Phase), br.Status.FailedAttempts)
		hum = append(hum, fmt.Sprintf("br %q/%d", br.Status.Phase, br.Status.FailedAttempts))
	}
	node := &v1.Node{}
	nodeOK := w.base.Get(ctx, types.NamespacedName{Name: nodeName}, node) == nil
	return storeObs{
		Term:     fmt.Sprintf("(mkStore %s %v [%s] %s %s %s %v)", self, alive, strings.Join(ot, "; "), ct[0], ct[1], brT, nodeOK),
		SelfCond: msg, Human: strings.Join(hum, " | "),
	}
}

func groupLabels(p *v1.Pod) []string {
	out := []string{}
	for k, v := range p.Labels {
		if k == lblGroup || strings.HasPrefix(k, lblMultiPfx) {
			out = append(out, k+"="+v)
		}
	}
	sort.Strings(out)
	return out
}

// ---- case emission -----------------------------------------------------------

var reGroupList = regexp.MustCompile(`^\(CList \(LGroup (\d+)\)\)$`)

// syncOrders extracts, for every SyncForNode that listed its pods, the order
// in which it visited the groups (Go map iteration order).
func syncOrders(log []Call) [][]int {
	out := [][]int{}
	for i := 0; i < len(log); i++ {
		if log[i].Term != "(CList LNode)" || log[i].Outcome != "Ok" {
			continue
		}
		cur := []int{}
		for j := i + 1; j < len(log); j++ {
			t := log[j].Term
			if m := reGroupList.FindStringSubmatch(t); m != nil {
				g, _ := strconv.Atoi(m[1])
				cur = append(cur, g)
				continue
			}
			if strings.HasPrefix(t, "(CList (LMulti") || strings.HasPrefix(t, "(CDeletePod") {
				continue
			}
			break
		}
		out = append(out, cur)
	}
	return out
}

func faultTerm(f map[int]string) string {
	ks := []int{}
	for k := range f {
		ks = append(ks, k)
	}
	sort.Ints(ks)
	out := []string{}
	for _, k := range ks {
		if f[k] == "Crash" {
			out = append(out, fmt.Sprintf("(%d, Crash)", k))
		} else {
			out = append(out, fmt.Sprintf("(%d, Fail E%s)", k, faultKind(f[k])))
		}
	}
	return "[" + strings.Join(out, "; ") + "]"
}

func envStepTerm(e string) string {
	switch {
	case e == envBindElsewhere:
		return "EvBindElsewhere"
	case e == envTerminate:
		return "EvTerminate"
	case e == envRemove:
		return "EvRemove"
	case e == envRecreate:
		return "EvRecreate"
	case e == envDeleteBR:
		return "EvDeleteBR"
	case strings.HasPrefix(e, envDeleteRsvPfx):
		return "(EvDeleteRsv " + strings.TrimPrefix(e, envDeleteRsvPfx) + ")"
	}
	return "EvDeleteBR"
}

func envTerm(env map[int][]string) string {
	ks := []int{}
	for k := range env {
		ks = append(ks, k)
	}
	sort.Ints(ks)
	out := []string{}
	for _, k := range ks {
		steps := []string{}
		for _, e := range env[k] {
			steps = append(steps, envStepTerm(e))
		}
		out = append(out, fmt.Sprintf("(%d, [%s])", k, strings.Join(steps, "; ")))
	}
	return "[" + strings.Join(out, "; ") + "]"
}

func logTerm(log []Call) string {
	out := make([]string, len(log))
	for i, c := range log {
		out[i] = fmt.Sprintf("(%s, %sO)", strings.TrimSuffix(strings.TrimPrefix(c.Term, "("), ")"), c.Outcome)
		if !strings.HasPrefix(c.Term, "(") {
			out[i] = fmt.Sprintf("(%s, %sO)", c.Term, c.Outcome)
		}
	}
	return "[" + strings.Join(out, "; ") + "]"
}

func dpTerm(dp []int) string {
	out := make([]string, len(dp))
	for i, d := range dp {
		out[i] = optNat(d >= 0, d)
	}
	return "[" + strings.Join(out, "; ") + "]"
}

func ordersTerm(o [][]int) string {
	out := make([]string, len(o))
	for i, l := range o {
		out[i] = natList(l)
	}
	return "[" + strings.Join(out, "; ") + "]"
}

func histTerm(h []string) string {
	xs := make([]int, len(h))
	for i, n := range h {
		if n == "<gone>" {
			xs[i] = 3
		} else {
			xs[i] = nodeID(n)
		}
	}
	return natList(xs)
}

func (sc Scenario) scenTerm(sameMsg bool) string {
	backoff := "None"
	if sc.Backoff != nil {
		backoff = fmt.Sprintf("(Some %d)", *sc.Backoff)
	}
	return fmt.Sprintf("(mkScen %v %s %s %v %v %v %v %v)", sc.Fraction, natList(sc.Groups), backoff,
		sc.MultiAnn, sc.CMAnn, sc.VisInSpec, !sc.K8sFail, sameMsg)
}

type runObs struct {
	init, fin storeObs
	log       []Call
	hist      []string
	requeue   int64
	err       bool
	panicked  bool
	marked    bool
	mb, me    int
	faults    map[int]string
	env       map[int][]string
	dp        []int
}

func (w *world) observe(faults map[int]string, env map[int][]string, dp []int) runObs {
	o := runObs{faults: faults, env: env, dp: dp}
	o.init = w.project()
	w.sc.DP = dp
	w.marked, w.markBegin, w.markEnd = false, 0, 0
	w.nodeHist = nil
	res, err, pan := w.reconcile(faults, env)
	o.fin = w.project()
	o.log, o.hist = w.log, w.nodeHist
	o.requeue, o.err, o.panicked = int64(res.RequeueAfter.Seconds()), err != nil, pan
	o.marked, o.mb, o.me = w.marked, w.markBegin, w.markEnd
	return o
}

func (sc Scenario) caseTerm(o runObs, rec *runObs) string {
	sameMsg := true
	for _, c := range o.log {
		if c.Term == "(CPatchPodCond false)" {
			sameMsg = false
		}
	}
	mark := "None"
	if o.marked {
		mark = fmt.Sprintf("(Some (%d, %d))", o.mb, o.me)
	}
	recT := "None"
	if rec != nil {
		recT = fmt.Sprintf("(Some (%s, %v))", rec.fin.Term, rec.err)
	}
	return fmt.Sprintf("{| k_sc := %s; k_init := %s; k_faults := %s; k_env := %s; k_dp := %s; k_orders := %s; k_log := %s; k_final := %s; k_requeue := %d; k_err := %v; k_hist := %s; k_mark := %s; k_panicked := %v; k_rec := %s |}",
		sc.scenTerm(sameMsg), o.init.Term, faultTerm(o.faults), envTerm(o.env), dpTerm(o.dp), ordersTerm(syncOrders(o.log)),
		logTerm(o.log), o.fin.Term, o.requeue, o.err, histTerm(o.hist), mark, o.panicked, recT)
}

// pointName is the human name of a fault point (used in labels and by
// known-finding signatures).
func pointName(c Call) string {
	t := c.Term
	num := regexp.MustCompile(`\d+`)
	g := func() string {
		if m := num.FindString(t); m != "" {
			return "(group " + m + ")"
		}
		return ""
	}
	switch {
	case t == "CGetBR":
		return "get-bindrequest"
	case strings.HasPrefix(t, "(CGetPod"):
		return "get-pod"
	case t == "CGetNode":
		return "get-node"
	case strings.HasPrefix(t, "(CGetCM CmCap"):
		return "get-cm(capabilities)"
	case strings.HasPrefix(t, "(CGetCM"):
		return "get-cm(env)"
	case t == "(CList LNode)":
		return "list-node-pods"
	case t == "(CList LScaling)":
		return "list-scaling-pods"
	case strings.HasPrefix(t, "(CList (LRsv"):
		return "list-reservation" + g()
	case strings.HasPrefix(t, "(CList (LGroup"):
		return "sync-list-group" + g()
	case strings.HasPrefix(t, "(CList (LMulti"):
		return "sync-list-multi" + g()
	case strings.HasPrefix(t, "(CCreateRsv"):
		return "create-reservation" + g()
	case strings.HasPrefix(t, "(CWatchRsv"):
		return "wait-device-index" + g()
	case strings.HasPrefix(t, "(CDeletePod (PRsv"):
		return "delete-reservation" + g()
	case strings.HasPrefix(t, "(CDeletePod"):
		return "delete-pod"
	case strings.HasPrefix(t, "(CCreateCM CmCap"):
		return "create-cm(capabilities)"
	case strings.HasPrefix(t, "(CCreateCM"):
		return "create-cm(env)"
	case strings.HasPrefix(t, "(CDeleteCM CmCap"):
		return "rollback-delete-cm(capabilities)"
	case strings.HasPrefix(t, "(CDeleteCM"):
		return "rollback-delete-cm(env)"
	case strings.HasPrefix(t, "(CPatchCM CmCap"):
		return "patch-cm(capabilities)"
	case strings.HasPrefix(t, "(CPatchCM"):
		return "patch-cm(env)"
	case strings.HasPrefix(t, "(CPatchLabels"):
		all := num.FindAllString(t, -1)
		if len(all) > 0 {
			return "label-patch(group " + all[len(all)-1] + ")"
		}
		return "label-patch(no-op)"
	case strings.HasPrefix(t, "(CRemoveLabels"):
		return "rollback-remove-labels"
	case strings.HasPrefix(t, "(CPatchRecv"):
		return "patch-received-type"
	case strings.HasPrefix(t, "(CBind"):
		return "binding"
	case strings.HasPrefix(t, "(CPatchBRStatus"):
		return "status-patch"
	case strings.HasPrefix(t, "(CPatchPodCond"):
		return "pod-condition-patch"
	case t == "CDeleteBR":
		return "delete-bindrequest"
	}
	return "other"
}

func (sc Scenario) shapeLabel() string {
	s := sc.Shape
	if sc.Shape == "multifraction" {
		s = fmt.Sprintf("multifraction(%d)", len(sc.Groups))
	}
	init := []string{}
	add := func(c bool, s string) {
		if c {
			init = append(init, s)
		}
	}
	add(len(sc.Stale) > 0, fmt.Sprintf("stale-labels%v", sc.Stale))
	add(len(sc.PreRsv) > 0, fmt.Sprintf("shared-reservation%v", sc.PreRsv))
	add(len(sc.BareRsv) > 0, fmt.Sprintf("bare-reservation%v", sc.BareRsv))
	add(len(sc.Orphans) > 0, fmt.Sprintf("orphan-sharer%v", sc.Orphans))
	add(sc.PreCap != 0, fmt.Sprintf("cap-cm=%d", sc.PreCap))
	add(sc.PreEvar != 0, fmt.Sprintf("env-cm=%d", sc.PreEvar))
	add(sc.VisInSpec, "visible-in-spec")
	add(!sc.CMAnn && sc.Fraction, "no-cm-annotation")
	add(sc.K8sFail, "k8s-plugin-fails")
	add(sc.BRPhase != "" && sc.BRPhase != "Pending", "request="+sc.BRPhase)
	add(sc.Backoff != nil, fmt.Sprintf("backoff=%d/%d", sc.Attempts, deref(sc.Backoff)))
	add(sc.PodNode != 0, fmt.Sprintf("pod-on-node-%d", sc.PodNode))
	add(sc.NodeMissing, "node-missing")
	add(sc.Fraction && !sc.MultiAnn && len(sc.Groups) > 1, "malformed-groups")
	for i, d := range sc.DP {
		add(d < 0, fmt.Sprintf("device-plugin-silent@wait%d", i))
	}
	if len(init) == 0 {
		init = []string{"fresh"}
	}
	return fmt.Sprintf("shape=%s init=%s", s, strings.Join(init, ","))
}

func deref(p *int32) int32 {
	if p == nil {
		return -1
	}
	return *p
}

func faultLabel(faults map[int]string, log []Call) string {
	if len(faults) == 0 {
		return "fault=none"
	}
	ks := []int{}
	for k := range faults {
		ks = append(ks, k)
	}
	sort.Ints(ks)
	out := []string{}
	for _, k := range ks {
		name := "unreached"
		if k < len(log) {
			name = pointName(log[k])
		}
		f := faults[k]
		if f != "Crash" {
			f = "Fail(" + faultKind(f) + ")"
		}
		out = append(out, fmt.Sprintf("%s@%s#%d", f, name, k))
	}
	return "fault=" + strings.Join(out, "+")
}

// envLabel names every interleaved change by what it is and the call it precedes.
func envLabel(env map[int][]string, log []Call) string {
	if len(env) == 0 {
		return "env=none"
	}
	ks := []int{}
	for k := range env {
		ks = append(ks, k)
	}
	sort.Ints(ks)
	out := []string{}
	for _, k := range ks {
		name := "unreached"
		if k < len(log) {
			name = pointName(log[k])
		}
		out = append(out, fmt.Sprintf("%s<before>%s#%d", strings.Join(env[k], ","), name, k))
	}
	return "env=" + strings.Join(out, "+")
}

// verbOf is the API verb of a logged call (the binding sub-resource is its own verb).
func verbOf(c Call) string {
	f := strings.Fields(c.Human)
	if len(f) == 0 {
		return "other"
	}
	if f[0] == "create" && len(f) > 1 && strings.HasSuffix(f[1], "/binding") {
		return "binding"
	}
	return f[0]
}

// kindsFor lists the error kinds the API server can answer a verb with.
func kindsFor(verb string) []string {
	switch verb {
	case "get", "delete":
		return []string{"Internal", "Timeout", "NotFound", "Forbidden"}
	case "create":
		return []string{"Internal", "Timeout", "Exists", "Forbidden"}
	case "patch", "update", "binding":
		return []string{"Internal", "Timeout", "NotFound", "Conflict", "Forbidden"}
	}
	return []string{"Internal", "Timeout", "Forbidden"} // list, watch
}

// one run to make: scenario, fault vector, interleaved changes
type job struct {
	sc     Scenario
	faults map[int]string
	env    map[int][]string
	origin string
}

type result struct {
	first, second runObs
	terms, labels []string
	counts        []string
	nontrivial    string
	sample        any
	err           error
}

// syncAll is the reservation service's periodic / start-up Sync, fault free and undisturbed.
func (w *world) syncAll() {
	w.n, w.crashed, w.faults, w.envs, w.envDone, w.log, w.watches = 0, false, map[int]string{}, map[int][]string{}, 0, nil, 0
	_ = w.rrs.Sync(context.Background())
}

// runJob runs one scenario under one fault vector and one interleaving; then,
// on the store that leaves: bare reservation pods report their device, one
// fault-free reservation Sync, a fault-free second reconcile. Both reconciles
// are cases.
func runJob(j job) (r result) {
	sc := j.sc
	w, err := newWorld(sc)
	if err != nil {
		r.err = err
		return
	}
	dp := append([]int{}, sc.DP...)
	for len(dp) < len(sc.Groups)+2 {
		dp = append(dp, 10+len(dp))
	}
	first := w.observe(j.faults, j.env, dp)
	// before the retry the environment catches up: a reservation pod that was
	// created but not yet waited for reports its device (it annotates itself),
	// and the reservation service syncs
	w.annotateBareReservations()
	w.syncAll()
	dp2 := []int{}
	for i := 0; i < len(sc.Groups)+2; i++ {
		dp2 = append(dp2, 40+i)
	}
	second := w.observe(map[int]string{}, map[int][]string{}, dp2)
	r.first, r.second = first, second

	lab := sc.shapeLabel() + " " + faultLabel(j.faults, first.log) + " " + envLabel(j.env, first.log)
	r.terms = []string{sc.caseTerm(first, &second), sc.caseTerm(second, nil)}
	r.labels = []string{j.origin + " " + lab, j.origin + " retry-after[" + lab + "]"}

	cnt := func(k string) { r.counts = append(r.counts, k) }
	cnt("origin:" + j.origin)
	cnt("shape:" + sc.Shape)
	cnt(fmt.Sprintf("faults:%d", len(j.faults)))
	cnt(fmt.Sprintf("env-steps:%d", len(j.env)))
	for _, f := range j.faults {
		cnt("fault-kind:" + f)
	}
	for _, es := range j.env {
		for _, e := range es {
			cnt("env-kind:" + strings.SplitN(e, ":", 2)[0])
		}
	}
	strip := regexp.MustCompile(`\(group \d+\)`)
	for k := range j.faults {
		if k < len(first.log) {
			cnt("fault-point:" + strip.ReplaceAllString(pointName(first.log[k]), ""))
		} else {
			cnt("fault-point:unreached")
		}
	}
	for k := range j.env {
		if k < len(first.log) {
			cnt("env-point:before-" + strip.ReplaceAllString(pointName(first.log[k]), ""))
		} else {
			cnt("env-point:unreached")
		}
	}
	switch {
	case strings.Contains(first.fin.Human, `p node="n1"`):
		cnt("outcome:bound")
	case strings.Contains(first.fin.Human, `p node="n2"`):
		cnt("outcome:on-another-node")
	case !strings.Contains(first.fin.Human, `p node=`):
		cnt("outcome:pod-gone")
	case first.marked:
		cnt("outcome:unbound-after-rollback")
	default:
		cnt("outcome:unbound-no-rollback")
	}
	if strings.Contains(second.fin.Human, `p node="n1"`) {
		cnt("retry:bound")
	} else {
		cnt("retry:not-bound")
	}
	// non-trivial: an injected fault or an interleaved change was reached, or Rollback ran
	reached := false
	for k := range j.faults {
		if k < len(first.log) {
			reached = true
		}
	}
	for k := range j.env {
		if k < len(first.log) {
			reached = true
		}
	}
	if reached || first.marked {
		r.nontrivial = lab
	}
	r.sample = map[string]any{"scenario": sc, "faults": j.faults, "env": j.env, "calls": len(first.log), "final": first.fin.Human,
		"returned_error": first.err, "final_after_sync_and_retry": second.fin.Human}
	return
}

// runAll runs the jobs on all cores and adds their cases in job order.
func runAll(out *u.Out, jobs []job) ([]result, error) {
	res := make([]result, len(jobs))
	workers := runtime.NumCPU()
	if workers > 16 {
		workers = 16
	}
	var wg sync.WaitGroup
	next := int64(-1)
	for wk := 0; wk < workers; wk++ {
		wg.Add(1)
		go func() {
			defer wg.Done()
			for {
				i := int(atomic.AddInt64(&next, 1))
				if i >= len(jobs) {
					return
				}
				res[i] = runJob(jobs[i])
			}
		}()
	}
	wg.Wait()
	for i := range res {
		if res[i].err != nil {
			return nil, res[i].err
		}
		for k := range res[i].terms {
			out.Add(res[i].terms[k], res[i].labels[k])
		}
		for _, c := range res[i].counts {
			out.Count(c)
		}
		if res[i].nontrivial != "" {
			out.NonTrivial(res[i].nontrivial)
		}
		if i%97 == 0 {
			out.Sample(res[i].sample)
		}
	}
	return res, nil
}

// ---- scenarios ---------------------------------------------------------------

func i32(v int32) *int32 { return &v }

func baseScenarios() []Scenario {
	whole := Scenario{Shape: "whole"}
	frac := Scenario{Shape: "fraction", Groups: []int{1}, Fraction: true, CMAnn: true}
	multi2 := Scenario{Shape: "multifraction", Groups: []int{1, 2}, Fraction: true, CMAnn: true, MultiAnn: true}
	multi3 := Scenario{Shape: "multifraction", Groups: []int{1, 2, 3}, Fraction: true, CMAnn: true, MultiAnn: true}
	out := []Scenario{whole, frac, multi2, multi3}

	v := whole
	v.Backoff, v.Attempts = i32(3), 1
	out = append(out, v)
	v = whole
	v.BRPhase = "Failed"
	out = append(out, v)
	v = whole
	v.K8sFail = true
	v.Shape = "dra"
	out = append(out, v)

	v = frac
	v.VisInSpec, v.PreRsv = true, []int{1}
	out = append(out, v)
	v = frac
	v.PreCap, v.PreEvar = 2, 1
	out = append(out, v)
	v = frac
	v.PreCap, v.PreEvar, v.Stale = 3, 3, []int{1}
	v.BRPhase, v.Backoff, v.Attempts = "Failed", i32(2), 1
	out = append(out, v)
	v = frac
	v.DP = []int{-1}
	out = append(out, v)
	v = frac
	v.BareRsv = []int{1}
	out = append(out, v)
	v = frac
	v.Stale = []int{4}
	out = append(out, v)
	v = frac
	v.K8sFail = true
	out = append(out, v)

	v = multi2
	v.DP = []int{5, -1}
	out = append(out, v)
	v = multi2
	v.Stale, v.PreRsv = []int{1}, []int{1}
	out = append(out, v)
	v = multi2
	v.Orphans = []int{7}
	v.VisInSpec = true
	out = append(out, v)
	v = multi3
	v.PreRsv = []int{2}
	v.Backoff = i32(1)
	out = append(out, v)
	return out
}

// boundary corpus: no-op inputs and malformed requests (run fault free and with a few faults)
func corpusScenarios() []Scenario {
	out := []Scenario{}
	for _, ph := range []string{"Succeeded"} {
		out = append(out, Scenario{Shape: "whole", BRPhase: ph})
		out = append(out, Scenario{Shape: "fraction", Groups: []int{1}, Fraction: true, CMAnn: true, BRPhase: ph, Stale: []int{1}})
	}
	for _, n := range []int{1, 2} {
		out = append(out, Scenario{Shape: "whole", PodNode: n})
		out = append(out, Scenario{Shape: "fraction", Groups: []int{1}, Fraction: true, CMAnn: true, PodNode: n, BRPhase: "Failed"})
	}
	out = append(out, Scenario{Shape: "fraction", Groups: nil, Fraction: true, CMAnn: true})         // InvalidCrdWarning path
	out = append(out, Scenario{Shape: "fraction", Groups: []int{1}, Fraction: true, CMAnn: false})   // no config-map annotation
	out = append(out, Scenario{Shape: "fraction", Groups: []int{1, 2}, Fraction: true, CMAnn: true}) // two groups, not multi-fraction
	out = append(out, Scenario{Shape: "whole", NodeMissing: true})
	out = append(out, Scenario{Shape: "multifraction", Groups: []int{1, 2}, Fraction: true, CMAnn: true, MultiAnn: true, Orphans: []int{1}})
	return out
}

func copyFaults(f map[int]string) map[int]string {
	g := map[int]string{}
	for k, v := range f {
		g[k] = v
	}
	return g
}

func copyEnv(e map[int][]string) map[int][]string {
	g := map[int][]string{}
	for k, v := range e {
		g[k] = append([]string{}, v...)
	}
	return g
}

// envKinds lists what other actors can do in a scenario.
func envKinds(sc Scenario) []string {
	ks := []string{envBindElsewhere, envTerminate, envRemove, envRecreate, envDeleteBR}
	if sc.Fraction && len(sc.Groups) > 0 {
		ks = append(ks, fmt.Sprintf("%s%d", envDeleteRsvPfx, sc.Groups[0]))
		if last := sc.Groups[len(sc.Groups)-1]; last != sc.Groups[0] {
			ks = append(ks, fmt.Sprintf("%s%d", envDeleteRsvPfx, last))
		}
	}
	return ks
}

var reGroup = regexp.MustCompile(`\(group \d+\)`)

// keyPositions: the calls around which an interleaved change matters most (before the reconciler reads the
// pod, before the first label patch, before the annotation patch, before the binding call, before the status patch).
func keyPositions(log []Call) []int {
	seen := map[string]bool{}
	out := []int{}
	for k, c := range log {
		name := reGroup.ReplaceAllString(pointName(c), "")
		switch name {
		case "get-pod", "label-patch", "patch-received-type", "binding", "status-patch":
			if !seen[name] {
				seen[name] = true
				out = append(out, k)
			}
		}
	}
	return out
}

// Run. Fault free: the corpus and every base scenario. Then, for every base
// scenario and every API call k of its fault-free run: a failure of every error
// kind the API server can answer that call's verb with, and a crash (typed
// single faults, exhaustive); for the core scenarios every interleaved change
// of another actor right before every call k, for the others before the key
// calls (single interleavings). Thorough: every interleaving before every call
// of every base scenario, and a second fault (InternalError / crash) at every
// later call of every run with one typed fault or one interleaved change. Then
// n random draws of up to three events (typed faults and interleaved changes).
func Run(dir string, seed uint64, n int, tier string) error {
	out := u.NewOut(dir, "C11", "KaiV.Run.C11", "case", 120)
	out.Flags = true
	scs := baseScenarios()
	core := map[int]bool{0: true, 1: true, 2: true, 4: true, 7: true, 9: true}

	// phase 1: fault free
	jobs := []job{}
	corpus := corpusScenarios()
	for _, sc := range corpus {
		jobs = append(jobs, job{sc, map[int]string{}, map[int][]string{}, "corpus"})
	}
	for _, sc := range scs {
		jobs = append(jobs, job{sc, map[int]string{}, map[int][]string{}, "exhaustive"})
	}
	free, err := runAll(out, jobs)
	if err != nil {
		return err
	}

	// phase 2: single typed faults and single interleavings
	jobs = []job{}
	for ci, sc := range corpus {
		log := free[ci].first.log
		for k := range log {
			jobs = append(jobs, job{sc, map[int]string{k: "Fail:Internal"}, map[int][]string{}, "corpus"})
			if verbOf(log[k]) == "get" {
				jobs = append(jobs, job{sc, map[int]string{k: "Fail:NotFound"}, map[int][]string{}, "corpus"})
			}
		}
		for _, e := range envKinds(sc) {
			for k := 0; k < 2 && k < len(log); k++ {
				jobs = append(jobs, job{sc, map[int]string{}, map[int][]string{k: {e}}, "corpus"})
			}
		}
	}
	type single struct {
		sc     Scenario
		faults map[int]string
		env    map[int][]string
		k      int
		ji     int // index in jobs
	}
	singles := []single{}
	for si, sc := range scs {
		log := free[len(corpus)+si].first.log
		for k := range log {
			for _, kind := range kindsFor(verbOf(log[k])) {
				f := map[int]string{k: "Fail:" + kind}
				singles = append(singles, single{sc, f, map[int][]string{}, k, len(jobs)})
				jobs = append(jobs, job{sc, f, map[int][]string{}, "exhaustive"})
			}
			jobs = append(jobs, job{sc, map[int]string{k: "Crash"}, map[int][]string{}, "exhaustive"})
		}
		positions := keyPositions(log)
		if core[si] || tier == "thorough" {
			positions = positions[:0]
			for k := range log {
				positions = append(positions, k)
			}
		}
		for _, k := range positions {
			for _, e := range envKinds(sc) {
				ev := map[int][]string{k: {e}}
				singles = append(singles, single{sc, map[int]string{}, ev, k, len(jobs)})
				jobs = append(jobs, job{sc, map[int]string{}, ev, "interleaved"})
			}
		}
	}
	res, err := runAll(out, jobs)
	if err != nil {
		return err
	}

	// phase 3 (thorough): a second, generic fault at every later call
	if tier == "thorough" {
		jobs = []job{}
		for _, s := range singles {
			calls := len(res[s.ji].first.log)
			if k := faultKind(s.faults[s.k]); len(s.faults) == 1 && (k == "Timeout" || k == "Forbidden") {
				continue // they take the same path as InternalError: pairs from that one
			}
			second := []string{"Fail:Internal", "Crash"}
			if len(s.env) > 0 {
				second = second[:1] // after an interleaved change: one generic failure at every later call
			}
			for j := s.k + 1; j < calls; j++ {
				for _, kind := range second {
					f := copyFaults(s.faults)
					f[j] = kind
					jobs = append(jobs, job{s.sc, f, copyEnv(s.env), "pairs"})
				}
			}
		}
		if _, err := runAll(out, jobs); err != nil {
			return err
		}
	}

	// phase 4: random draws of up to three events
	root := u.NewRng(seed)
	jobs = []job{}
	for i := 0; i < n && len(singles) > 0; i++ {
		r := root.Fork(uint64(i))
		s := u.Pick(r, singles)
		log := res[s.ji].first.log
		calls := len(log)
		f, ev := copyFaults(s.faults), copyEnv(s.env)
		extra := 1
		if r.Chance(1, 3) {
			extra = 2
		}
		for x := 0; x < extra && calls > s.k+1; x++ {
			j := r.Range(s.k+1, calls-1)
			if r.Chance(1, 3) {
				ev[j] = append(ev[j], u.Pick(r, envKinds(s.sc)))
			} else if _, dup := f[j]; !dup {
				kinds := []string{"Crash"}
				for _, kd := range kindsFor(verbOf(log[j])) {
					kinds = append(kinds, "Fail:"+kd)
				}
				f[j] = u.Pick(r, kinds)
			}
		}
		jobs = append(jobs, job{s.sc, f, ev, "random"})
	}
	if _, err := runAll(out, jobs); err != nil {
		return err
	}
	out.Stats["rule"] = "every base scenario (whole GPU, fraction, multi-fraction 2 and 3 groups, with shared / bare reservation pods, stale labels, pre-existing config maps, silent device plugin, failing k8s plugin, retry states) under (a) every single typed fault: at every API call k of its fault-free run a failure of every error kind the API server can answer that verb with (get/delete: InternalError, ServerTimeout, NotFound, Forbidden; create: InternalError, ServerTimeout, AlreadyExists, Forbidden; patch/update/binding: InternalError, ServerTimeout, NotFound, Conflict, Forbidden; list/watch: InternalError, ServerTimeout, Forbidden) and a crash at k; (b) every single interleaved change of another actor (pod bound to another node by a direct binding, pod deleted and terminating, pod deleted and gone, pod re-created under the same name with another UID, BindRequest deleted, reservation pods of the first / last group deleted) right before call k: every k for the 6 core scenarios, the key calls (get-pod, first label patch, annotation patch, binding call, status patch) for the others; thorough: (b) before every call of every scenario and a second InternalError / crash at every later call of every run of (a) and (b); plus n random draws of two or three events; the corpus (no-op and malformed inputs) fault free, with InternalError at every call, NotFound at every get and every interleaved change before calls 0 and 1; every run is followed - after the bare reservation pods report their device and one fault-free reservation Sync - by a fault-free second reconcile which is a case of its own; non-trivial = an injected fault or an interleaved change was reached or Rollback ran; distinct by (scenario, fault vector, interleaving)"
	return out.Flush()
}

func (w *world) annotateBareReservations() {
	ctx := context.Background()
	pods := &v1.PodList{}
	_ = w.base.List(ctx, pods)
	for i := range pods.Items {
		p := &pods.Items[i]
		if p.Namespace != rsvNS {
			continue
		}
		if _, ok := p.Annotations[annIdx]; ok {
			continue
		}
		if p.Annotations == nil {
			p.Annotations = map[string]string{}
		}
		g, _ := gid(p.Labels[lblGroup])
		p.Annotations[annIdx] = fmt.Sprint(30 + g)
		_ = w.base.Update(ctx, p)
	}
}
