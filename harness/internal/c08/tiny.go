package c08

// TINY requests (seeded/C08-5): requests that are small but not zero -- a 0.01 GPU fraction, 1-9 milli-CPUs, 1 byte to
// 9 MiB of memory, in every combination with zero -- against caps that are small or 0 at the leaf or at an ancestor,
// so that it takes several such pods to cross a cap. The capacity gates compare exactly (a request of exactly zero in
// a resource skips that resource, nothing else does): no request is too small to count. ResourceRequirements.IsEmpty()
// of the node-fitting code is a tolerance test (cpu < 10m, memory < 10 MiB, gpu <= 0.01); every request generated here
// lies below that tolerance in every resource at once (the controls lie just above it).
//
// Exactness: milli-CPUs and bytes are integers. A hundredth of a GPU is not a float64; the code computes it as
// float64(1)/100 and Q (world.go) prints that float64 as 1/100. Sums of it are exact in that reading only up to
// 0.01 + 0.01 = 0.02, so wherever 0.01-GPU pods can be placed some queue of their chain -- here always the root --
// has a GPU limit of at most 0.02 and nothing else uses GPUs below it: on the unchanged tree no queue ever holds
// more than two of them. (A tree that lets more of them through is caught either way; the numbers of its alarm are
// then float64 sums.) Memory caps are whole MB (queue quotas are given to the plugin in MB).

import (
	"fmt"

	u "kaiverif/internal/util"
)

const mib = 1 << 20

var (
	tinyCPUs    = []int64{0, 0, 1, 3, 5, 5, 9}
	tinyMems    = []int64{0, 0, 1, 999999, 1000000, mib, 5 * mib, 9 * mib}
	tinyCpuCaps = []float64{0, 0, 5, 10, 12, 20}
	tinyMemCaps = []float64{0, 0, 1e6, 2e6, 10e6, 20e6}
	tinyGpuCaps = []float64{0, 0.01, 0.02, 0.02}
	tinyNodeMem = []int64{100, 100, 8000, 16384}
)

// genTinyTask: a pod whose whole request lies below the tolerance of IsEmpty. gpu: it asks a 0.01 GPU fraction.
func genTinyTask(r *u.Rng, name string, gpu bool) tspec {
	t := tspec{Name: name, Kind: kCPU, NodeMem: u.Pick(r, tinyNodeMem), CPUm: u.Pick(r, tinyCPUs), MemB: u.Pick(r, tinyMems)}
	if gpu {
		t.Kind = kFraction
		t.Portion = "0.01"
		t.N = u.Pick(r, []int64{0, 0, 1})
	}
	return t
}

func pickCap(r *u.Rng, caps []float64, finite int) float64 {
	if r.Intn(10) < finite {
		return u.Pick(r, caps)
	}
	return -1
}

// tinyCaps overwrites the caps of a forest: CPU / memory caps from the tiny sets at 3 of 10 places, GPU caps at 4 of
// 10 places and a GPU limit of 0.01 / 0.02 (rarely 0) on every root.
func tinyCaps(r *u.Rng, qs []qspec) {
	for i := range qs {
		qs[i].Lim = [3]float64{pickCap(r, tinyCpuCaps, 3), pickCap(r, tinyMemCaps, 3), pickCap(r, tinyGpuCaps, 4)}
		qs[i].Des = [3]float64{pickCap(r, tinyCpuCaps, 3), pickCap(r, tinyMemCaps, 3), pickCap(r, tinyGpuCaps, 4)}
		if qs[i].Parent == "" {
			qs[i].Lim[2] = u.Pick(r, []float64{0.02, 0.02, 0.02, 0.01, 0})
		}
	}
}

// ---- direct stream -------------------------------------------------------------------------------

// genTinyDirect: hand-set Allocated / AllocatedNotPreemptible at, just below and just above tiny caps; a job of one
// tiny pod (1 in 4: two, whose sum may reach the tolerance).
func genTinyDirect(r *u.Rng) directCase {
	qs := genTree(r)
	tinyCaps(r, qs)
	near := func(cap float64, k int) float64 {
		switch k {
		case 0:
			base := cap
			if base < 0 || r.Chance(1, 4) {
				base = float64(r.Range(0, 30))
			}
			v := base + float64(r.Range(-10, 5))
			if v < 0 {
				v = 0
			}
			return v
		case 1:
			base := cap
			if base < 0 || r.Chance(1, 4) {
				base = float64(r.Range(0, 20)) * 1e6
			}
			v := base + u.Pick(r, []float64{-9 * mib, -1e6, -mib, -1, 0, 0, 1, 1e6})
			if v < 0 {
				v = 0
			}
			return v
		default:
			return u.Pick(r, []float64{0, 0, 0.01, 0.02})
		}
	}
	for i := range qs {
		for k := 0; k < 3; k++ {
			qs[i].Alloc[k] = near(qs[i].Lim[k], k)
			qs[i].NP[k] = near(qs[i].Des[k], k)
			if qs[i].NP[k] > qs[i].Alloc[k] {
				qs[i].NP[k] = qs[i].Alloc[k]
			}
		}
	}
	j := jspec{Name: "job", Queue: qs[r.Intn(len(qs))].Name, Preemptible: r.Bool()}
	n := 1
	if r.Chance(1, 4) {
		n = 2
	}
	for i := 0; i < n; i++ {
		j.Tasks = append(j.Tasks, genTinyTask(r, fmt.Sprintf("job-t%d", i), r.Chance(1, 2)))
	}
	return directCase{Queues: qs, Job: j}
}

// ---- session stream ------------------------------------------------------------------------------

func tinyOne(name, queue string, pre bool, t tspec) jspec {
	t.Name = name + "-t0"
	if t.NodeMem == 0 {
		t.NodeMem = 100
	}
	return jspec{Name: name, Queue: queue, Preemptible: pre, Tasks: []tspec{t}}
}

// the pod of the README of seeded/C08-5: a 0.01 GPU fraction with 5m CPU and 1 MB of memory; its CPU-only pod: 5m CPU
var (
	readmeGpuPod = tspec{Kind: kFraction, Portion: "0.01", CPUm: 5, MemB: 1000000}
	readmeCpuPod = tspec{Kind: kCPU, CPUm: 5}
)

func unl() [3]float64 { return [3]float64{-1, -1, -1} }

// readmeQueues: department-a over queue0 and queue1 with the given GPU limits (leaf queue0, department).
func readmeQueues(limQ0, limDept float64) []qspec {
	return []qspec{
		{Name: "department-a", Parent: "", Lim: [3]float64{-1, -1, limDept}, Des: unl()},
		{Name: "queue0", Parent: "department-a", Lim: [3]float64{-1, -1, limQ0}, Des: unl()},
		{Name: "queue1", Parent: "department-a", Lim: unl(), Des: unl()},
	}
}

// tinySeqCorpus: the four scenarios of seeded/C08-5's README, the harness playing AllocateJob once per pod (one-pod
// workloads; the elastic workload = one attempt per pod). The GPU caps are the README's scaled to 0.01 / 0.02 (its
// 0.02 / 0.03, control 0.02 / 0.04 for its 0.04 / 0.06) because 0.03 is not a float64 sum of 0.01s.
func tinySeqCorpus() []seqCase {
	adm := func(j jspec) seqStep { return seqStep{Op: "admit", Job: &j} }
	var out []seqCase
	// 1. fractional GPUs, leaf and ancestor: six one-pod workloads in queue0, four in queue1
	{
		c := seqCase{NoFair: true, Queues: readmeQueues(0.01, 0.02)}
		for i := 0; i < 6; i++ {
			c.Steps = append(c.Steps, adm(tinyOne(fmt.Sprintf("q0-job%d", i), "queue0", true, readmeGpuPod)))
		}
		for i := 0; i < 4; i++ {
			c.Steps = append(c.Steps, adm(tinyOne(fmt.Sprintf("q1-job%d", i), "queue1", true, readmeGpuPod)))
		}
		out = append(out, c)
	}
	// 2. limit 0: queue0 has CPU limit 0, five CPU-only one-pod workloads of 5m
	{
		c := seqCase{NoFair: true, Queues: []qspec{{Name: "default", Parent: "", Lim: unl(), Des: unl()},
			{Name: "queue0", Parent: "default", Lim: [3]float64{0, -1, -1}, Des: unl()}}}
		for i := 0; i < 5; i++ {
			c.Steps = append(c.Steps, adm(tinyOne(fmt.Sprintf("cpu-job%d", i), "queue0", true, readmeCpuPod)))
		}
		out = append(out, c)
	}
	// 3. elastic growth of a non-preemptible workload: six attempts of one 0.01-GPU pod, deserved GPU quota 0.02
	{
		c := seqCase{NoFair: true, Queues: []qspec{{Name: "department-a", Parent: "", Lim: [3]float64{-1, -1, 0.02}, Des: unl()},
			{Name: "queue0", Parent: "department-a", Lim: unl(), Des: [3]float64{-1, -1, 0.02}}}}
		for i := 0; i < 6; i++ {
			c.Steps = append(c.Steps, adm(tinyOne(fmt.Sprintf("elastic-build-job-%d", i), "queue0", false, readmeGpuPod)))
		}
		out = append(out, c)
	}
	// 4. control: pods of 0.02 GPU (above the tolerance), limits 0.02 / 0.04
	{
		pod := readmeGpuPod
		pod.Portion = "0.02"
		c := seqCase{NoFair: true, Queues: readmeQueues(0.02, 0.04)}
		for i := 0; i < 3; i++ {
			c.Steps = append(c.Steps, adm(tinyOne(fmt.Sprintf("q0-job%d", i), "queue0", true, pod)))
		}
		for i := 0; i < 3; i++ {
			c.Steps = append(c.Steps, adm(tinyOne(fmt.Sprintf("q1-job%d", i), "queue1", true, pod)))
		}
		out = append(out, c)
	}
	// further boundaries: memory limit 2 MB at the top of a chain of three, pods of 1 MB, 999999 B, 1 B, 1 B;
	// deserved CPU 12m at the middle, non-preemptible pods of 5m; limit 0 memory, pods of 1 byte
	out = append(out, seqCase{NoFair: true, Queues: []qspec{{Name: "top", Parent: "", Lim: [3]float64{-1, 2e6, -1}, Des: unl()},
		{Name: "mid", Parent: "top", Lim: unl(), Des: [3]float64{12, -1, -1}}, {Name: "leaf", Parent: "mid", Lim: [3]float64{-1, 0, -1}, Des: unl()},
		{Name: "leaf2", Parent: "mid", Lim: unl(), Des: unl()}},
		Steps: []seqStep{
			adm(tinyOne("a", "leaf", true, tspec{Kind: kCPU, MemB: 1})),
			adm(tinyOne("b", "leaf2", true, tspec{Kind: kCPU, MemB: 1000000})),
			adm(tinyOne("c", "leaf2", true, tspec{Kind: kCPU, MemB: 999999})),
			adm(tinyOne("d", "leaf2", true, tspec{Kind: kCPU, MemB: 1})),
			adm(tinyOne("e", "leaf2", true, tspec{Kind: kCPU, MemB: 1})),
			adm(tinyOne("f", "leaf2", false, tspec{Kind: kCPU, CPUm: 5})),
			adm(tinyOne("g", "leaf2", false, tspec{Kind: kCPU, CPUm: 5})),
			adm(tinyOne("h", "leaf2", false, tspec{Kind: kCPU, CPUm: 5})),
			adm(tinyOne("i", "leaf2", false, tspec{Kind: kCPU, CPUm: 1})),
			adm(tinyOne("k", "leaf2", false, tspec{Kind: kCPU, CPUm: 1})),
			adm(tinyOne("l", "leaf2", false, tspec{Kind: kCPU, CPUm: 1})),
			{Op: "release", Task: "f-t0"},
			adm(tinyOne("m", "leaf2", false, tspec{Kind: kCPU, CPUm: 5})),
			adm(tinyOne("n", "leaf2", false, tspec{Kind: kCPU})), // asks nothing at all: always admitted
		}})
	return out
}

// genTinySeq: a forest with tiny caps, a snapshot with up to three tiny pods already holding resources (at most one of
// them a GPU pod), then 8-14 decisions: mostly admissions of one-pod workloads of tiny requests concentrated on one
// or two queues (so that the caps are reached and crossed), part of them non-preemptible, now and then committed
// (with and without a failing bind), released, or only probed.
func genTinySeq(r *u.Rng) seqCase {
	c := seqCase{NoFair: true, Queues: genTree(r)}
	tinyCaps(r, c.Queues)
	pickQ := func() string {
		best := c.Queues[r.Intn(len(c.Queues))].Name
		for k := 0; k < 2; k++ {
			cand := c.Queues[r.Intn(len(c.Queues))].Name
			if depthOf(c.Queues, cand) > depthOf(c.Queues, best) {
				best = cand
			}
		}
		return best
	}
	focus := []string{pickQ(), pickQ()}
	var live []string
	gpuInit := false
	for i, n := 0, r.Intn(4); i < n; i++ {
		gpu := !gpuInit && r.Chance(1, 3)
		gpuInit = gpuInit || gpu
		j := tinyOne(fmt.Sprintf("s%d", i), u.Pick(r, focus), r.Bool(), genTinyTask(r, "", gpu))
		j.Tasks[0].State = u.Pick(r, []string{"running", "binding", "bound", "pending", "releasing"})
		c.Init = append(c.Init, j)
		live = append(live, j.Tasks[0].Name)
	}
	elasticNP := r.Chance(1, 3) // a run of non-preemptible one-pod attempts in one queue (elastic growth)
	for i, n := 0, r.Range(8, 14); i < n; i++ {
		q := u.Pick(r, focus)
		if r.Chance(1, 6) {
			q = pickQ()
		}
		pre := r.Chance(2, 3)
		if elasticNP && q == focus[0] {
			pre = false
		}
		j := tinyOne(fmt.Sprintf("j%d", i), q, pre, genTinyTask(r, "", r.Chance(2, 5)))
		switch k := r.Intn(12); {
		case k == 0:
			c.Steps = append(c.Steps, seqStep{Op: "probe", Job: &j})
		case k == 1 && len(live) > 0:
			ix := r.Intn(len(live))
			c.Steps = append(c.Steps, seqStep{Op: "release", Task: live[ix]})
			live = append(live[:ix], live[ix+1:]...)
		default:
			c.Steps = append(c.Steps, seqStep{Op: "admit", Job: &j})
			live = append(live, j.Tasks[0].Name)
			if r.Chance(1, 4) {
				fail := 0
				if r.Chance(1, 3) {
					fail = 1
				}
				c.Steps = append(c.Steps, seqStep{Op: "commit", Of: j.Name, Fail: fail})
			}
		}
	}
	return c
}

// ---- action stream -------------------------------------------------------------------------------

func tinyNode() []anode { return []anode{{Name: "node0", GPUs: 8, GpuMem: 100}} }

// tinyActionCorpus: the README's four scenarios through the REAL allocate action (scenario 3 with a real elastic
// PodGroup: minMember 1, six pods, priority 110 = non-preemptible), plus scenario 1 through all four actions.
func tinyActionCorpus() []*acluster {
	mk := func(family string, queues []qspec, acts []string, jobs func(g *agen)) *acluster {
		c := &acluster{Family: "corpus/tiny/" + family, Nodes: tinyNode(), Queues: queues, Actions: acts}
		jobs(&agen{c: c})
		return c
	}
	pod := func(t tspec) []tspec { t.NodeMem = 100; return []tspec{t} }
	alloc := []string{"allocate"}
	var out []*acluster
	s1 := func(g *agen) {
		for i := 0; i < 6; i++ {
			g.addJob("queue0", 50, pod(readmeGpuPod))
		}
		for i := 0; i < 4; i++ {
			g.addJob("queue1", 50, pod(readmeGpuPod))
		}
	}
	out = append(out, mk("ten-0.01-gpu-pods-leaf-limit-0.01-department-limit-0.02", readmeQueues(0.01, 0.02), alloc, s1))
	out = append(out, mk("five-5m-cpu-pods-leaf-cpu-limit-0", []qspec{{Name: "default", Parent: "", Lim: unl(), Des: unl()},
		{Name: "queue0", Parent: "default", Lim: [3]float64{0, -1, -1}, Des: unl()}}, alloc, func(g *agen) {
		for i := 0; i < 5; i++ {
			g.addJob("queue0", 50, pod(readmeCpuPod))
		}
	}))
	out = append(out, mk("elastic-non-preemptible-six-0.01-gpu-pods-deserved-0.02",
		[]qspec{{Name: "department-a", Parent: "", Lim: [3]float64{-1, -1, 0.02}, Des: unl()},
			{Name: "queue0", Parent: "department-a", Lim: unl(), Des: [3]float64{-1, -1, 0.02}}}, alloc, func(g *agen) {
			var pods []tspec
			for i := 0; i < 6; i++ {
				pods = append(pods, pod(readmeGpuPod)...)
			}
			g.addJob("queue0", 110, pods).MinAvail = 1
		}))
	out = append(out, mk("control-0.02-gpu-pods-leaf-limit-0.02-department-limit-0.04", readmeQueues(0.02, 0.04), alloc, func(g *agen) {
		p := readmeGpuPod
		p.Portion = "0.02"
		for i := 0; i < 3; i++ {
			g.addJob("queue0", 50, pod(p))
		}
		for i := 0; i < 3; i++ {
			g.addJob("queue1", 50, pod(p))
		}
	}))
	out = append(out, mk("ten-0.01-gpu-pods-all-actions", readmeQueues(0.01, 0.02),
		[]string{"allocate", "consolidation", "reclaim", "preempt"}, s1))
	// elastic preemptible workload of 1-byte pods against a memory limit of 0 at the department
	out = append(out, mk("elastic-five-1-byte-pods-department-memory-limit-0",
		[]qspec{{Name: "department-a", Parent: "", Lim: [3]float64{-1, 0, -1}, Des: unl()},
			{Name: "queue0", Parent: "department-a", Lim: unl(), Des: unl()}}, alloc, func(g *agen) {
			var pods []tspec
			for i := 0; i < 5; i++ {
				pods = append(pods, pod(tspec{Kind: kCPU, MemB: 1})...)
			}
			g.addJob("queue0", 50, pods).MinAvail = 1
		}))
	return out
}

// genTinyAction: one node, a queue tree of depth 1-3 (leaves a, b) with tiny caps, 5-10 pending one-pod workloads of
// tiny requests and in half of the clusters an elastic workload (minMember 1) of 3-6 tiny pods, preemptible
// (priority 50 / 75) or not (110); the real allocate action, in a quarter of the clusters followed by the others.
func genTinyAction(r *u.Rng) *acluster {
	c := &acluster{Family: "tiny", Nodes: tinyNode(), Actions: []string{"allocate"}}
	g := &agen{r: r, c: c}
	g.tree(r.Range(1, 3), "a", "b")
	tinyCaps(r, c.Queues)
	if r.Chance(1, 4) {
		c.Actions = []string{"allocate", "consolidation", "reclaim", "preempt"}
	}
	prio := func() int32 { return u.Pick(r, []int32{50, 50, 75, 110, 110}) }
	one := func(gpu bool) tspec {
		t := genTinyTask(r, "", gpu)
		t.NodeMem = 100
		return t
	}
	if r.Chance(1, 2) {
		gpu := r.Chance(1, 2)
		var pods []tspec
		proto := one(gpu)
		for i, n := 0, r.Range(3, 6); i < n; i++ {
			pods = append(pods, proto)
		}
		g.addJob("a", prio(), pods).MinAvail = 1
	}
	for i, n := 0, r.Range(5, 10); i < n; i++ {
		q := "a"
		if r.Chance(1, 4) {
			q = "b"
		}
		g.addJob(q, prio(), []tspec{one(r.Chance(2, 5))})
	}
	return c
}

// runTiny emits the tiny cases of all three streams.
func runTiny(out *u.Out, root *u.Rng, n int, emitDirect func(directCase, string), emitSeq func(seqCase, string) map[string]endPod) {
	for _, c := range tinySeqCorpus() {
		emitSeq(withSweep(c), "tiny-corpus")
	}
	for i := 0; i < n/20; i++ {
		emitDirect(genTinyDirect(root.Fork(uint64(9000000+i))), "tiny-direct")
	}
	for i := 0; i < n/30; i++ {
		emitSeq(genTinySeq(root.Fork(uint64(9100000+i))), "tiny-seq")
	}
	clusters := tinyActionCorpus()
	for i := 0; i < n/60; i++ {
		clusters = append(clusters, genTinyAction(root.Fork(uint64(9200000+i))))
	}
	emitActions(out, clusters)
}
