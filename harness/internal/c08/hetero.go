package c08

// hetero.go: action-stream sessions on clusters that MIX GPU MODELS (nodes whose GPUs have different memory sizes).
//
// A gpu-memory request is a different share of a GPU on every model: ceil(100 * gpuMemory / MemoryOfEveryGpuOnNode) / 100
// (NodeInfo.GetRequiredInitQuota for the node-level capacity gate, NodeInfo.setAcceptedResources for what the allocate
// handler charges). The job-level gate counts such a request as 0 GPUs, so the node-level gate -- evaluated by the
// predicates plugin for every candidate node of an allocation attempt, BEFORE the node's other predicates (resource
// type, max pods, node conditions, node affinity / selector, taints, pod affinity, ...) -- is the only thing that keeps
// these pods within the queue's GPU limit and, for non-preemptible jobs, within the deserved quota. The share that
// counts is the one of the node the pod ends up on; a candidate node that passes the gate and is then dropped by a
// later predicate has a DIFFERENT share.
//
// Worlds: 2-3 nodes of 2-3 GPU models (memory 100/500, 100/300, 100/200/400, 200/800, 16384/40960/81920 MiB by label, ...),
// some GPUs busy with running whole-GPU pods of another queue so that the node-order plugins (bin packing) rank the
// nodes in varying orders; a queue tree of depth 1-2 whose leaf or department has a GPU limit of 1-2 GPUs above what
// it holds (and, for non-preemptible jobs, a deserved quota of 1-2 GPUs); 3-8 pending single-pod jobs: gpu-memory
// requests (single device) that are a quarter / half / three quarters of a GPU of ONE of the models, some fractions
// and whole GPUs; part of the pods pinned to a subset of the nodes by required node affinity, by a node selector on
// the model label, or by not tolerating the taint that the nodes of one model carry.
//
// Exactness: a pod may only land on nodes on which its share is 0.25, 0.5, 0.75 or 1 (exact in float64, so that the
// plugin's float sums can be compared with the model's rationals); the pins see to that. On the nodes it is pinned
// away from its share is arbitrary (13/100, ...): there it is only an argument of the gate, far from any cap's cliff.

import (
	"fmt"
	"sort"

	u "kaiverif/internal/util"
)

// memSets: the GPU models of a cluster (MemoryOfEveryGpuOnNode, label value when it differs), biggest first.
var memSets = [][][2]int64{
	{{500, 0}, {100, 0}},
	{{300, 0}, {100, 0}},
	{{400, 0}, {100, 0}},
	{{200, 0}, {100, 0}},
	{{400, 0}, {200, 0}, {100, 0}},
	{{800, 0}, {200, 0}},
	{{40900, 40960}, {16300, 16384}},
	{{81900, 81920}, {40900, 40960}, {16300, 16384}},
	{{40000, 0}, {8000, 0}},
}

// shareOn: the share of a GPU (in hundredths) a gpu-memory request of mem MiB takes on a GPU of nodeMem MiB.
func shareOn(mem, nodeMem int64) int64 { return (mem*100 + nodeMem - 1) / nodeMem }

func exactShare(h int64) bool { return h == 25 || h == 50 || h == 75 || h == 100 }

type hgen struct {
	*agen
	tainted string // model whose nodes carry the taint ("" = none)
}

func (g *hgen) nodesOfModel(m string) []string {
	var out []string
	for _, n := range g.c.Nodes {
		if n.model() == m {
			out = append(out, n.Name)
		}
	}
	return out
}

// pin restricts pod t to the nodes in allowed (a non-empty subset of the cluster's nodes) by one of the mechanisms.
func (g *hgen) pin(t *tspec, allowed []string) {
	r := g.r
	in := map[string]bool{}
	for _, n := range allowed {
		in[n] = true
	}
	// does the taint already do it? (allowed = every node that is not tainted)
	if g.tainted != "" {
		exact := true
		for _, n := range g.c.Nodes {
			if (n.model() != g.tainted) != in[n.Name] {
				exact = false
			}
		}
		if exact && r.Chance(2, 3) {
			t.Tolerate = false
			return
		}
	}
	t.Tolerate = true
	// a node selector on the model label when the allowed nodes are exactly the nodes of one model
	models := map[string]bool{}
	for _, n := range g.c.Nodes {
		if in[n.Name] {
			models[n.model()] = true
		}
	}
	if len(models) == 1 {
		for m := range models {
			if len(g.nodesOfModel(m)) == len(allowed) && r.Chance(1, 2) {
				t.Selector = map[string]string{nodeModelLabel: m}
				return
			}
		}
	}
	if len(allowed) == 1 && r.Chance(1, 3) {
		t.Selector = map[string]string{nodeNameLabel: allowed[0]}
		return
	}
	t.Affinity = append([]string{}, allowed...)
	sort.Strings(t.Affinity)
}

// memPod: a single-device gpu-memory pod asking `hundredths` of a GPU of the model with memory target. It may land on
// every node on which its share is exact; with probability 1/2 (always when that is not every node) it is pinned to a
// non-empty subset of these.
func (g *hgen) memPod(target int64, hundredths int64) tspec {
	r := g.r
	t := tspec{Kind: kGpuMem, GpuMem: target * hundredths / 100, NodeMem: target, Tolerate: true}
	if r.Chance(1, 3) {
		t.N = 1 // gpu-fraction-num-devices: "1" (absent otherwise)
	}
	var ok []string
	for _, n := range g.c.Nodes {
		if exactShare(shareOn(t.GpuMem, n.GpuMem)) {
			ok = append(ok, n.Name)
		}
	}
	if len(ok) == len(g.c.Nodes) && r.Chance(1, 2) {
		if g.tainted != "" && r.Chance(1, 3) {
			g.pin(&t, g.untainted())
		}
		return t
	}
	// a subset: the nodes of the target model (the usual "pin my pods to GPU model X"), or any
	var sub []string
	if r.Chance(2, 3) {
		for _, n := range g.c.Nodes {
			if n.GpuMem == target {
				sub = append(sub, n.Name)
			}
		}
	} else {
		for _, n := range ok {
			if r.Bool() {
				sub = append(sub, n)
			}
		}
		if len(sub) == 0 {
			sub = []string{u.Pick(r, ok)}
		}
	}
	g.pin(&t, sub)
	return t
}

func (g *hgen) untainted() []string {
	var out []string
	for _, n := range g.c.Nodes {
		if n.model() != g.tainted {
			out = append(out, n.Name)
		}
	}
	return out
}

// hcharge: what the pod will be charged at most (on the node, among those it may land on, where its share is largest).
func (g *hgen) hcharge(t tspec) float64 {
	switch t.Kind {
	case kGpuMem:
		best := int64(0)
		for _, n := range g.c.Nodes {
			if h := shareOn(t.GpuMem, n.GpuMem); exactShare(h) && h > best {
				best = h
			}
		}
		return float64(best) / 100
	default:
		return estCharge(t)[2]
	}
}

// genHetero: one session on a cluster mixing GPU models.
func genHetero(r *u.Rng) *acluster {
	c := &acluster{Family: "hetero"}
	g := &hgen{agen: &agen{r: r, c: c, loose: 1}}
	set := u.Pick(r, memSets)
	nn := len(set)
	if nn == 2 && r.Chance(1, 3) {
		nn = 3 // two nodes of one of the models
	}
	for i := 0; i < nn; i++ {
		m := set[i%len(set)]
		c.Nodes = append(c.Nodes, anode{Name: fmt.Sprintf("n%d", i), GPUs: r.Range(2, 4), GpuMem: m[0], MemLabel: m[1]})
	}
	// the node list is a map in the session: its order plays no role. The ranking comes from the busy GPUs.
	if r.Chance(1, 4) {
		g.tainted = c.Nodes[r.Intn(2)].model() // the biggest or the second model
		for i := range c.Nodes {
			c.Nodes[i].Taint = c.Nodes[i].model() == g.tainted
		}
	}
	depth := r.Range(1, 2)
	g.tree(depth, "a", "b")
	// busy GPUs: running whole-GPU pods of queue b (unlimited). The bigger models are busier more often than not: bin
	// packing then tries them first.
	for i, n := range c.Nodes {
		busy := 0
		switch {
		case i == 0 && r.Chance(2, 3):
			busy = r.Range(1, n.GPUs-1)
		case r.Chance(1, 3):
			busy = r.Range(1, n.GPUs-1)
		}
		for k := 0; k < busy; k++ {
			g.addJob("b", 50, []tspec{{Kind: kWhole, N: 1, NodeMem: n.GpuMem, State: "running", Node: n.Name, Tolerate: true}})
		}
	}
	// now and then queue a already holds a running GPU
	if r.Chance(1, 4) {
		n := u.Pick(r, c.Nodes)
		g.addJob("a", u.Pick(r, []int32{50, 110}), []tspec{{Kind: kWhole, N: 1, NodeMem: n.GpuMem, State: "running", Node: n.Name, Tolerate: true}})
	}
	// pending single-pod jobs of queue a (a few of b)
	smallest := set[len(set)-1][0]
	np := r.Range(3, 8)
	want, wantNP := 0.0, 0.0
	for k := 0; k < np; k++ {
		var t tspec
		switch x := r.Intn(20); {
		case x < 14:
			target := smallest
			if r.Chance(1, 4) {
				target = u.Pick(r, set)[0]
			}
			t = g.memPod(target, u.Pick(r, []int64{25, 50, 50, 75, 75, 100}))
		case x < 17:
			t = tspec{Kind: kFraction, Portion: u.Pick(r, []string{"0.25", "0.5", "0.75"}), N: u.Pick(r, []int64{0, 1}), NodeMem: smallest, Tolerate: true}
			if r.Chance(1, 3) {
				g.pin(&t, []string{u.Pick(r, c.Nodes).Name})
			}
		default:
			t = tspec{Kind: kWhole, N: 1, NodeMem: smallest, Tolerate: true}
			if r.Chance(1, 3) {
				g.pin(&t, []string{u.Pick(r, c.Nodes).Name})
			}
		}
		if r.Chance(1, 5) {
			t.CPUm = u.Pick(r, []int64{250, 500})
		}
		queue := "a"
		if r.Chance(1, 8) {
			queue = "b"
		}
		prio := u.Pick(r, []int32{50, 50, 75, 110, 110})
		g.addJob(queue, prio, []tspec{t})
		if queue == "a" {
			want += g.hcharge(t)
			if prio >= 100 {
				wantNP += g.hcharge(t)
			}
		}
	}
	// caps: small whole numbers above what the queue holds, below what its pending pods ask in total
	lvl := u.Pick(r, g.chainOf("a"))
	held, heldNP := g.held(lvl, false), g.held(lvl, true)
	room := float64(r.Range(1, 2))
	if r.Chance(1, 6) {
		room += 0.5
	}
	if want > 1 && room >= want && r.Chance(2, 3) {
		room = float64(int(want+0.999)) - 1
	}
	switch r.Intn(6) {
	case 0, 1, 2: // the limit
		g.q(lvl).Lim[2] = held + room
	case 3, 4: // the deserved quota of the non-preemptible jobs
		g.q(lvl).Des[2] = heldNP + room
		if wantNP > 1 && room >= wantNP {
			g.q(lvl).Des[2] = heldNP + float64(int(wantNP+0.999)) - 1
		}
	default: // both, at different levels when there are two
		g.q(lvl).Lim[2] = held + room + float64(r.Intn(2))
		other := u.Pick(r, g.chainOf("a"))
		g.q(other).Des[2] = g.held(other, true) + room
	}
	// every queue deserves something (fair share and reclaim need it); b is generous
	for _, name := range []string{"a", "b"} {
		if g.q(name).Des[2] < 0 && r.Chance(1, 2) {
			g.q(name).Des[2] = g.held(name, false) + float64(r.Range(1, 3))
		}
	}
	c.Actions = []string{"allocate"}
	if r.Chance(1, 3) {
		c.Actions = []string{"allocate", "consolidation", "reclaim", "preempt"}
	}
	return c
}

// heteroCorpus: fixed worlds.
//
// readme-*: the world of seeded/C08-4 (README.md): node big = 2 GPUs x 500, one of them busy with a running 1-GPU pod of
// queue1 so that bin packing ranks big first; node small = 2 GPUs x 100; queue0 with GPU limit 1; two pending one-pod
// jobs in queue0 asking gpu-memory and pinned to small by required node affinity. (The README asks 60 units = 0.60 /
// 0.12 GPU; here 75 units = 0.75 GPU on small -- exact in float64 -- and 0.15 GPU on big.) The first job fits
// (0.75 <= 1); the second must stay pending: on big 0.75 + 0.15 <= 1 passes the gate, big is then refused by node
// affinity, on small 0.75 + 0.75 > 1.
func heteroCorpus() []*acluster {
	un := [3]float64{-1, -1, -1}
	gl := func(x float64) [3]float64 { return [3]float64{-1, -1, x} }
	mk := func(family string, nodes []anode, queues []qspec, acts []string, jobs func(g *agen)) *acluster {
		c := &acluster{Family: "corpus/" + family, Nodes: nodes, Queues: queues, Actions: acts}
		jobs(&agen{c: c})
		return c
	}
	run1 := func(node string, mem int64) []tspec {
		return []tspec{{Kind: kWhole, N: 1, NodeMem: mem, State: "running", Node: node, Tolerate: true}}
	}
	var out []*acluster
	type variant struct {
		name       string
		big, small int64
		mem        int64
		pin        func(t *tspec)
		taintBig   bool
	}
	aff := func(t *tspec) { t.Affinity = []string{"small"}; t.Tolerate = true }
	sel := func(t *tspec) { t.Selector = map[string]string{nodeModelLabel: "m100"}; t.Tolerate = true }
	tnt := func(t *tspec) { t.Tolerate = false }
	for _, v := range []variant{
		{"readme-500-100-affinity", 500, 100, 75, aff, false},
		{"readme-300-100-affinity", 300, 100, 75, aff, false},
		{"readme-500-100-selector", 500, 100, 75, sel, false},
		{"readme-500-100-taint", 500, 100, 75, tnt, true},
		{"readme-400-100-half", 400, 100, 50, aff, false},
	} {
		v := v
		for _, np := range []bool{false, true} {
			np := np
			name := v.name + "-limit-1"
			q0 := qspec{Name: "queue0", Lim: gl(1), Des: gl(1)}
			prio := int32(50)
			if np {
				// non-preemptible jobs against the deserved quota, no limit
				name = v.name + "-non-preemptible-deserved-1"
				q0 = qspec{Name: "queue0", Lim: un, Des: gl(1)}
				prio = 110
			}
			out = append(out, mk(name,
				[]anode{{Name: "big", GPUs: 2, GpuMem: v.big, Taint: v.taintBig}, {Name: "small", GPUs: 2, GpuMem: v.small}},
				[]qspec{q0, {Name: "queue1", Lim: un, Des: gl(1)}},
				[]string{"allocate"}, func(g *agen) {
					g.addJob("queue1", 50, run1("big", v.big))
					n := 2
					if v.mem*2 <= v.small { // half a GPU: two fit under the limit, the third does not
						n = 3
					}
					for i := 0; i < n; i++ {
						t := tspec{Kind: kGpuMem, GpuMem: v.mem, NodeMem: v.small}
						v.pin(&t)
						g.addJob("queue0", prio, []tspec{t})
					}
				}))
		}
	}
	// the limit on the department, three models, the pods pinned to the two smaller ones
	out = append(out, mk("department-limit-1-three-models",
		[]anode{{Name: "n0", GPUs: 2, GpuMem: 400}, {Name: "n1", GPUs: 2, GpuMem: 200}, {Name: "n2", GPUs: 2, GpuMem: 100}},
		[]qspec{{Name: "d", Lim: gl(1), Des: un}, {Name: "a", Parent: "d", Lim: un, Des: gl(1)}, {Name: "b", Parent: "d", Lim: un, Des: gl(1)}},
		[]string{"allocate"}, func(g *agen) {
			for _, q := range []string{"a", "b", "a"} {
				g.addJob(q, 50, []tspec{{Kind: kGpuMem, GpuMem: 50, NodeMem: 100, Affinity: []string{"n1", "n2"}, Tolerate: true}})
			}
		}))
	// control: the same pods without pins go to the big GPUs and all fit
	out = append(out, mk("control-unpinned-400-100",
		[]anode{{Name: "big", GPUs: 2, GpuMem: 400}, {Name: "small", GPUs: 2, GpuMem: 100}},
		[]qspec{{Name: "queue0", Lim: gl(1), Des: gl(1)}, {Name: "queue1", Lim: un, Des: gl(1)}},
		[]string{"allocate"}, func(g *agen) {
			g.addJob("queue1", 50, run1("big", 400))
			for i := 0; i < 3; i++ {
				g.addJob("queue0", 50, []tspec{{Kind: kGpuMem, GpuMem: 100, NodeMem: 100, Tolerate: true}})
			}
		}))
	// the labels 16384 / 40960 (floored to 16300 / 40900 by the node), through all actions
	out = append(out, mk("labels-40960-16384-limit-1-all-actions",
		[]anode{{Name: "big", GPUs: 2, GpuMem: 40900, MemLabel: 40960}, {Name: "small", GPUs: 2, GpuMem: 16300, MemLabel: 16384}},
		[]qspec{{Name: "queue0", Lim: gl(1), Des: gl(1)}, {Name: "queue1", Lim: un, Des: gl(1)}},
		[]string{"allocate", "consolidation", "reclaim", "preempt"}, func(g *agen) {
			g.addJob("queue1", 50, run1("big", 40900))
			for i := 0; i < 2; i++ {
				g.addJob("queue0", 50, []tspec{{Kind: kGpuMem, GpuMem: 12225, NodeMem: 16300, Selector: map[string]string{nodeModelLabel: "m16300"}, Tolerate: true}})
			}
		}))
	return out
}
