package c08

import (
	"fmt"
	"math"
	"sort"
	"strings"

	"github.com/NVIDIA/KAI-scheduler/pkg/scheduler/api"
	"github.com/NVIDIA/KAI-scheduler/pkg/scheduler/api/common_info"
	"github.com/NVIDIA/KAI-scheduler/pkg/scheduler/api/pod_info"
	"github.com/NVIDIA/KAI-scheduler/pkg/scheduler/api/pod_status"
	"github.com/NVIDIA/KAI-scheduler/pkg/scheduler/api/podgroup_info"
	"github.com/NVIDIA/KAI-scheduler/pkg/scheduler/api/eviction_info"
	"github.com/NVIDIA/KAI-scheduler/pkg/scheduler/cache"
	"github.com/NVIDIA/KAI-scheduler/pkg/scheduler/framework"
	v1 "k8s.io/api/core/v1"
	"github.com/NVIDIA/KAI-scheduler/pkg/scheduler/plugins/proportion/capacity_policy"

	"kaiverif/internal/core"
	u "kaiverif/internal/util"
)

// ---- Coq terms ----------------------------------------------------------------

func queueTerm(q qspec, qid *ids) string {
	return fmt.Sprintf("{| q_id := %s; q_parent := %s; q_limit := %s; q_deserved := %s; q_alloc := %s; q_np := %s |}",
		u.Pos(qid.of(q.Name)), u.Pos(qid.of(q.Parent)), rqTerm(q.Lim), rqTerm(q.Des), rqTerm(q.Alloc), rqTerm(q.NP))
}

func otaskTerm(id int, t *pod_info.PodInfo, nodeMem int64, gate string, charge *[3]float64) string {
	return otaskTermTried(id, t, nodeMem, gate, charge, "[]")
}

// otaskTermTried: tried = the candidate nodes the allocation attempt passed over before the node the task was
// placed on, as a Coq list of (MemoryOfEveryGpuOnNode, verdict of the live session's node-level gate there).
func otaskTermTried(id int, t *pod_info.PodInfo, nodeMem int64, gate string, charge *[3]float64, tried string) string {
	ch := "None"
	if charge != nil {
		ch = u.Opt(true, rqTerm(*charge))
	}
	return fmt.Sprintf("{| ot_task := %s; ot_nm := %s; ot_gate := %s; ot_charge := %s; ot_tried := %s |}",
		taskTerm(id, t), u.Pos(int(nodeMem)), gate, ch, tried)
}

type stepObs struct {
	Kind     string   `json:"kind"`
	Job      string   `json:"job,omitempty"`
	Verdicts []string `json:"verdicts,omitempty"`
	Admitted string   `json:"admitted,omitempty"`
	Task     string   `json:"task,omitempty"`
}

// ---- direct stream: capacity_policy.New on hand-built attributes ----------------

type directCase struct {
	Queues []qspec `json:"queues"`
	Job    jspec   `json:"job"`
}

func runDirect(c directCase) (term, label string, obs stepObs, classes []string) {
	w := newWorld()
	qid := newIds()
	for _, q := range c.Queues {
		qid.of(q.Name)
	}
	cp := capacity_policy.New(queueAttrs(c.Queues))
	var tasks []*pod_info.PodInfo
	for _, t := range c.Job.Tasks {
		tasks = append(tasks, w.task(c.Job.Name, t))
	}
	job := w.job(c.Job, tasks)
	vjob, k1 := verdictTerm(cp.IsJobOverQueueCapacity(job, tasks), qid)
	vnp, k2 := verdictTerm(cp.IsNonPreemptibleJobOverQuota(job, tasks), qid)
	obs = stepObs{Kind: "probe", Job: c.Job.label(), Verdicts: []string{k1, k2}}
	classes = []string{"job:" + k1, "np:" + k2}
	var ots []string
	for i, t := range tasks {
		v, k := verdictTerm(cp.IsTaskAllocationOnNodeOverCapacity(t, job, w.node(c.Job.Tasks[i].NodeMem)), qid)
		ots = append(ots, otaskTerm(i+1, t, c.Job.Tasks[i].NodeMem, u.Opt(true, v), nil))
		obs.Verdicts = append(obs.Verdicts, k)
		classes = append(classes, "node:"+k)
	}
	step := u.App("OProbe", u.Pos(qid.of(c.Job.Queue)), u.Bool(c.Job.Preemptible), u.List(ots), vjob, vnp)
	qts := make([]string, len(c.Queues))
	for i, q := range c.Queues {
		qts[i] = queueTerm(q, qid)
	}
	term = fmt.Sprintf("{| k_queues := %s; k_min_mem := 100; k_init := []; k_init_obs := None; k_init_fair := None; k_steps := [%s] |}",
		u.List(qts), u.Pair(step, "None"))
	var ql []string
	for _, q := range c.Queues {
		ql = append(ql, fmt.Sprintf("%s<%s lim=%v des=%v alloc=%v np=%v", q.Name, q.Parent, q.Lim, q.Des, q.Alloc, q.NP))
	}
	label = "direct queues={" + strings.Join(ql, "; ") + "} job=" + c.Job.label()
	return
}

func genDirect(r *u.Rng, malformed bool) directCase {
	qs := genTree(r)
	for i := range qs {
		for k := 0; k < 3; k++ {
			var unit float64
			switch k {
			case 0:
				unit = 500
			case 1:
				unit = 500e6
			default:
				unit = 0.25
			}
			// allocated near the cap so that the comparison is exercised on both sides and at equality
			base := qs[i].Lim[k]
			if base < 0 || r.Chance(1, 3) {
				base = unit * float64(r.Range(0, 16))
			}
			qs[i].Alloc[k] = base + unit*float64(r.Range(-4, 2))
			if qs[i].Alloc[k] < 0 && !malformed {
				qs[i].Alloc[k] = 0
			}
			nb := qs[i].Des[k]
			if nb < 0 || r.Chance(1, 3) {
				nb = unit * float64(r.Range(0, 8))
			}
			qs[i].NP[k] = nb + unit*float64(r.Range(-4, 2))
			if qs[i].NP[k] < 0 && !malformed {
				qs[i].NP[k] = 0
			}
		}
	}
	queue := qs[r.Intn(len(qs))].Name
	if malformed {
		switch r.Intn(4) {
		case 0: // job in a queue that does not exist
			queue = "ghost"
		case 1: // dangling parent
			qs[r.Intn(len(qs))].Parent = "ghost"
		case 2: // caps below -1 are ordinary (negative) numbers, not "unlimited"
			qs[r.Intn(len(qs))].Lim[2] = -2
			qs[r.Intn(len(qs))].Des[0] = -1000
		default: // a queue literally named "": every top-level queue's ParentQueue ("") resolves to it
			if len(qs) < 7 {
				qs = append(qs, qspec{Name: "", Parent: "ghost", Lim: [3]float64{-1, -1, genGpuCap(r)}, Des: [3]float64{-1, -1, genGpuCap(r)},
					Alloc: [3]float64{0, 0, float64(r.Range(0, 8)) / 4}, NP: [3]float64{0, 0, float64(r.Range(0, 4)) / 4}})
			}
		}
	}
	return directCase{Queues: qs, Job: genJob(r, "job", queue, 2)}
}

// ---- session stream: real gates + real handlers over a sequence -----------------

type seqStep struct {
	Op   string `json:"op"` // probe | admit | release | commit
	Job  *jspec `json:"job,omitempty"`
	Task string `json:"task,omitempty"` // release: name of a charged task
	// commit: Statement.Commit of the statement holding the allocations of job Of (skipped unless that
	// job was admitted by the step before); Cache.Bind fails for its Fail-th task (1-based; 0: no failure).
	Of   string `json:"of,omitempty"`
	Fail int    `json:"failBindOfTask,omitempty"`
}

func (s seqStep) label() string {
	switch {
	case s.Job != nil:
		return s.Op + " " + s.Job.label()
	case s.Op == "commit" && s.Fail <= 0:
		return "commit " + s.Of + " binds-ok"
	case s.Op == "commit":
		return fmt.Sprintf("commit %s bind-fails=%s-t%d", s.Of, s.Of, s.Fail-1)
	}
	return s.Op + " " + s.Task
}

// bindCache is the session's cache for Statement.Commit: Bind fails for the one
// task named failFor (same idea as the recorder of harness/internal/cycle); the
// embedded interface is nil, nothing else of the cache is reached by Commit.
type bindCache struct {
	cache.Cache
	failFor string
	bound   []string
	failed  []string
}

func (c *bindCache) Bind(p *pod_info.PodInfo, hostname string, _ map[string]string) error {
	if p.Name == c.failFor {
		c.failed = append(c.failed, p.Name)
		return fmt.Errorf("injected bind failure for %s", p.Name)
	}
	c.bound = append(c.bound, p.Name)
	return nil
}

func (c *bindCache) Evict(*v1.Pod, *podgroup_info.PodGroupInfo, eviction_info.EvictionMetadata, string) error {
	return nil
}

func (c *bindCache) TaskPipelined(*pod_info.PodInfo, string) {}

type seqCase struct {
	// NoFair: the fair share of the root queues is not observed at session open (tiny.go: sums of hundredths of a GPU
	// over many pending pods are not exact in float64)
	NoFair bool      `json:"noFairShareObservation,omitempty"`
	Queues []qspec   `json:"queues"`
	Init   []jspec   `json:"snapshot"` // the jobs of the snapshot that no step decides on; every task has its State
	Steps  []seqStep `json:"steps"`
	// multi-cycle histories: this session is cycle number Cycle (0: a history of one cycle); its snapshot was derived
	// from the pods as the session of the previous cycle left them, the pods admitted there being seen as Binds
	// ("binding": bind requests still in flight; "bound"; "running": the binder finished; "mixed"); History is the
	// replayable description of the earlier cycles.
	Cycle   int    `json:"cycle,omitempty"`
	Binds   string `json:"admittedPodsSeenAs,omitempty"`
	History string `json:"history,omitempty"`
}

// endPod: a pod as a session left it (status in the job's pod map, node).
type endPod struct {
	Status pod_status.PodStatus
	Node   string
	Init   bool // it was a pod of that session's snapshot (not decided on by a step)
}

// obsQueues observes, after a step, the plugin's counters (through
// Session.QueueAllocatedResources) and, independently of the plugin, the tasks
// that really hold resources: every pod in the pod map of every job of the
// session whose status is Allocated, Pipelined, Binding, Bound or Running.
func obsQueues(ssn *framework.Session, c seqCase, qid, tid *ids) string {
	var out []string
	for _, q := range c.Queues {
		qi := ssn.ClusterInfo.Queues[common_info.QueueID(q.Name)]
		rr := ssn.QueueAllocatedResources(qi)
		out = append(out, fmt.Sprintf("{| oq_id := %s; oq_alloc := %s |}", u.Pos(qid.of(q.Name)),
			rqTerm([3]float64{rr.Cpu(), rr.Memory(), rr.GPUs()})))
	}
	var hold []int
	for _, job := range ssn.ClusterInfo.PodGroupInfos {
		for _, p := range job.GetAllPodsMap() {
			if pod_status.IsActiveAllocatedStatus(p.Status) {
				hold = append(hold, tid.of(p.Name))
			}
		}
	}
	sort.Ints(hold)
	hs := make([]string, len(hold))
	for i, h := range hold {
		hs[i] = u.Pos(h)
	}
	return u.Opt(true, fmt.Sprintf("{| ob_queues := %s; ob_holders := %s |}", u.List(out), u.List(hs)))
}

func le3(a, b [3]float64) bool { return a[0] <= b[0] && a[1] <= b[1] && a[2] <= b[2] }

func runSeq(c seqCase) (term, label string, trace []stepObs, counts map[string]int, end map[string]endPod) {
	counts = map[string]int{}
	end = map[string]endPod{}
	w := newWorld()
	qid := newIds()
	for _, q := range c.Queues {
		qid.of(q.Name)
	}
	tid := newIds()
	jobs := map[common_info.PodGroupID]*podgroup_info.PodGroupInfo{}
	type jrec struct {
		spec      jspec
		job       *podgroup_info.PodGroupInfo
		tasks     []*pod_info.PodInfo
		stmt      *framework.Statement // the statement that holds this job's allocations (one per job, as in the actions)
		admitted  bool
		committed bool
	}
	build := func(j jspec, init bool) *jrec {
		rec := &jrec{spec: j}
		for _, t := range j.Tasks {
			var ti *pod_info.PodInfo
			tid.of(t.Name)
			if init {
				ti = w.snapTask(j.Name, t)
				counts["snapshot-pod:"+t.State]++
				counts[fmt.Sprintf("snapshot-pod:%s:preemptible=%v", t.State, j.Preemptible)]++
				counts[fmt.Sprintf("snapshot-pod:%s:queue-depth=%d", t.State, depthOf(c.Queues, j.Queue))]++
			} else {
				ti = w.task(j.Name, t)
				w.node(t.NodeMem)
			}
			rec.tasks = append(rec.tasks, ti)
		}
		rec.job = w.job(j, rec.tasks)
		jobs[rec.job.UID] = rec.job
		return rec
	}
	var inits []*jrec
	for _, j := range c.Init {
		inits = append(inits, build(j, true))
	}
	recs := map[string]*jrec{}
	for _, s := range c.Steps {
		if s.Job != nil {
			recs[s.Job.Name] = build(*s.Job, false)
		}
	}
	ssn := w.session(c.Queues, jobs)
	bc := &bindCache{}
	ssn.Cache = bc
	stmt := ssn.Statement() // holds the evictions

	// task name -> job record of a charged task. The task object itself is looked up in the job's pod
	// map when needed: Commit puts the operation's clone of the task there.
	charged := map[string]*jrec{}
	current := func(rec *jrec, name string) *pod_info.PodInfo {
		return rec.job.GetAllPodsMap()[common_info.PodID(name)]
	}
	lastAdmitted := ""
	bindFailed := false
	var initTerms []string
	for _, rec := range inits {
		for i, ti := range rec.tasks {
			ch := chargeOf(ti) // QuantifyResourceRequirements(AcceptedResource) as the snapshot left it
			charged[rec.spec.Tasks[i].Name] = rec
			initTerms = append(initTerms, fmt.Sprintf("{| ip_queue := %s; ip_preempt := %s; ip_status := %s; ip_on_node := %s; ip_task := %s |}",
				u.Pos(qid.of(rec.spec.Queue)), u.Bool(rec.spec.Preemptible), core.StatusTerm(ti.Status), u.Bool(ti.NodeName != ""),
				otaskTerm(tid.of(rec.spec.Tasks[i].Name), ti, rec.spec.Tasks[i].NodeMem, "None", &ch)))
		}
	}
	initObs := obsQueues(ssn, c, qid, tid)
	// Request is exported only through the fair share derived from it at session open: observed for the root queues
	// (on the harness's huge nodes a root queue's fair share is its requestable share), unless a pending gpu-memory
	// pod contributes devices * mem/MinNodeGPUMemory that float64 does not represent exactly
	fairObs := "None"
	{
		exact := !c.NoFair
		for _, job := range ssn.ClusterInfo.PodGroupInfos {
			for _, p := range job.GetAllPodsMap() {
				if p.Status == pod_status.Pending && p.IsMemoryRequest() && (p.ResReq.GpuMemory()*4)%ssn.ClusterInfo.MinNodeGPUMemory != 0 {
					exact = false
				}
			}
		}
		if exact {
			var fs []string
			for _, q := range c.Queues {
				if q.Parent != "" {
					continue
				}
				rr := ssn.QueueFairShare(ssn.ClusterInfo.Queues[common_info.QueueID(q.Name)])
				fs = append(fs, fmt.Sprintf("{| oq_id := %s; oq_alloc := %s |}", u.Pos(qid.of(q.Name)),
					rqTerm([3]float64{rr.Cpu(), rr.Memory(), rr.GPUs()})))
			}
			fairObs = u.Opt(true, u.List(fs))
			counts["fair-share-observed"]++
		} else {
			counts["fair-share-skipped:inexact-pending-gpu-memory"]++
		}
	}

	var stepTerms []string
	var uncovered []string
	for _, s := range c.Steps {
		switch s.Op {
		case "release":
			rec := charged[s.Task]
			if rec == nil {
				continue
			}
			// the real pod decides: a task that no longer holds resources (whatever the harness
			// believes) cannot be evicted; the observations after the earlier steps show the difference
			ti := current(rec, s.Task)
			if ti == nil || !pod_status.IsActiveAllocatedStatus(ti.Status) {
				counts["release-skipped:pod-holds-nothing"]++
				delete(charged, s.Task)
				continue
			}
			lastAdmitted = ""
			if err := stmt.Evict(ti, "c08", eviction_info.EvictionMetadata{}); err != nil {
				counts["release-error"]++ // still observed below: the model expects a clean release
			}
			delete(charged, s.Task)
			stepTerms = append(stepTerms, u.Pair(u.App("ORelease", u.Pos(tid.of(s.Task))), obsQueues(ssn, c, qid, tid)))
			trace = append(trace, stepObs{Kind: "release", Task: s.Task})
			counts["step:release"]++
		case "commit":
			rec := recs[s.Of]
			if rec == nil || !rec.admitted || rec.committed || lastAdmitted != s.Of {
				continue
			}
			lastAdmitted = ""
			rec.committed = true
			bc.failFor, bc.failed = "", nil
			pos := "none"
			if s.Fail > 0 {
				ix := s.Fail - 1
				if ix >= len(rec.tasks) {
					ix = len(rec.tasks) - 1
				}
				bc.failFor = rec.spec.Tasks[ix].Name
				switch {
				case len(rec.tasks) == 1:
					pos = "only-task"
				case ix == 0:
					pos = "first"
				case ix == len(rec.tasks)-1:
					pos = "last"
				default:
					pos = "middle"
				}
			}
			err := rec.stmt.Commit()
			if (err != nil) != (s.Fail > 0) || (s.Fail > 0) != (len(bc.failed) == 1) {
				// not what Commit does today (it returns the bind error, after exactly one failed Bind call);
				// the observations below are what counts
				counts["commit-unexpected-result"]++
			}
			step := "OCommitOk"
			if s.Fail > 0 {
				step = u.App("OBindFail", u.Pos(tid.of(bc.failFor)))
				delete(charged, bc.failFor)
				bindFailed = true
			}
			stepTerms = append(stepTerms, u.Pair(step, obsQueues(ssn, c, qid, tid)))
			trace = append(trace, stepObs{Kind: "commit", Job: s.Of, Task: bc.failFor})
			counts["step:commit"]++
			counts["commit-bind-failure:"+pos]++
			bc.failFor = ""
		case "probe":
			rec := recs[s.Job.Name]
			vjob, k1 := verdictTerm(ssn.IsJobOverQueueCapacityFn(rec.job, rec.tasks), qid)
			vnp, k2 := verdictTerm(ssn.IsNonPreemptibleJobOverQueueQuotaFn(rec.job, rec.tasks), qid)
			o := stepObs{Kind: "probe", Job: rec.spec.label(), Verdicts: []string{k1, k2}}
			var ots []string
			for i, t := range rec.tasks {
				v, k := verdictTerm(ssn.IsTaskAllocationOnNodeOverCapacityFn(t, rec.job, w.node(rec.spec.Tasks[i].NodeMem)), qid)
				ots = append(ots, otaskTerm(tid.of(rec.spec.Tasks[i].Name), t, rec.spec.Tasks[i].NodeMem, u.Opt(true, v), nil))
				o.Verdicts = append(o.Verdicts, k)
			}
			stepTerms = append(stepTerms, u.Pair(u.App("OProbe", u.Pos(qid.of(rec.spec.Queue)), u.Bool(rec.spec.Preemptible),
				u.List(ots), vjob, vnp), "None"))
			trace = append(trace, o)
			counts["step:probe"]++
			counts["probe-job:"+k1]++
		case "admit":
			rec := recs[s.Job.Name]
			res := ssn.IsJobOverQueueCapacityFn(rec.job, rec.tasks)
			vjob, k1 := verdictTerm(res, qid)
			o := stepObs{Kind: "admit", Job: rec.spec.label(), Verdicts: []string{k1}}
			gates := make([]string, len(rec.tasks))
			charges := make([]*[3]float64, len(rec.tasks))
			for i := range gates {
				gates[i] = "None"
			}
			admitted := "AdmNo"
			lastAdmitted = ""
			rec.stmt = ssn.Statement()
			if res.IsSchedulable {
				admitted = "AdmYes"
				stmt := rec.stmt
				cp := stmt.Checkpoint()
				for i, t := range rec.tasks {
					node := w.node(rec.spec.Tasks[i].NodeMem)
					r := ssn.IsTaskAllocationOnNodeOverCapacityFn(t, rec.job, node)
					v, k := verdictTerm(r, qid)
					gates[i] = u.Opt(true, v)
					o.Verdicts = append(o.Verdicts, k)
					if !r.IsSchedulable {
						admitted = "AdmNo"
						if err := stmt.Rollback(cp); err != nil {
							panic(err)
						}
						counts["admit-refused-by:node-"+k]++
						break
					}
					if panicked := allocate(stmt, t, node.Name); panicked {
						admitted = "AdmPanic"
						break
					}
					ch := chargeOf(t)
					charges[i] = &ch
				}
			} else {
				counts["admit-refused-by:job-"+k1]++
			}
			if admitted != "AdmYes" {
				for i := range charges {
					charges[i] = nil
				}
			} else {
				allJob, allNode := true, true
				rec.admitted = true
				lastAdmitted = rec.spec.Name
				if bindFailed {
					counts["admitted-after-bind-failure"]++
				}
				for i, t := range rec.tasks {
					charged[rec.spec.Tasks[i].Name] = rec
					jr := [3]float64{t.ResReq.Cpu(), t.ResReq.Memory(), t.ResReq.GetGpusQuota()}
					nq := w.node(rec.spec.Tasks[i].NodeMem).GetRequiredInitQuota(t)
					nr := [3]float64{nq.MilliCPU, nq.Memory, nq.GPU}
					allJob = allJob && le3(*charges[i], jr)
					allNode = allNode && le3(*charges[i], nr)
				}
				if !allJob && !allNode {
					uncovered = append(uncovered, rec.spec.Name)
					counts["admitted:uncovered"]++
				} else {
					counts["admitted:covered"]++
				}
			}
			var ots []string
			for i, t := range rec.tasks {
				ots = append(ots, otaskTerm(tid.of(rec.spec.Tasks[i].Name), t, rec.spec.Tasks[i].NodeMem, gates[i], charges[i]))
			}
			o.Admitted = admitted
			obs := "None"
			if admitted != "AdmPanic" {
				obs = obsQueues(ssn, c, qid, tid)
			}
			// mode false: the harness plays AllocateJob as a real allocation (Statement.Allocate)
			stepTerms = append(stepTerms, u.Pair(u.App("OAdmit", u.Bool(false), u.Bool(false), u.Pos(qid.of(rec.spec.Queue)), u.Bool(rec.spec.Preemptible),
				u.List(ots), vjob, admitted), obs))
			trace = append(trace, o)
			counts["step:admit"]++
			counts["admit:"+admitted]++
			if admitted == "AdmPanic" {
				goto done
			}
		}
	}
done:
	qts := make([]string, len(c.Queues))
	for i, q := range c.Queues {
		qts[i] = queueTerm(q, qid)
	}
	term = fmt.Sprintf("{| k_queues := %s; k_min_mem := %s; k_init := %s; k_init_obs := %s; k_init_fair := %s; k_steps := %s |}",
		u.List(qts), u.Pos(int(ssn.ClusterInfo.MinNodeGPUMemory)), u.List(initTerms), initObs, fairObs, u.List(stepTerms))
	// the pods as this session leaves them (what the next snapshot is derived from)
	initNames := map[string]bool{}
	for _, j := range c.Init {
		for _, t := range j.Tasks {
			initNames[t.Name] = true
		}
	}
	for _, job := range ssn.ClusterInfo.PodGroupInfos {
		for _, p := range job.GetAllPodsMap() {
			end[p.Name] = endPod{Status: p.Status, Node: p.NodeName, Init: initNames[p.Name]}
		}
	}

	var ql []string
	for _, q := range c.Queues {
		ql = append(ql, fmt.Sprintf("%s<%s lim=%v des=%v", q.Name, q.Parent, q.Lim, q.Des))
	}
	tag := "uncovered-admitted=none"
	if len(uncovered) > 0 {
		sort.Strings(uncovered)
		tag = "uncovered-admitted=" + strings.Join(uncovered, ",")
	}
	label = "seq " + tag + " queues={" + strings.Join(ql, "; ") + "} " + c.history()
	return
}

// history describes the cycles up to and including this one: snapshot pods with their states, then the steps.
func (c seqCase) history() string {
	var sn, sl []string
	for _, j := range c.Init {
		sn = append(sn, j.label())
	}
	for _, s := range c.Steps {
		sl = append(sl, s.label())
	}
	if c.Cycle == 0 {
		return "snapshot={" + strings.Join(sn, "; ") + "} steps={" + strings.Join(sl, "; ") + "}"
	}
	h := fmt.Sprintf("cycle%d: ", c.Cycle)
	if c.Cycle > 1 {
		h += "pods admitted in cycle" + fmt.Sprint(c.Cycle-1) + " seen as " + c.Binds + " "
	}
	h += "snapshot={" + strings.Join(sn, "; ") + "} steps={" + strings.Join(sl, "; ") + "}"
	if c.History != "" {
		h += " AFTER " + c.History
	}
	return h
}

// allocate runs Statement.Allocate (node.AddTask sets AcceptedResource, then the
// proportion plugin's allocate handler fires) and reports a Go panic.
func allocate(stmt *framework.Statement, t *pod_info.PodInfo, node string) (panicked bool) {
	defer func() {
		if r := recover(); r != nil {
			panicked = true
		}
	}()
	if err := stmt.Allocate(t, node); err != nil {
		panic(err)
	}
	return false
}

// seqGen carries what the step generator of a sequence needs across the cycles of a history.
type seqGen struct {
	r              *u.Rng
	c              *seqCase
	allowUncovered bool
	commits        bool // admitted jobs are committed through Statement.Commit (some with a failing Cache.Bind)
	always         bool // ... nearly always (histories of several cycles: the admitted pods must end up Binding)
	jn             int
	prefix         string
	live           []string
}

func (g *seqGen) pickQueue() string {
	// prefer deep queues so that walks cross several levels
	qs, r := g.c.Queues, g.r
	best := qs[r.Intn(len(qs))].Name
	for k := 0; k < 2; k++ {
		cand := qs[r.Intn(len(qs))].Name
		if depthOf(qs, cand) > depthOf(qs, best) {
			best = cand
		}
	}
	return best
}

func (g *seqGen) newJob() jspec {
	r := g.r
	g.jn++
	min := 1
	if g.commits && r.Chance(1, 2) {
		min = r.Range(2, 3)
	}
	class := r.Intn(2)
	if g.allowUncovered && r.Chance(1, 2) {
		class = 2
	}
	return genJobMin(r, fmt.Sprintf("%sj%d", g.prefix, g.jn), g.pickQueue(), class, min)
}

// snapshot deals one pod in EVERY state of snapStates (in random order) plus a few more in the resource-holding
// states over jobs of 1-3 pods; queue (deep ones preferred), preemptibility and requests are drawn per job.
func (g *seqGen) snapshot() {
	r := g.r
	states := append([]string{}, snapStates...)
	for i, n := 0, r.Intn(4); i < n; i++ {
		states = append(states, u.Pick(r, []string{"binding", "binding", "bound", "running", "running", "allocated", "pending", "releasing"}))
	}
	for i := len(states) - 1; i > 0; i-- {
		k := r.Intn(i + 1)
		states[i], states[k] = states[k], states[i]
	}
	for len(states) > 0 {
		g.jn++
		n := u.Pick(r, []int{1, 2, 2, 3})
		if n > len(states) {
			n = len(states)
		}
		j := jspec{Name: fmt.Sprintf("%ss%d", g.prefix, g.jn), Queue: g.pickQueue(), Preemptible: r.Bool()}
		for i := 0; i < n; i++ {
			t := genTask(r, fmt.Sprintf("%s-t%d", j.Name, i), false)
			t.State = states[i]
			j.Tasks = append(j.Tasks, t)
			g.live = append(g.live, t.Name)
		}
		states = states[n:]
		g.c.Init = append(g.c.Init, j)
	}
}

// estCharge: roughly what a pod of this shape is charged with (only used to place the caps).
func estCharge(t tspec) [3]float64 {
	c := [3]float64{float64(t.CPUm), float64(t.MemMB)*1e6 + float64(t.MemB), 0}
	dev := float64(t.N)
	if dev == 0 {
		dev = 1
	}
	switch t.Kind {
	case kWhole, kDRA:
		c[2] = float64(t.N)
	case kFraction:
		f := 0.0
		fmt.Sscanf(t.Portion, "%g", &f)
		c[2] = f * dev
	case kGpuMem:
		c[2] = math.Ceil(float64(t.GpuMem)/float64(t.NodeMem)*4) / 4 * dev
	case kMig:
		for _, m := range t.Mig {
			c[2] += float64(m[0] * m[1])
		}
	}
	return c
}

// headroom moves three quarters of the finite caps up by (about) what the snapshot's pods already hold below them,
// so that the room left for this cycle's decisions is distributed as the caps were drawn: part of the queues start
// below, at, or (the remaining quarter, and lowered caps) above their cap.
func (g *seqGen) headroom() {
	r, c := g.r, g.c
	for i := range c.Queues {
		var held, heldNP [3]float64
		for _, j := range c.Init {
			in := false
			for name, d := j.Queue, 0; name != "" && d < 10; d++ {
				if name == c.Queues[i].Name {
					in = true
				}
				next := ""
				for _, q := range c.Queues {
					if q.Name == name {
						next = q.Parent
					}
				}
				name = next
			}
			if !in {
				continue
			}
			for _, t := range j.Tasks {
				if pod_status.AllocatedStatus(stateStatus[t.State]) {
					e := estCharge(t)
					for k := range e {
						held[k] += e[k]
						if !j.Preemptible {
							heldNP[k] += e[k]
						}
					}
				}
			}
		}
		for k := 0; k < 3; k++ {
			if c.Queues[i].Lim[k] >= 0 && r.Chance(3, 4) {
				c.Queues[i].Lim[k] += held[k]
			}
			if c.Queues[i].Des[k] >= 0 && r.Chance(3, 4) {
				c.Queues[i].Des[k] += heldNP[k]
			}
		}
	}
}

func (g *seqGen) steps(n int) {
	r, c := g.r, g.c
	for i := 0; i < n; i++ {
		switch k := r.Intn(10); {
		case k < 6:
			j := g.newJob()
			c.Steps = append(c.Steps, seqStep{Op: "admit", Job: &j})
			for _, t := range j.Tasks { // released only if it turns out to be charged
				g.live = append(g.live, t.Name)
			}
			if g.commits && (r.Chance(2, 3) || (g.always && r.Chance(3, 4))) {
				fail := 0
				if !r.Chance(1, 4) && !(g.always && r.Chance(1, 2)) {
					fail = []int{1, len(j.Tasks)/2 + 1, len(j.Tasks)}[r.Intn(3)]
				}
				c.Steps = append(c.Steps, seqStep{Op: "commit", Of: j.Name, Fail: fail})
			}
		case k < 8 && len(g.live) > 0:
			ix := r.Intn(len(g.live))
			c.Steps = append(c.Steps, seqStep{Op: "release", Task: g.live[ix]})
			g.live = append(g.live[:ix], g.live[ix+1:]...)
		default:
			j := g.newJob()
			c.Steps = append(c.Steps, seqStep{Op: "probe", Job: &j})
		}
	}
}

// genSeq: one cycle. The snapshot holds a pod in every state; then 4-9 probe/admit/release decisions. Two thirds
// of the sequences commit some of their admitted jobs through Statement.Commit, most of them with a Cache.Bind that
// fails for the first, a middle or the last task of the job; their jobs more often have 2-3 tasks, so that tasks are
// left on both sides of the failing one.
func genSeq(r *u.Rng, allowUncovered bool, malformed bool, history bool) seqCase {
	c := seqCase{Queues: genTree(r)}
	g := &seqGen{r: r, c: &c, allowUncovered: allowUncovered, commits: history || r.Chance(2, 3), always: history}
	if history {
		c.Cycle = 1
		g.prefix = "c1"
	}
	g.snapshot()
	g.headroom()
	g.steps(r.Range(4, 9))
	if malformed { // last decision concerns a job whose queue is not in the snapshot
		j := g.newJob()
		j.Queue = "ghost"
		c.Steps = append(c.Steps, seqStep{Op: "admit", Job: &j})
	}
	return c
}

// nextCycle derives the next cycle of a history from the pods as the session of cycle c left them (end): the
// cluster moved on as far as mode says for the pods whose bind request was sent (status Binding at the end of the
// session): "binding": all bind requests still in flight; "bound": the binder set nodeName, the kubelet has not
// started the pod; "running": the control; "mixed": per pod one of the three. Pods that were allocated but never
// committed (statement dropped, or their operation came after a failed bind) and pods whose bind failed are pending
// again; evicted pods are terminating or gone. Jobs that are entirely pending again and were refused (or lost their
// bind) are tried again first, then `extra` further decisions on new jobs follow.
func nextCycle(r *u.Rng, c seqCase, end map[string]endPod, mode string, extra int) seqCase {
	n := seqCase{Queues: c.Queues, Cycle: c.Cycle + 1, Binds: mode, History: c.history()}
	g := &seqGen{r: r, c: &n, commits: true, always: true, prefix: fmt.Sprintf("c%d", c.Cycle+1)}
	next := func(e endPod) string {
		switch e.Status {
		case pod_status.Pending:
			return "pending"
		case pod_status.Gated:
			return "gated"
		case pod_status.Binding:
			if mode == "mixed" {
				return u.Pick(r, []string{"binding", "binding", "bound", "running"})
			}
			return mode
		case pod_status.Allocated, pod_status.Pipelined:
			if e.Init {
				return u.Pick(r, []string{"allocated", "running"})
			}
			return "pending"
		case pod_status.Bound:
			return u.Pick(r, []string{"bound", "running"})
		case pod_status.Running:
			return u.Pick(r, []string{"running", "running", "running", "succeeded", "failed"})
		case pod_status.Releasing:
			if e.Node == "" {
				return u.Pick(r, []string{"releasing-unbound", ""})
			}
			return u.Pick(r, []string{"releasing", ""})
		case pod_status.Succeeded:
			return u.Pick(r, []string{"succeeded", ""})
		case pod_status.Failed:
			return u.Pick(r, []string{"failed", ""})
		}
		return "unknown"
	}
	var jobs []jspec
	stepJob := map[string]bool{}
	for _, s := range c.Steps { // the jobs the previous cycle decided on come first (in the label, too)
		if s.Job != nil && s.Job.Queue != "ghost" {
			jobs = append(jobs, *s.Job)
			stepJob[s.Job.Name] = s.Op == "admit"
		}
	}
	jobs = append(jobs, c.Init...)
	retried := 0
	for _, j := range jobs {
		var ts []tspec
		pending := true
		for _, t := range j.Tasks {
			e, ok := end[t.Name]
			if !ok {
				continue
			}
			t.State = next(e)
			if t.State == "" { // deleted in the meantime
				continue
			}
			pending = pending && t.State == "pending"
			ts = append(ts, t)
		}
		if len(ts) == 0 {
			continue
		}
		j.Tasks = ts
		if pending && stepJob[j.Name] && retried < 3 {
			retried++
			for i := range j.Tasks {
				j.Tasks[i].State = ""
			}
			jj := j
			n.Steps = append(n.Steps, seqStep{Op: "admit", Job: &jj})
			if r.Chance(3, 4) {
				n.Steps = append(n.Steps, seqStep{Op: "commit", Of: jj.Name})
			}
			continue
		}
		for _, t := range j.Tasks {
			g.live = append(g.live, t.Name)
		}
		n.Init = append(n.Init, j)
	}
	g.steps(extra)
	return n
}

// ---- fixed boundary corpus -------------------------------------------------------

func leafChain(limGpu, desGpu [3]float64) []qspec {
	return []qspec{
		{Name: "top", Parent: "", Lim: [3]float64{-1, -1, limGpu[0]}, Des: [3]float64{-1, -1, desGpu[0]}},
		{Name: "mid", Parent: "top", Lim: [3]float64{-1, -1, limGpu[1]}, Des: [3]float64{-1, -1, desGpu[1]}},
		{Name: "leaf", Parent: "mid", Lim: [3]float64{-1, -1, limGpu[2]}, Des: [3]float64{-1, -1, desGpu[2]}},
	}
}

func seqCorpus() []seqCase {
	var out []seqCase
	one := func(name string, t tspec, pre bool) jspec {
		t.Name = name + "-t0"
		if t.NodeMem == 0 {
			t.NodeMem = 100
		}
		return jspec{Name: name, Queue: "leaf", Preemptible: pre, Tasks: []tspec{t}}
	}
	adm := func(j jspec) seqStep { return seqStep{Op: "admit", Job: &j} }
	// exactly at the limit of an ancestor, then one more
	out = append(out, seqCase{Queues: leafChain([3]float64{2, -1, -1}, [3]float64{-1, -1, -1}), Steps: []seqStep{
		adm(one("a", tspec{Kind: kWhole, N: 2}, true)), adm(one("b", tspec{Kind: kFraction, Portion: "0.25"}, true)),
		{Op: "release", Task: "a-t0"}, adm(one("c", tspec{Kind: kWhole, N: 1}, true))}})
	// limit 0 and deserved 0
	out = append(out, seqCase{Queues: leafChain([3]float64{-1, 0, -1}, [3]float64{-1, -1, 0}), Steps: []seqStep{
		adm(one("a", tspec{Kind: kCPU, CPUm: 500}, false)), adm(one("b", tspec{Kind: kWhole, N: 1}, true)),
		adm(one("c", tspec{Kind: kFraction, Portion: "0.5"}, false))}})
	// non-preemptible within deserved at every level
	out = append(out, seqCase{Queues: leafChain([3]float64{-1, -1, -1}, [3]float64{1, 2, 0.5}), Steps: []seqStep{
		adm(one("a", tspec{Kind: kFraction, Portion: "0.5"}, false)), adm(one("b", tspec{Kind: kFraction, Portion: "0.25"}, false)),
		adm(one("c", tspec{Kind: kFraction, Portion: "0.25"}, true)), adm(one("d", tspec{Kind: kWhole, N: 1}, true))}})
	// snapshot already above a (lowered) limit: releases allowed, raises refused
	out = append(out, seqCase{Queues: leafChain([3]float64{1, -1, -1}, [3]float64{-1, -1, -1}),
		Init: []jspec{one("r", tspec{Kind: kWhole, N: 2, State: "running"}, true)}, Steps: []seqStep{
			adm(one("a", tspec{Kind: kFraction, Portion: "0.25"}, true)), {Op: "release", Task: "r-t0"},
			adm(one("b", tspec{Kind: kFraction, Portion: "0.25"}, true))}})
	// single-device gpu-memory request: only the node-level gate sees it
	out = append(out, seqCase{Queues: leafChain([3]float64{-1, -1, 0.5}, [3]float64{-1, -1, -1}), Steps: []seqStep{
		adm(one("a", tspec{Kind: kGpuMem, GpuMem: 50}, true)), adm(one("b", tspec{Kind: kGpuMem, GpuMem: 25}, true))}})
	// Statement.Commit with a failing Cache.Bind, limit 2 on an ancestor: job a = 2 x 1 GPU fills it;
	// the bind of one task fails; exactly one more GPU fits afterwards (b), not two (c). First, last task.
	multi := func(name string, pre bool, ts ...tspec) jspec {
		j := jspec{Name: name, Queue: "leaf", Preemptible: pre}
		for i, t := range ts {
			t.Name = fmt.Sprintf("%s-t%d", name, i)
			if t.NodeMem == 0 {
				t.NodeMem = 100
			}
			j.Tasks = append(j.Tasks, t)
		}
		return j
	}
	g1 := tspec{Kind: kWhole, N: 1}
	for _, fail := range []int{1, 2} {
		out = append(out, seqCase{Queues: leafChain([3]float64{2, -1, -1}, [3]float64{-1, -1, -1}), Steps: []seqStep{
			adm(multi("a", true, g1, g1)), {Op: "commit", Of: "a", Fail: fail},
			adm(one("b", g1, true)), {Op: "commit", Of: "b"}, adm(one("c", g1, true))}})
	}
	// three tasks, the middle bind fails: the third stays Allocated (never bound) and charged; releasing
	// it makes room for a second GPU. Non-preemptible: deserved quota 3 at the leaf.
	out = append(out, seqCase{Queues: leafChain([3]float64{-1, -1, -1}, [3]float64{-1, -1, 3}), Steps: []seqStep{
		adm(multi("a", false, g1, g1, g1)), {Op: "commit", Of: "a", Fail: 2},
		adm(multi("b", false, g1, g1)), adm(one("c", g1, false)), {Op: "release", Task: "a-t2"},
		adm(one("d", g1, false)), {Op: "commit", Of: "d", Fail: 1}, adm(one("e", g1, false))}})
	// plain commit changes nothing: the queue stays full
	out = append(out, seqCase{Queues: leafChain([3]float64{-1, 1, -1}, [3]float64{-1, -1, -1}), Steps: []seqStep{
		adm(multi("a", true, tspec{Kind: kFraction, Portion: "0.5"}, tspec{Kind: kFraction, Portion: "0.5"})),
		{Op: "commit", Of: "a"}, adm(one("b", tspec{Kind: kFraction, Portion: "0.25"}, true)),
		{Op: "release", Task: "a-t0"}, adm(one("c", tspec{Kind: kFraction, Portion: "0.5"}, true))}})
	for i := range out {
		out[i] = withSweep(out[i])
	}
	return out
}

// withSweep adds to a corpus case a root queue "aux" without limits or quotas holding one pod in every snapshot
// state (alternately non-preemptible / preemptible jobs of one 1-GPU pod), so that the corpus snapshots, too, contain
// every status without disturbing the amounts the scenario is about.
func withSweep(c seqCase) seqCase {
	c.Queues = append(append([]qspec{}, c.Queues...), qspec{Name: "aux", Parent: "", Lim: [3]float64{-1, -1, -1}, Des: [3]float64{-1, -1, -1}})
	for i, st := range snapStates {
		name := fmt.Sprintf("x%d", i)
		c.Init = append(c.Init, jspec{Name: name, Queue: "aux", Preemptible: i%2 == 1,
			Tasks: []tspec{{Name: name + "-t0", Kind: kWhole, N: 1, NodeMem: 100, State: st}}})
	}
	return c
}

// historyCorpus: the first cycles of the fixed two-cycle histories: a job is admitted and its bind request sent,
// which takes a queue (the leaf, an ancestor with two leaves below it, the leaf's deserved quota for non-preemptible
// jobs) exactly to its cap; the other jobs are refused. The second cycle (nextCycle) retries them with the admitted
// pods Binding / Bound / Running.
func historyCorpus() []seqCase {
	g1 := tspec{Kind: kWhole, N: 1}
	job := func(name, queue string, pre bool, ts ...tspec) jspec {
		j := jspec{Name: name, Queue: queue, Preemptible: pre}
		for i, t := range ts {
			t.Name = fmt.Sprintf("%s-t%d", name, i)
			t.NodeMem = 100
			j.Tasks = append(j.Tasks, t)
		}
		return j
	}
	hist := func(qs []qspec, js ...jspec) seqCase {
		c := seqCase{Queues: qs, Cycle: 1}
		for i := range js {
			c.Steps = append(c.Steps, seqStep{Op: "admit", Job: &js[i]}, seqStep{Op: "commit", Of: js[i].Name})
		}
		return withSweep(c)
	}
	twoLeaves := append(leafChain([3]float64{-1, 1, -1}, [3]float64{-1, -1, -1}),
		qspec{Name: "leaf2", Parent: "mid", Lim: [3]float64{-1, -1, -1}, Des: [3]float64{-1, -1, -1}})
	return []seqCase{
		// leaf limit 1 GPU, two preemptible 1-GPU jobs
		hist(leafChain([3]float64{-1, -1, 1}, [3]float64{-1, -1, -1}), job("a", "leaf", true, g1), job("b", "leaf", true, g1)),
		// limit 1 GPU on the ancestor only, jobs in two sibling leaves
		hist(twoLeaves, job("a", "leaf", true, g1), job("b", "leaf2", true, g1)),
		// deserved quota 1 GPU at the leaf (and 2 at the top), no limit, non-preemptible jobs
		hist(leafChain([3]float64{-1, -1, -1}, [3]float64{2, -1, 1}), job("a", "leaf", false, g1), job("b", "leaf", false, g1)),
		// leaf limit 2 GPUs: a 2-GPU job, then three 1-GPU jobs
		hist(leafChain([3]float64{-1, -1, 2}, [3]float64{-1, -1, -1}), job("a", "leaf", true, tspec{Kind: kWhole, N: 2}),
			job("b", "leaf", true, g1), job("c", "leaf", true, g1), job("d", "leaf", true, g1)),
		// fractions on two devices, limit 1 at the top: 2 x 0.5 fills it; a quarter is refused
		hist(leafChain([3]float64{1, -1, -1}, [3]float64{-1, -1, -1}), job("a", "leaf", false, tspec{Kind: kFraction, Portion: "0.5", N: 2}),
			job("b", "leaf", true, tspec{Kind: kFraction, Portion: "0.25"})),
	}
}

// witnessCase is the refutation witness of C08_limit / C08_nonpreemptible_quota
// (Proofs/Capacity.v, [witness_*]): one non-preemptible job with one gpu-memory
// task over two devices, half a GPU each, in a queue whose GPU limit and
// deserved quota are 0.5.
func witnessCase() seqCase {
	j := jspec{Name: "w", Queue: "leaf", Preemptible: false, Tasks: []tspec{{Name: "w-t0", Kind: kGpuMem, GpuMem: 50, N: 2, NodeMem: 100}}}
	return seqCase{Queues: []qspec{
		{Name: "top", Parent: "", Lim: [3]float64{-1, -1, -1}, Des: [3]float64{-1, -1, -1}},
		{Name: "leaf", Parent: "top", Lim: [3]float64{-1, -1, 0.5}, Des: [3]float64{-1, -1, 0.5}},
	}, Steps: []seqStep{{Op: "admit", Job: &j}}}
}

// mixedWitnessCase: one job with a single-device gpu-memory task (invisible to
// the job-level gate) followed by a 2-GPU task (of which the node-level gate
// checks one device) in a queue whose GPU limit is 2: ends at 2.5.
func mixedWitnessCase() seqCase {
	j := jspec{Name: "m", Queue: "leaf", Preemptible: true, Tasks: []tspec{
		{Name: "m-t0", Kind: kGpuMem, GpuMem: 50, NodeMem: 100}, {Name: "m-t1", Kind: kWhole, N: 2, NodeMem: 100}}}
	return seqCase{Queues: []qspec{
		{Name: "leaf", Parent: "", Lim: [3]float64{-1, -1, 2}, Des: [3]float64{-1, -1, -1}},
	}, Steps: []seqStep{{Op: "admit", Job: &j}}}
}

var _ = api.SchedulableResult{}

// Run generates n cases from seed and writes them under dir.
func Run(dir string, seed uint64, n int, tier string) error {
	if tier == "e2e" {
		return RunE2E()
	}
	if tier == "action-demo" {
		for _, c := range actionCorpus() {
			o := runActionCase(c)
			fmt.Println(o.Label)
			fmt.Printf("  counts: %v\n", o.Counts)
			for _, p := range o.Probes {
				fmt.Println("  " + p.Label[:strings.Index(p.Label, " OF ")])
			}
		}
		return nil
	}
	if tier == "hetero-demo" { // the fixed worlds of hetero.go, then n generated ones: what the real actions did
		cs := heteroCorpus()
		for i := 0; i < n; i++ {
			cs = append(cs, genHetero(u.NewRng(seed).Fork(uint64(8000000+i))))
		}
		for _, c := range cs {
			o := runActionCase(c)
			fmt.Println(o.Label)
			fmt.Printf("  counts: %v\n", o.Counts)
		}
		return nil
	}
	if tier == "witness" {
		for _, c := range []seqCase{mixedWitnessCase(), witnessCase()} {
			term, label, trace, counts, _ := runSeq(c)
			fmt.Println(label)
			fmt.Printf("trace: %+v\ncounts: %v\n%s\n", trace, counts, term)
		}
		return nil
	}
	out := u.NewOut(dir, "C08", "KaiV.Run.C08", "case", 50)
	root := u.NewRng(seed)
	if tier == "hetero-only" { // search aid: n sessions on clusters mixing GPU models, nothing else
		cs := heteroCorpus()
		for i := 0; i < n; i++ {
			cs = append(cs, genHetero(root.Fork(uint64(8000000+i))))
		}
		emitActions(out, cs)
		return out.Flush()
	}
	type seqResult struct {
		c      seqCase
		term   string
		label  string
		trace  []stepObs
		counts map[string]int
		end    map[string]endPod
	}
	runOne := func(c seqCase) seqResult {
		term, label, trace, counts, end := runSeq(c)
		return seqResult{c, term, label, trace, counts, end}
	}
	add := func(res seqResult, origin string) {
		c, term, label, trace, counts := res.c, res.term, res.label, res.trace, res.counts
		out.Add(term, origin+" "+label)
		out.Count("origin:" + origin)
		for k, v := range counts {
			out.CountN(k, v)
		}
		out.Count(fmt.Sprintf("queues:%d", len(c.Queues)))
		maxd := 0
		for _, q := range c.Queues {
			if d := depthOf(c.Queues, q.Name); d > maxd {
				maxd = d
			}
		}
		out.Count(fmt.Sprintf("depth:%d", maxd))
		// non-trivial: at least one admission and one refusal by a gate in the same sequence
		if counts["admit:AdmYes"] > 0 && counts["admit:AdmNo"] > 0 {
			out.NonTrivial(label)
		}
		if counts["step:commit"] > 0 {
			out.Count("sequences-with-commit")
		}
		if counts["step:commit"]-counts["commit-bind-failure:none"] > 0 {
			out.Count("sequences-with-bind-failure")
		}
		if counts["admitted-after-bind-failure"] > 0 {
			out.Count("sequences-admitting-after-bind-failure")
		}
		if c.Cycle > 1 {
			out.Count("later-cycle-sessions")
			out.Count("later-cycle-sessions:admitted-pods-seen-as-" + c.Binds)
			if counts["snapshot-pod:binding"] > 0 {
				out.Count("later-cycle-sessions-with-bind-request-in-flight")
				if counts["admit:AdmNo"] > 0 {
					out.Count("later-cycle-sessions-with-bind-request-in-flight-and-a-refusal")
				}
				if counts["admit:AdmYes"] > 0 {
					out.Count("later-cycle-sessions-with-bind-request-in-flight-and-an-admission")
				}
			}
		}
		if out.Len()%5 == 0 || c.Cycle > 1 && out.Len()%2 == 0 {
			out.Sample(map[string]any{"input": c, "observed": trace})
		}
	}
	emitSeq := func(c seqCase, origin string) map[string]endPod {
		res := runOne(c)
		add(res, origin)
		return res.end
	}
	// a history: cycle 1, then cycle 2 derived from the pods as cycle 1 left them, sometimes a cycle 3. laterFirst
	// (fixed histories): the case of the second session, whose label is the whole history, is emitted before the
	// case of the first.
	emitHistory := func(r *u.Rng, c seqCase, origin, mode string, extra int, laterFirst bool) {
		out.Count("histories")
		res1 := runOne(c)
		res2 := runOne(nextCycle(r, c, res1.end, mode, extra))
		if laterFirst {
			add(res2, origin)
			add(res1, origin)
		} else {
			add(res1, origin)
			add(res2, origin)
		}
		if extra > 0 && r.Chance(1, 4) {
			out.Count("histories-of-3-cycles")
			emitSeq(nextCycle(r, res2.c, res2.end, u.Pick(r, []string{"binding", "mixed", "running"}), r.Range(1, 3)), origin)
		}
	}
	emitDirect := func(c directCase, origin string) {
		term, label, obs, classes := runDirect(c)
		out.Add(term, origin+" "+label)
		out.Count("origin:" + origin)
		for _, k := range classes {
			out.Count("direct-" + k)
		}
		refused := false
		for _, v := range obs.Verdicts {
			refused = refused || v != "ok"
		}
		if refused {
			out.NonTrivial(label)
		}
		if out.Len()%7 == 0 {
			out.Sample(map[string]any{"input": c, "observed": obs})
		}
	}
	for i, c := range historyCorpus() {
		for k, mode := range []string{"binding", "bound", "running"} {
			emitHistory(u.NewRng(7).Fork(uint64(10*i+k)), c, "history-corpus", mode, 0, true)
		}
	}
	for _, c := range seqCorpus() {
		emitSeq(c, "corpus")
	}
	for i := 0; i < n; i++ {
		r := root.Fork(uint64(i))
		switch i % 10 {
		case 0, 1, 2:
			emitDirect(genDirect(r, false), "direct")
		case 3:
			if i%20 == 3 {
				emitDirect(genDirect(r, true), "direct-malformed")
			} else {
				emitDirect(genDirect(r, false), "direct")
			}
		case 4, 5, 6:
			emitSeq(genSeq(r, false, i%50 == 4, false), "seq")
		case 7:
			emitSeq(genSeq(r, true, false, false), "seq-any")
		default:
			emitHistory(r, genSeq(r, i%20 == 9, false, true), "history",
				u.Pick(r, []string{"binding", "binding", "mixed", "mixed", "bound", "running"}), r.Range(2, 5), false)
		}
	}
	// the ACTION stream: real sessions with the default plugin tiers on which the real actions run
	runActions(out, root, n/10)
	// TINY requests (tiny.go): after everything else, so that the indices of the older cases stay what they were
	runTiny(out, root, n, emitDirect, emitSeq)
	out.Stats["rule"] = "queue forests of depth 1-3 (<= 7 queues; limits and deserved quotas from {-1, 0, k/4 GPUs, k*500 mCPU, k*500 MB}); jobs of 1-3 tasks (whole, fractional x devices, gpu-memory x devices, MIG, DRA, CPU-only; dyadic quantities so that float64 arithmetic is exact). " +
		"n = the tier's count: 40% direct cases (capacity_policy.New on hand-set Allocated/AllocatedNotPreemptible near the caps, 1/8 of them malformed: unknown job queue, dangling parent, caps below -1, queue named \"\"); 40% single-cycle sequences; 20% HISTORIES of 2 cycles (1/4 of them 3 cycles), each cycle its own session and its own case, so a run of n has about n*(1+0.2*1.25) cases (quick: 3000 -> ~3790 cases, ~615 histories, ~770 later-cycle sessions, about half of which open with a bind request in flight and nearly all of those contain a refusal, 60% an admission; see histories, later-cycle-sessions* counts), after a fixed corpus of 15 two-cycle histories (5 scenarios that take a leaf limit / an ancestor's limit over two sibling leaves / a deserved quota / a 2-GPU limit / a limit via 2-device fractions exactly to the cap in cycle 1 and retry the refused jobs in cycle 2, x the admitted pods seen as Binding, Bound, Running) and 9 boundary sequences. " +
		"SNAPSHOT of every session (all sequences, every cycle of every history, the corpus): at least one pod in EACH of the 11 situations a queue's pod can be in when the snapshot is taken -- pending, gated, allocated (set by hand: getTaskStatus never returns it), binding (pending pod + BindRequest in flight), bound (nodeName, phase Pending), running, releasing on a node, releasing without node, succeeded, failed, unknown -- built by v1.Pod + BindRequest -> pod_info.NewTaskInfoWithBindRequest -> NodeInfo.AddTasksToNode; generated sessions: the 11 states in random order plus 0-3 more (binding/bound/running/allocated/pending/releasing) dealt over jobs of 1-3 pods, queue (deep ones preferred: depth 1/2/3 about 35/25/40%), preemptibility (50/50) and requests drawn per job, i.e. per quick run roughly 2600 pods in each state, each state with both preemptibilities and all three depths (snapshot-pod:<state>[:preemptible=..|:queue-depth=..] counts); three quarters of the finite caps are moved up by what the snapshot holds below them so that admissions and refusals keep their share (about 30% of the admit steps are admitted); corpus sessions carry the 11 states in an extra unlimited root queue. " +
		"LATER CYCLES: the snapshot is derived from the pods as the previous session left them: pods whose bind was sent (Binding) are seen as binding (bind request still in flight; 1/3 of the histories), bound, running (the control), or per pod one of the three (mixed, 1/3); pods allocated but never committed or whose bind failed are pending again, evicted pods terminating or gone, running pods sometimes finished; jobs that are entirely pending again after a refusal are retried first (<= 3), then 2-5 decisions on new jobs. " +
		"STEPS: 4-9 probe/admit/release decisions through the real session (proportion plugin's gates and handlers, one Statement per job: Allocate/Rollback, Evict; releases also hit snapshot pods in every holding status); in 2/3 of the single-cycle sequences and in all histories an admitted job is committed right away through the real Statement.Commit against a cache whose Bind fails for one chosen task (first / middle / last task of the job) or for none; after session open and after every step the plugin's per-queue Allocated and, independently, the set of pods whose status holds resources (Allocated/Pipelined/Binding/Bound/Running in the job's pod map) are observed; at session open also QueueFairShare of the root queues (the exported view on Request; skipped, fair-share-skipped count, when a pending gpu-memory pod's devices*memory/100 is not exact in float64); non-trivial = a direct case with at least one refusing gate, or a sequence with both an admitted and a refused job; distinct by full input. " +
		"ACTION stream (n/10 sessions after a corpus of 16; quick: 316 sessions + ~1100 gate probes): real sessions with EVERY plugin of the default tiers opened on real NodeInfo / PodGroupInfo / QueueInfo objects (1-3 nodes of 2-8 GPUs, GPU memory 100 / 8000 / 40000 MiB; queue trees of depth 1-3: leaf at top level, leaf under a department, leaf under a mid-level queue under a department, sibling or cousin leaves; about 30/40/30%) on which the REAL actions run: allocate, then preempt / reclaim / consolidation (the scheduler's order or another). Jobs are gangs. The nodes are (nearly) full of running whole-GPU jobs: victims of priority 50 in the pending job's own queue (family preempt, 3/8), in a sibling / cousin queue that runs over its deserved quota (reclaim, 2/8), spread so that no node has room for the job's pods although the cluster has (consolidation, 1/8), or drawn at random (mixed, 2/8); pending jobs of 1-3 pods asking 1-4 WHOLE GPUs per pod, a fraction (0.25/0.5/0.75) on 2-3 devices (now and then 1), mixes of both, 1 in 14 pods a gpu-memory request (single- or multi-device: the known finding, met through the real preempt action too), priority 75, or 110 = non-preemptible in a third of the preempt sessions. The GPU limit of ONE queue of the pending job's chain (leaf, mid level or department) -- and for a non-preemptible job in 2/3 of the cases the deserved quota -- is placed at (held now - what the victims needed for the job to fit free below it) + k, k drawn from 0..N (N = GPUs of the whole job, quarter steps, whole numbers preferred) in 2/3 of the sessions and N or N+1 in the rest: the cap lies below, INSIDE and above the span between 'one more device' and 'all devices of the job'; the other caps of the chain are unlimited or generous. Recorded: every Bind / TaskPipelined / Evict that reaches the cache, in order, with the pod's AcceptedResource at that moment; a Statement.Commit starts at a cache call before which a handler fired or a gate ran; at its first call the plugin's per-queue Allocated and the pods whose status holds resources are observed, and again when each action returns. Per commit the case holds ORelease per Evict and one OAdmit per job placed (mode pipeline-only for the solver actions) carrying the verdict of the REAL capacity_policy.IsJobOverQueueCapacity / IsTaskAllocationOnNodeOverCapacity (what Session.IsJobOverQueueCapacityFn dispatches to) on the usage recomputed from the pods before the placement: snapshot pods in the allocated class minus the evicted plus what was bound / nominated before in this cycle; the allocate action's job-level refusals (seen through the wrapped Session.IsJobOverCapacityFns[0], verdict of the live session) are OAdmit .. AdmNo steps at their place between the commits. counts action-*: commits per action (quick: ~145 preempt, ~27 reclaim, ~16 consolidation, ~25 allocate), jobs placed per action (multi-device jobs: ~120 by preempt, ~19 by reclaim, ~16 by consolidation), victims nominated again elsewhere, action-solver-multi-device-job-refused-by-job-gate-only = solver simulations in which a multi-device job passes every node-level gate and is refused by the job-level gate alone (~80 per quick run: exactly the decisions that go wrong when the job-level gate does not run in pipeline-only mode), action-solver-nomination-without-any-job-gate-call (absent = 0 on the unchanged tree). GATE PROBES (origin action-probe): at the first refusing and first accepting call per action and job (<= 5 per session) of the wrapped job-level gate -- allocate action and solver simulations alike, i.e. also in the simulated state after a scenario's evictions -- the three real gates of the live session are evaluated and the usage is recomputed from the pods as they are at that moment; each is a direct case (OProbe on queues with that usage). Not generated in the action stream: DRA claims, MIG, running fraction pods. non-trivial (action): a session with at least one solver commit, keyed by family / queues / nodes / commits per action / nominations whose job-level verdict is a refusal; a probe keyed by action and verdicts. " +
		"MIXED GPU MODELS (hetero.go; after the other action sessions: 13 fixed worlds, then n/15 generated sessions, quick: 200): clusters of 2-3 nodes (2-4 GPUs each) of 2-3 GPU models drawn from {500/100, 300/100, 400/100, 200/100, 400/200/100, 800/200, 40960/16384 and 81920/40960/16384 by label (floored to 40900/16300/81900 by the node), 40000/8000} MiB, in a third of the two-model clusters a second node of one model; in a quarter of the clusters the nodes of the biggest or second model carry a NoSchedule taint; queue tree of depth 1-2 (leaves a, b at top level or under department d); GPUs busy with running 1-GPU pods of queue b (the first = biggest node busy in 2/3 of the clusters, the others in 1/3: bin packing then ranks the nodes in varying orders, the big model first more often than not), in a quarter of the clusters a running 1-GPU pod of queue a (priority 50 or 110); 3-8 pending one-pod jobs (7/8 in queue a, priority 50/50/75/110/110, i.e. 2/5 non-preemptible): 70% gpu-memory requests on a single device asking 25/50/50/75/75/100 hundredths of a GPU of one model (3/4: the smallest model), 15% fractions 0.25/0.5/0.75, 15% one whole GPU; a gpu-memory pod may land only on nodes where its share is 0.25/0.5/0.75/1 (exact in float64): when that is every node it is left free half of the time, otherwise (and else) it is pinned to the nodes of its target model (2/3) or to a random non-empty subset of the exact nodes (1/3), by not tolerating the taint (when the allowed nodes are exactly the untainted ones, 2/3), by a node selector on the verif/gpu-model label (when they are exactly one model's nodes, 1/2) or on the node-name label (single node, 1/3), else by required node affinity (In on the node-name label); a third of the fraction / whole pods is pinned to one node; caps: at one level of a's chain the GPU limit (1/2 of the clusters), the deserved quota (1/3) or both at possibly different levels (1/6) = what the level holds + 1 or 2 (1 in 6: + 0.5), lowered below what a's pending pods ask in total in 2/3 of the cases where it would not bind; actions: allocate (2/3) or allocate, consolidation, reclaim, preempt (1/3). Fixed worlds: the world of seeded/C08-4's README (big = 2 GPUs x 500 with one GPU busy, small = 2 x 100, queue0 limit 1, two pods pinned to small; 75 units = 0.75 / 0.15 GPU instead of the README's 60 = 0.60 / 0.12, because 0.75 is exact in float64) with the pin as node affinity, node selector and taint, with 300/100 and 400/100 (half-GPU pods, three of them), each also with non-preemptible jobs against the deserved quota; the limit on the department over three models; an unpinned control; the 40960/16384 labels through all four actions. counts action-attempt-*: per placed pod how many candidates the attempt passed over (quick: ~300 pods after one, ~80 after two), how many of those were of another GPU model and with which live verdict; action-placed-gpu-memory-pod[-on-bigger-gpu-model]; action-placed-on-node-without-own-gate-call (absent = 0 on the unchanged tree: the pod went to a node for which the session's node-level gate was not the last one called for it). " +
		"TINY REQUESTS (tiny.go; after everything else): requests below the thresholds of ResourceRequirements.IsEmpty in every resource at once: a 0.01 GPU fraction (2/5-1/2 of the pods), milli-CPUs from {0, 0, 1, 3, 5, 5, 9}, memory from {0, 0, 1 B, 999999 B, 1 MB, 1 MiB, 5 MiB, 9 MiB}; caps from CPU {0, 0, 5, 10, 12, 20}m / memory {0, 0, 1, 2, 10, 20} MB at 3 of 10 places and GPU {0, 0.01, 0.02, 0.02} at 4 of 10 places of a genTree forest, as limit and as deserved quota, every root with GPU limit 0.02 (3/5), 0.01 or 0; n/20 direct cases (Allocated / AllocatedNotPreemptible within -10..+5m, -9 MiB..+1 MB of the cap, GPU 0 / 0.01 / 0.02; job of one tiny pod, 1 in 4 of two); 5 fixed sessions (the four README scenarios of seeded/C08-5 + a memory / CPU boundary chain) and n/30 generated ones (0-3 tiny pods already running / binding / bound, then 8-14 decisions on one-pod jobs concentrated on two queues, a third of the sessions with a run of non-preemptible attempts in one queue = elastic growth, 1 in 4 admissions committed, 1 in 12 with a failing bind); 6 fixed action sessions (README scenarios through the real allocate action, the elastic one as a PodGroup with minMember 1; scenario 1 through all four actions; an elastic workload of 1-byte pods against a memory limit 0 on the department) and n/60 generated ones (one node, tree of depth 1-3 with leaves a, b, 5-10 one-pod jobs and in half of them an elastic PodGroup of 3-6 pods, priority 50 / 75 / 110; a quarter runs all four actions)"
	return out.Flush()
}
