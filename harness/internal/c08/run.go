package c08

import (
	"fmt"
	"sort"
	"strings"

	"github.com/NVIDIA/KAI-scheduler/pkg/scheduler/api"
	"github.com/NVIDIA/KAI-scheduler/pkg/scheduler/api/common_info"
	"github.com/NVIDIA/KAI-scheduler/pkg/scheduler/api/pod_info"
	"github.com/NVIDIA/KAI-scheduler/pkg/scheduler/api/pod_status"
	"github.com/NVIDIA/KAI-scheduler/pkg/scheduler/api/podgroup_info"
	"github.com/NVIDIA/KAI-scheduler/pkg/scheduler/api/eviction_info"
	"github.com/NVIDIA/KAI-scheduler/pkg/scheduler/cache"
	"github.com/NVIDIA/KAI-scheduler/pkg/scheduler/framework"
	v1 "k8s.io/api/core/v1"
	"github.com/NVIDIA/KAI-scheduler/pkg/scheduler/plugins/proportion/capacity_policy"

	u "kaiverif/internal/util"
)

// ---- Coq terms ----------------------------------------------------------------

func queueTerm(q qspec, qid *ids) string {
	return fmt.Sprintf("{| q_id := %s; q_parent := %s; q_limit := %s; q_deserved := %s; q_alloc := %s; q_np := %s |}",
		u.Pos(qid.of(q.Name)), u.Pos(qid.of(q.Parent)), rqTerm(q.Lim), rqTerm(q.Des), rqTerm(q.Alloc), rqTerm(q.NP))
}

func otaskTerm(id int, t *pod_info.PodInfo, nodeMem int64, gate string, charge *[3]float64) string {
	ch := "None"
	if charge != nil {
		ch = u.Opt(true, rqTerm(*charge))
	}
	return fmt.Sprintf("{| ot_task := %s; ot_nm := %s; ot_gate := %s; ot_charge := %s |}",
		taskTerm(id, t), u.Pos(int(nodeMem)), gate, ch)
}

type stepObs struct {
	Kind     string   `json:"kind"`
	Job      string   `json:"job,omitempty"`
	Verdicts []string `json:"verdicts,omitempty"`
	Admitted string   `json:"admitted,omitempty"`
	Task     string   `json:"task,omitempty"`
}

// ---- direct stream: capacity_policy.New on hand-built attributes ----------------

type directCase struct {
	Queues []qspec `json:"queues"`
	Job    jspec   `json:"job"`
}

func runDirect(c directCase) (term, label string, obs stepObs, classes []string) {
	w := newWorld()
	qid := newIds()
	for _, q := range c.Queues {
		qid.of(q.Name)
	}
	cp := capacity_policy.New(queueAttrs(c.Queues))
	var tasks []*pod_info.PodInfo
	for _, t := range c.Job.Tasks {
		tasks = append(tasks, w.task(c.Job.Name, t))
	}
	job := w.job(c.Job, tasks)
	vjob, k1 := verdictTerm(cp.IsJobOverQueueCapacity(job, tasks), qid)
	vnp, k2 := verdictTerm(cp.IsNonPreemptibleJobOverQuota(job, tasks), qid)
	obs = stepObs{Kind: "probe", Job: c.Job.label(), Verdicts: []string{k1, k2}}
	classes = []string{"job:" + k1, "np:" + k2}
	var ots []string
	for i, t := range tasks {
		v, k := verdictTerm(cp.IsTaskAllocationOnNodeOverCapacity(t, job, w.node(c.Job.Tasks[i].NodeMem)), qid)
		ots = append(ots, otaskTerm(i+1, t, c.Job.Tasks[i].NodeMem, u.Opt(true, v), nil))
		obs.Verdicts = append(obs.Verdicts, k)
		classes = append(classes, "node:"+k)
	}
	step := u.App("OProbe", u.Pos(qid.of(c.Job.Queue)), u.Bool(c.Job.Preemptible), u.List(ots), vjob, vnp)
	qts := make([]string, len(c.Queues))
	for i, q := range c.Queues {
		qts[i] = queueTerm(q, qid)
	}
	term = fmt.Sprintf("{| k_queues := %s; k_init := []; k_init_obs := None; k_steps := [%s] |}",
		u.List(qts), u.Pair(step, "None"))
	var ql []string
	for _, q := range c.Queues {
		ql = append(ql, fmt.Sprintf("%s<%s lim=%v des=%v alloc=%v np=%v", q.Name, q.Parent, q.Lim, q.Des, q.Alloc, q.NP))
	}
	label = "direct queues={" + strings.Join(ql, "; ") + "} job=" + c.Job.label()
	return
}

func genDirect(r *u.Rng, malformed bool) directCase {
	qs := genTree(r)
	for i := range qs {
		for k := 0; k < 3; k++ {
			var unit float64
			switch k {
			case 0:
				unit = 500
			case 1:
				unit = 500e6
			default:
				unit = 0.25
			}
			// allocated near the cap so that the comparison is exercised on both sides and at equality
			base := qs[i].Lim[k]
			if base < 0 || r.Chance(1, 3) {
				base = unit * float64(r.Range(0, 16))
			}
			qs[i].Alloc[k] = base + unit*float64(r.Range(-4, 2))
			if qs[i].Alloc[k] < 0 && !malformed {
				qs[i].Alloc[k] = 0
			}
			nb := qs[i].Des[k]
			if nb < 0 || r.Chance(1, 3) {
				nb = unit * float64(r.Range(0, 8))
			}
			qs[i].NP[k] = nb + unit*float64(r.Range(-4, 2))
			if qs[i].NP[k] < 0 && !malformed {
				qs[i].NP[k] = 0
			}
		}
	}
	queue := qs[r.Intn(len(qs))].Name
	if malformed {
		switch r.Intn(4) {
		case 0: // job in a queue that does not exist
			queue = "ghost"
		case 1: // dangling parent
			qs[r.Intn(len(qs))].Parent = "ghost"
		case 2: // caps below -1 are ordinary (negative) numbers, not "unlimited"
			qs[r.Intn(len(qs))].Lim[2] = -2
			qs[r.Intn(len(qs))].Des[0] = -1000
		default: // a queue literally named "": every top-level queue's ParentQueue ("") resolves to it
			if len(qs) < 7 {
				qs = append(qs, qspec{Name: "", Parent: "ghost", Lim: [3]float64{-1, -1, genGpuCap(r)}, Des: [3]float64{-1, -1, genGpuCap(r)},
					Alloc: [3]float64{0, 0, float64(r.Range(0, 8)) / 4}, NP: [3]float64{0, 0, float64(r.Range(0, 4)) / 4}})
			}
		}
	}
	return directCase{Queues: qs, Job: genJob(r, "job", queue, 2)}
}

// ---- session stream: real gates + real handlers over a sequence -----------------

type seqStep struct {
	Op   string `json:"op"` // probe | admit | release | commit
	Job  *jspec `json:"job,omitempty"`
	Task string `json:"task,omitempty"` // release: name of a charged task
	// commit: Statement.Commit of the statement holding the allocations of job Of (skipped unless that
	// job was admitted by the step before); Cache.Bind fails for its Fail-th task (1-based; 0: no failure).
	Of   string `json:"of,omitempty"`
	Fail int    `json:"failBindOfTask,omitempty"`
}

func (s seqStep) label() string {
	switch {
	case s.Job != nil:
		return s.Op + " " + s.Job.label()
	case s.Op == "commit" && s.Fail <= 0:
		return "commit " + s.Of + " binds-ok"
	case s.Op == "commit":
		return fmt.Sprintf("commit %s bind-fails=%s-t%d", s.Of, s.Of, s.Fail-1)
	}
	return s.Op + " " + s.Task
}

// bindCache is the session's cache for Statement.Commit: Bind fails for the one
// task named failFor (same idea as the recorder of harness/internal/cycle); the
// embedded interface is nil, nothing else of the cache is reached by Commit.
type bindCache struct {
	cache.Cache
	failFor string
	bound   []string
	failed  []string
}

func (c *bindCache) Bind(p *pod_info.PodInfo, hostname string, _ map[string]string) error {
	if p.Name == c.failFor {
		c.failed = append(c.failed, p.Name)
		return fmt.Errorf("injected bind failure for %s", p.Name)
	}
	c.bound = append(c.bound, p.Name)
	return nil
}

func (c *bindCache) Evict(*v1.Pod, *podgroup_info.PodGroupInfo, eviction_info.EvictionMetadata, string) error {
	return nil
}

func (c *bindCache) TaskPipelined(*pod_info.PodInfo, string) {}

type seqCase struct {
	Queues []qspec   `json:"queues"`
	Init   []jspec   `json:"running"` // snapshot: jobs whose tasks are Running
	Steps  []seqStep `json:"steps"`
}

// obsQueues observes, after a step, the plugin's counters (through
// Session.QueueAllocatedResources) and, independently of the plugin, the tasks
// that really hold resources: every pod in the pod map of every job of the
// session whose status is Allocated, Pipelined, Binding, Bound or Running.
func obsQueues(ssn *framework.Session, c seqCase, qid, tid *ids) string {
	var out []string
	for _, q := range c.Queues {
		qi := ssn.ClusterInfo.Queues[common_info.QueueID(q.Name)]
		rr := ssn.QueueAllocatedResources(qi)
		out = append(out, fmt.Sprintf("{| oq_id := %s; oq_alloc := %s |}", u.Pos(qid.of(q.Name)),
			rqTerm([3]float64{rr.Cpu(), rr.Memory(), rr.GPUs()})))
	}
	var hold []int
	for _, job := range ssn.ClusterInfo.PodGroupInfos {
		for _, p := range job.GetAllPodsMap() {
			if pod_status.IsActiveAllocatedStatus(p.Status) {
				hold = append(hold, tid.of(p.Name))
			}
		}
	}
	sort.Ints(hold)
	hs := make([]string, len(hold))
	for i, h := range hold {
		hs[i] = u.Pos(h)
	}
	return u.Opt(true, fmt.Sprintf("{| ob_queues := %s; ob_holders := %s |}", u.List(out), u.List(hs)))
}

func le3(a, b [3]float64) bool { return a[0] <= b[0] && a[1] <= b[1] && a[2] <= b[2] }

func runSeq(c seqCase) (term, label string, trace []stepObs, counts map[string]int) {
	counts = map[string]int{}
	w := newWorld()
	qid := newIds()
	for _, q := range c.Queues {
		qid.of(q.Name)
	}
	tid := newIds()
	jobs := map[common_info.PodGroupID]*podgroup_info.PodGroupInfo{}
	type jrec struct {
		spec      jspec
		job       *podgroup_info.PodGroupInfo
		tasks     []*pod_info.PodInfo
		stmt      *framework.Statement // the statement that holds this job's allocations (one per job, as in the actions)
		admitted  bool
		committed bool
	}
	build := func(j jspec, running bool) *jrec {
		rec := &jrec{spec: j}
		for _, t := range j.Tasks {
			ti := w.task(j.Name, t)
			tid.of(t.Name)
			if running {
				n := w.node(t.NodeMem)
				ti.Status = pod_status.Running
				ti.NodeName = n.Name
				if err := n.AddTask(ti); err != nil {
					panic(err)
				}
			} else {
				w.node(t.NodeMem)
			}
			rec.tasks = append(rec.tasks, ti)
		}
		rec.job = w.job(j, rec.tasks)
		jobs[rec.job.UID] = rec.job
		return rec
	}
	var inits []*jrec
	for _, j := range c.Init {
		inits = append(inits, build(j, true))
	}
	recs := map[string]*jrec{}
	for _, s := range c.Steps {
		if s.Job != nil {
			recs[s.Job.Name] = build(*s.Job, false)
		}
	}
	ssn := w.session(c.Queues, jobs)
	bc := &bindCache{}
	ssn.Cache = bc
	stmt := ssn.Statement() // holds the evictions

	// task name -> job record of a charged task. The task object itself is looked up in the job's pod
	// map when needed: Commit puts the operation's clone of the task there.
	charged := map[string]*jrec{}
	current := func(rec *jrec, name string) *pod_info.PodInfo {
		return rec.job.GetAllPodsMap()[common_info.PodID(name)]
	}
	lastAdmitted := ""
	bindFailed := false
	var initTerms []string
	for _, rec := range inits {
		for i, ti := range rec.tasks {
			ch := chargeOf(ti)
			charged[rec.spec.Tasks[i].Name] = rec
			initTerms = append(initTerms, u.Tuple(u.Pos(qid.of(rec.spec.Queue)), u.Bool(rec.spec.Preemptible),
				otaskTerm(tid.of(rec.spec.Tasks[i].Name), ti, rec.spec.Tasks[i].NodeMem, "None", &ch)))
		}
	}
	initObs := obsQueues(ssn, c, qid, tid)

	var stepTerms []string
	var uncovered []string
	for _, s := range c.Steps {
		switch s.Op {
		case "release":
			rec := charged[s.Task]
			if rec == nil {
				continue
			}
			// the real pod decides: a task that no longer holds resources (whatever the harness
			// believes) cannot be evicted; the observations after the earlier steps show the difference
			ti := current(rec, s.Task)
			if ti == nil || !pod_status.IsActiveAllocatedStatus(ti.Status) {
				counts["release-skipped:pod-holds-nothing"]++
				delete(charged, s.Task)
				continue
			}
			lastAdmitted = ""
			if err := stmt.Evict(ti, "c08", eviction_info.EvictionMetadata{}); err != nil {
				counts["release-error"]++ // still observed below: the model expects a clean release
			}
			delete(charged, s.Task)
			stepTerms = append(stepTerms, u.Pair(u.App("ORelease", u.Pos(tid.of(s.Task))), obsQueues(ssn, c, qid, tid)))
			trace = append(trace, stepObs{Kind: "release", Task: s.Task})
			counts["step:release"]++
		case "commit":
			rec := recs[s.Of]
			if rec == nil || !rec.admitted || rec.committed || lastAdmitted != s.Of {
				continue
			}
			lastAdmitted = ""
			rec.committed = true
			bc.failFor, bc.failed = "", nil
			pos := "none"
			if s.Fail > 0 {
				ix := s.Fail - 1
				if ix >= len(rec.tasks) {
					ix = len(rec.tasks) - 1
				}
				bc.failFor = rec.spec.Tasks[ix].Name
				switch {
				case len(rec.tasks) == 1:
					pos = "only-task"
				case ix == 0:
					pos = "first"
				case ix == len(rec.tasks)-1:
					pos = "last"
				default:
					pos = "middle"
				}
			}
			err := rec.stmt.Commit()
			if (err != nil) != (s.Fail > 0) || (s.Fail > 0) != (len(bc.failed) == 1) {
				// not what Commit does today (it returns the bind error, after exactly one failed Bind call);
				// the observations below are what counts
				counts["commit-unexpected-result"]++
			}
			step := "OCommitOk"
			if s.Fail > 0 {
				step = u.App("OBindFail", u.Pos(tid.of(bc.failFor)))
				delete(charged, bc.failFor)
				bindFailed = true
			}
			stepTerms = append(stepTerms, u.Pair(step, obsQueues(ssn, c, qid, tid)))
			trace = append(trace, stepObs{Kind: "commit", Job: s.Of, Task: bc.failFor})
			counts["step:commit"]++
			counts["commit-bind-failure:"+pos]++
			bc.failFor = ""
		case "probe":
			rec := recs[s.Job.Name]
			vjob, k1 := verdictTerm(ssn.IsJobOverQueueCapacityFn(rec.job, rec.tasks), qid)
			vnp, k2 := verdictTerm(ssn.IsNonPreemptibleJobOverQueueQuotaFn(rec.job, rec.tasks), qid)
			o := stepObs{Kind: "probe", Job: rec.spec.label(), Verdicts: []string{k1, k2}}
			var ots []string
			for i, t := range rec.tasks {
				v, k := verdictTerm(ssn.IsTaskAllocationOnNodeOverCapacityFn(t, rec.job, w.node(rec.spec.Tasks[i].NodeMem)), qid)
				ots = append(ots, otaskTerm(tid.of(rec.spec.Tasks[i].Name), t, rec.spec.Tasks[i].NodeMem, u.Opt(true, v), nil))
				o.Verdicts = append(o.Verdicts, k)
			}
			stepTerms = append(stepTerms, u.Pair(u.App("OProbe", u.Pos(qid.of(rec.spec.Queue)), u.Bool(rec.spec.Preemptible),
				u.List(ots), vjob, vnp), "None"))
			trace = append(trace, o)
			counts["step:probe"]++
			counts["probe-job:"+k1]++
		case "admit":
			rec := recs[s.Job.Name]
			res := ssn.IsJobOverQueueCapacityFn(rec.job, rec.tasks)
			vjob, k1 := verdictTerm(res, qid)
			o := stepObs{Kind: "admit", Job: rec.spec.label(), Verdicts: []string{k1}}
			gates := make([]string, len(rec.tasks))
			charges := make([]*[3]float64, len(rec.tasks))
			for i := range gates {
				gates[i] = "None"
			}
			admitted := "AdmNo"
			lastAdmitted = ""
			rec.stmt = ssn.Statement()
			if res.IsSchedulable {
				admitted = "AdmYes"
				stmt := rec.stmt
				cp := stmt.Checkpoint()
				for i, t := range rec.tasks {
					node := w.node(rec.spec.Tasks[i].NodeMem)
					r := ssn.IsTaskAllocationOnNodeOverCapacityFn(t, rec.job, node)
					v, k := verdictTerm(r, qid)
					gates[i] = u.Opt(true, v)
					o.Verdicts = append(o.Verdicts, k)
					if !r.IsSchedulable {
						admitted = "AdmNo"
						if err := stmt.Rollback(cp); err != nil {
							panic(err)
						}
						counts["admit-refused-by:node-"+k]++
						break
					}
					if panicked := allocate(stmt, t, node.Name); panicked {
						admitted = "AdmPanic"
						break
					}
					ch := chargeOf(t)
					charges[i] = &ch
				}
			} else {
				counts["admit-refused-by:job-"+k1]++
			}
			if admitted != "AdmYes" {
				for i := range charges {
					charges[i] = nil
				}
			} else {
				allJob, allNode := true, true
				rec.admitted = true
				lastAdmitted = rec.spec.Name
				if bindFailed {
					counts["admitted-after-bind-failure"]++
				}
				for i, t := range rec.tasks {
					charged[rec.spec.Tasks[i].Name] = rec
					jr := [3]float64{t.ResReq.Cpu(), t.ResReq.Memory(), t.ResReq.GetGpusQuota()}
					nq := w.node(rec.spec.Tasks[i].NodeMem).GetRequiredInitQuota(t)
					nr := [3]float64{nq.MilliCPU, nq.Memory, nq.GPU}
					allJob = allJob && le3(*charges[i], jr)
					allNode = allNode && le3(*charges[i], nr)
				}
				if !allJob && !allNode {
					uncovered = append(uncovered, rec.spec.Name)
					counts["admitted:uncovered"]++
				} else {
					counts["admitted:covered"]++
				}
			}
			var ots []string
			for i, t := range rec.tasks {
				ots = append(ots, otaskTerm(tid.of(rec.spec.Tasks[i].Name), t, rec.spec.Tasks[i].NodeMem, gates[i], charges[i]))
			}
			o.Admitted = admitted
			obs := "None"
			if admitted != "AdmPanic" {
				obs = obsQueues(ssn, c, qid, tid)
			}
			stepTerms = append(stepTerms, u.Pair(u.App("OAdmit", u.Pos(qid.of(rec.spec.Queue)), u.Bool(rec.spec.Preemptible),
				u.List(ots), vjob, admitted), obs))
			trace = append(trace, o)
			counts["step:admit"]++
			counts["admit:"+admitted]++
			if admitted == "AdmPanic" {
				goto done
			}
		}
	}
done:
	qts := make([]string, len(c.Queues))
	for i, q := range c.Queues {
		qts[i] = queueTerm(q, qid)
	}
	term = fmt.Sprintf("{| k_queues := %s; k_init := %s; k_init_obs := %s; k_steps := %s |}",
		u.List(qts), u.List(initTerms), initObs, u.List(stepTerms))

	var ql []string
	for _, q := range c.Queues {
		ql = append(ql, fmt.Sprintf("%s<%s lim=%v des=%v", q.Name, q.Parent, q.Lim, q.Des))
	}
	var sl []string
	for _, j := range c.Init {
		sl = append(sl, "running "+j.label())
	}
	for _, s := range c.Steps {
		sl = append(sl, s.label())
	}
	tag := "uncovered-admitted=none"
	if len(uncovered) > 0 {
		sort.Strings(uncovered)
		tag = "uncovered-admitted=" + strings.Join(uncovered, ",")
	}
	label = "seq " + tag + " queues={" + strings.Join(ql, "; ") + "} steps={" + strings.Join(sl, "; ") + "}"
	return
}

// allocate runs Statement.Allocate (node.AddTask sets AcceptedResource, then the
// proportion plugin's allocate handler fires) and reports a Go panic.
func allocate(stmt *framework.Statement, t *pod_info.PodInfo, node string) (panicked bool) {
	defer func() {
		if r := recover(); r != nil {
			panicked = true
		}
	}()
	if err := stmt.Allocate(t, node); err != nil {
		panic(err)
	}
	return false
}

func genSeq(r *u.Rng, allowUncovered bool, malformed bool) seqCase {
	c := seqCase{Queues: genTree(r)}
	pickQueue := func() string {
		// prefer deep queues so that walks cross several levels
		best := c.Queues[r.Intn(len(c.Queues))].Name
		for k := 0; k < 2; k++ {
			cand := c.Queues[r.Intn(len(c.Queues))].Name
			if depthOf(c.Queues, cand) > depthOf(c.Queues, best) {
				best = cand
			}
		}
		return best
	}
	class := func() int {
		if allowUncovered && r.Chance(1, 2) {
			return 2
		}
		return r.Intn(2)
	}
	// two thirds of the sequences commit some of their admitted jobs through Statement.Commit, most of
	// them with a Cache.Bind that fails for the first, a middle or the last task of the job; their
	// jobs more often have 2-3 tasks, so that tasks are left on both sides of the failing one
	commits := r.Chance(2, 3)
	jn := 0
	newJob := func() jspec {
		jn++
		min := 1
		if commits && r.Chance(1, 2) {
			min = r.Range(2, 3)
		}
		return genJobMin(r, fmt.Sprintf("j%d", jn), pickQueue(), class(), min)
	}
	var live []string
	for i, n := 0, r.Intn(3); i < n; i++ {
		j := newJob()
		c.Init = append(c.Init, j)
		for _, t := range j.Tasks {
			live = append(live, t.Name)
		}
	}
	steps := r.Range(4, 9)
	for i := 0; i < steps; i++ {
		switch k := r.Intn(10); {
		case k < 6:
			j := newJob()
			c.Steps = append(c.Steps, seqStep{Op: "admit", Job: &j})
			for _, t := range j.Tasks { // released only if it turns out to be charged
				live = append(live, t.Name)
			}
			if commits && r.Chance(2, 3) {
				fail := 0
				if !r.Chance(1, 4) {
					fail = []int{1, len(j.Tasks)/2 + 1, len(j.Tasks)}[r.Intn(3)]
				}
				c.Steps = append(c.Steps, seqStep{Op: "commit", Of: j.Name, Fail: fail})
			}
		case k < 8 && len(live) > 0:
			ix := r.Intn(len(live))
			c.Steps = append(c.Steps, seqStep{Op: "release", Task: live[ix]})
			live = append(live[:ix], live[ix+1:]...)
		default:
			j := newJob()
			c.Steps = append(c.Steps, seqStep{Op: "probe", Job: &j})
		}
	}
	if malformed { // last decision concerns a job whose queue is not in the snapshot
		j := newJob()
		j.Queue = "ghost"
		c.Steps = append(c.Steps, seqStep{Op: "admit", Job: &j})
	}
	return c
}

// ---- fixed boundary corpus -------------------------------------------------------

func leafChain(limGpu, desGpu [3]float64) []qspec {
	return []qspec{
		{Name: "top", Parent: "", Lim: [3]float64{-1, -1, limGpu[0]}, Des: [3]float64{-1, -1, desGpu[0]}},
		{Name: "mid", Parent: "top", Lim: [3]float64{-1, -1, limGpu[1]}, Des: [3]float64{-1, -1, desGpu[1]}},
		{Name: "leaf", Parent: "mid", Lim: [3]float64{-1, -1, limGpu[2]}, Des: [3]float64{-1, -1, desGpu[2]}},
	}
}

func seqCorpus() []seqCase {
	var out []seqCase
	one := func(name string, t tspec, pre bool) jspec {
		t.Name = name + "-t0"
		if t.NodeMem == 0 {
			t.NodeMem = 100
		}
		return jspec{Name: name, Queue: "leaf", Preemptible: pre, Tasks: []tspec{t}}
	}
	adm := func(j jspec) seqStep { return seqStep{Op: "admit", Job: &j} }
	// exactly at the limit of an ancestor, then one more
	out = append(out, seqCase{Queues: leafChain([3]float64{2, -1, -1}, [3]float64{-1, -1, -1}), Steps: []seqStep{
		adm(one("a", tspec{Kind: kWhole, N: 2}, true)), adm(one("b", tspec{Kind: kFraction, Portion: "0.25"}, true)),
		{Op: "release", Task: "a-t0"}, adm(one("c", tspec{Kind: kWhole, N: 1}, true))}})
	// limit 0 and deserved 0
	out = append(out, seqCase{Queues: leafChain([3]float64{-1, 0, -1}, [3]float64{-1, -1, 0}), Steps: []seqStep{
		adm(one("a", tspec{Kind: kCPU, CPUm: 500}, false)), adm(one("b", tspec{Kind: kWhole, N: 1}, true)),
		adm(one("c", tspec{Kind: kFraction, Portion: "0.5"}, false))}})
	// non-preemptible within deserved at every level
	out = append(out, seqCase{Queues: leafChain([3]float64{-1, -1, -1}, [3]float64{1, 2, 0.5}), Steps: []seqStep{
		adm(one("a", tspec{Kind: kFraction, Portion: "0.5"}, false)), adm(one("b", tspec{Kind: kFraction, Portion: "0.25"}, false)),
		adm(one("c", tspec{Kind: kFraction, Portion: "0.25"}, true)), adm(one("d", tspec{Kind: kWhole, N: 1}, true))}})
	// snapshot already above a (lowered) limit: releases allowed, raises refused
	out = append(out, seqCase{Queues: leafChain([3]float64{1, -1, -1}, [3]float64{-1, -1, -1}),
		Init: []jspec{one("r", tspec{Kind: kWhole, N: 2}, true)}, Steps: []seqStep{
			adm(one("a", tspec{Kind: kFraction, Portion: "0.25"}, true)), {Op: "release", Task: "r-t0"},
			adm(one("b", tspec{Kind: kFraction, Portion: "0.25"}, true))}})
	// single-device gpu-memory request: only the node-level gate sees it
	out = append(out, seqCase{Queues: leafChain([3]float64{-1, -1, 0.5}, [3]float64{-1, -1, -1}), Steps: []seqStep{
		adm(one("a", tspec{Kind: kGpuMem, GpuMem: 50}, true)), adm(one("b", tspec{Kind: kGpuMem, GpuMem: 25}, true))}})
	// Statement.Commit with a failing Cache.Bind, limit 2 on an ancestor: job a = 2 x 1 GPU fills it;
	// the bind of one task fails; exactly one more GPU fits afterwards (b), not two (c). First, last task.
	multi := func(name string, pre bool, ts ...tspec) jspec {
		j := jspec{Name: name, Queue: "leaf", Preemptible: pre}
		for i, t := range ts {
			t.Name = fmt.Sprintf("%s-t%d", name, i)
			if t.NodeMem == 0 {
				t.NodeMem = 100
			}
			j.Tasks = append(j.Tasks, t)
		}
		return j
	}
	g1 := tspec{Kind: kWhole, N: 1}
	for _, fail := range []int{1, 2} {
		out = append(out, seqCase{Queues: leafChain([3]float64{2, -1, -1}, [3]float64{-1, -1, -1}), Steps: []seqStep{
			adm(multi("a", true, g1, g1)), {Op: "commit", Of: "a", Fail: fail},
			adm(one("b", g1, true)), {Op: "commit", Of: "b"}, adm(one("c", g1, true))}})
	}
	// three tasks, the middle bind fails: the third stays Allocated (never bound) and charged; releasing
	// it makes room for a second GPU. Non-preemptible: deserved quota 3 at the leaf.
	out = append(out, seqCase{Queues: leafChain([3]float64{-1, -1, -1}, [3]float64{-1, -1, 3}), Steps: []seqStep{
		adm(multi("a", false, g1, g1, g1)), {Op: "commit", Of: "a", Fail: 2},
		adm(multi("b", false, g1, g1)), adm(one("c", g1, false)), {Op: "release", Task: "a-t2"},
		adm(one("d", g1, false)), {Op: "commit", Of: "d", Fail: 1}, adm(one("e", g1, false))}})
	// plain commit changes nothing: the queue stays full
	out = append(out, seqCase{Queues: leafChain([3]float64{-1, 1, -1}, [3]float64{-1, -1, -1}), Steps: []seqStep{
		adm(multi("a", true, tspec{Kind: kFraction, Portion: "0.5"}, tspec{Kind: kFraction, Portion: "0.5"})),
		{Op: "commit", Of: "a"}, adm(one("b", tspec{Kind: kFraction, Portion: "0.25"}, true)),
		{Op: "release", Task: "a-t0"}, adm(one("c", tspec{Kind: kFraction, Portion: "0.5"}, true))}})
	return out
}

// witnessCase is the refutation witness of C08_limit / C08_nonpreemptible_quota
// (Proofs/Capacity.v, [witness_*]): one non-preemptible job with one gpu-memory
// task over two devices, half a GPU each, in a queue whose GPU limit and
// deserved quota are 0.5.
func witnessCase() seqCase {
	j := jspec{Name: "w", Queue: "leaf", Preemptible: false, Tasks: []tspec{{Name: "w-t0", Kind: kGpuMem, GpuMem: 50, N: 2, NodeMem: 100}}}
	return seqCase{Queues: []qspec{
		{Name: "top", Parent: "", Lim: [3]float64{-1, -1, -1}, Des: [3]float64{-1, -1, -1}},
		{Name: "leaf", Parent: "top", Lim: [3]float64{-1, -1, 0.5}, Des: [3]float64{-1, -1, 0.5}},
	}, Steps: []seqStep{{Op: "admit", Job: &j}}}
}

// mixedWitnessCase: one job with a single-device gpu-memory task (invisible to
// the job-level gate) followed by a 2-GPU task (of which the node-level gate
// checks one device) in a queue whose GPU limit is 2: ends at 2.5.
func mixedWitnessCase() seqCase {
	j := jspec{Name: "m", Queue: "leaf", Preemptible: true, Tasks: []tspec{
		{Name: "m-t0", Kind: kGpuMem, GpuMem: 50, NodeMem: 100}, {Name: "m-t1", Kind: kWhole, N: 2, NodeMem: 100}}}
	return seqCase{Queues: []qspec{
		{Name: "leaf", Parent: "", Lim: [3]float64{-1, -1, 2}, Des: [3]float64{-1, -1, -1}},
	}, Steps: []seqStep{{Op: "admit", Job: &j}}}
}

var _ = api.SchedulableResult{}

// Run generates n cases from seed and writes them under dir.
func Run(dir string, seed uint64, n int, tier string) error {
	if tier == "e2e" {
		return RunE2E()
	}
	if tier == "witness" {
		for _, c := range []seqCase{mixedWitnessCase(), witnessCase()} {
			term, label, trace, counts := runSeq(c)
			fmt.Println(label)
			fmt.Printf("trace: %+v\ncounts: %v\n%s\n", trace, counts, term)
		}
		return nil
	}
	out := u.NewOut(dir, "C08", "KaiV.Run.C08", "case", 50)
	root := u.NewRng(seed)
	emitSeq := func(c seqCase, origin string) {
		term, label, trace, counts := runSeq(c)
		out.Add(term, origin+" "+label)
		out.Count("origin:" + origin)
		for k, v := range counts {
			out.CountN(k, v)
		}
		out.Count(fmt.Sprintf("queues:%d", len(c.Queues)))
		maxd := 0
		for _, q := range c.Queues {
			if d := depthOf(c.Queues, q.Name); d > maxd {
				maxd = d
			}
		}
		out.Count(fmt.Sprintf("depth:%d", maxd))
		// non-trivial: at least one admission and one refusal by a gate in the same sequence
		if counts["admit:AdmYes"] > 0 && counts["admit:AdmNo"] > 0 {
			out.NonTrivial(label)
		}
		if counts["step:commit"] > 0 {
			out.Count("sequences-with-commit")
		}
		if counts["step:commit"]-counts["commit-bind-failure:none"] > 0 {
			out.Count("sequences-with-bind-failure")
		}
		if counts["admitted-after-bind-failure"] > 0 {
			out.Count("sequences-admitting-after-bind-failure")
		}
		out.Sample(map[string]any{"input": c, "observed": trace})
	}
	emitDirect := func(c directCase, origin string) {
		term, label, obs, classes := runDirect(c)
		out.Add(term, origin+" "+label)
		out.Count("origin:" + origin)
		for _, k := range classes {
			out.Count("direct-" + k)
		}
		refused := false
		for _, v := range obs.Verdicts {
			refused = refused || v != "ok"
		}
		if refused {
			out.NonTrivial(label)
		}
		if out.Len()%7 == 0 {
			out.Sample(map[string]any{"input": c, "observed": obs})
		}
	}
	for _, c := range seqCorpus() {
		emitSeq(c, "corpus")
	}
	for i := 0; i < n; i++ {
		r := root.Fork(uint64(i))
		switch i % 10 {
		case 0, 1, 2, 3:
			emitDirect(genDirect(r, false), "direct")
		case 4:
			emitDirect(genDirect(r, true), "direct-malformed")
		case 5, 6, 7:
			emitSeq(genSeq(r, false, false), "seq")
		case 8:
			emitSeq(genSeq(r, true, false), "seq-any")
		default:
			emitSeq(genSeq(r, false, i%50 == 9), "seq")
		}
	}
	out.Stats["rule"] = "queue forests of depth 1-3 (<= 7 queues; limits and deserved quotas from {-1, 0, k/4 GPUs, k*500 mCPU, k*500 MB}); jobs of 1-3 tasks (whole, fractional x devices, gpu-memory x devices, MIG, DRA, CPU-only; dyadic quantities so that float64 arithmetic is exact); 50% direct cases (capacity_policy.New on hand-set Allocated/AllocatedNotPreemptible near the caps, 1/5 of them malformed: unknown job queue, dangling parent, caps below -1, queue named \"\"), 50% sequences of 4-9 probe/admit/release decisions through a real session (proportion plugin's gates and handlers, one Statement per job: Allocate/Rollback, Evict) after a fixed boundary corpus; in 2/3 of the sequences (jobs then more often have 2-3 tasks) an admitted job is, with probability 2/3, committed right away through the real Statement.Commit against a cache whose Bind fails for one chosen task (first / middle / last task of the job, 3/4 of the commits) or for none (1/4), and the sequence goes on with further probe/admit/release steps on the same session (about 30% of all sequences contain a commit, 25% a bind failure, 13% admit another job after a bind failure; see the commit-bind-failure:* and sequences-* counts); after every step the plugin's per-queue Allocated and, independently, the set of pods whose status holds resources (Allocated/Pipelined/Binding/Bound/Running in the job's pod map) are observed; non-trivial = a direct case with at least one refusing gate, or a sequence with both an admitted and a refused job; distinct by full input"
	return out.Flush()
}
