// Package c08 drives the queue capacity gates (capacity_policy) and the
// proportion plugin's allocate/deallocate handlers on generated queue trees
// and jobs, and emits the observations as Coq cases for Run/C08.v.
package c08

import (
	"fmt"
	"math"
	"math/big"
	"sort"
	"strconv"
	"time"

	v1 "k8s.io/api/core/v1"
	resourceapi "k8s.io/api/resource/v1"
	"k8s.io/apimachinery/pkg/api/resource"
	metav1 "k8s.io/apimachinery/pkg/apis/meta/v1"
	"k8s.io/apimachinery/pkg/types"

	schedulingv1alpha2 "github.com/NVIDIA/KAI-scheduler/pkg/apis/scheduling/v1alpha2"
	enginev2alpha2 "github.com/NVIDIA/KAI-scheduler/pkg/apis/scheduling/v2alpha2"
	commonconstants "github.com/NVIDIA/KAI-scheduler/pkg/common/constants"
	"github.com/NVIDIA/KAI-scheduler/pkg/scheduler/api"
	"github.com/NVIDIA/KAI-scheduler/pkg/scheduler/api/bindrequest_info"
	"github.com/NVIDIA/KAI-scheduler/pkg/scheduler/api/common_info"
	"github.com/NVIDIA/KAI-scheduler/pkg/scheduler/api/node_info"
	"github.com/NVIDIA/KAI-scheduler/pkg/scheduler/api/pod_info"
	"github.com/NVIDIA/KAI-scheduler/pkg/scheduler/api/pod_status"
	"github.com/NVIDIA/KAI-scheduler/pkg/scheduler/api/podgroup_info"
	"github.com/NVIDIA/KAI-scheduler/pkg/scheduler/api/queue_info"
	"github.com/NVIDIA/KAI-scheduler/pkg/scheduler/api/resource_info"
	"github.com/NVIDIA/KAI-scheduler/pkg/scheduler/cache"
	"github.com/NVIDIA/KAI-scheduler/pkg/scheduler/cache/cluster_info"
	"github.com/NVIDIA/KAI-scheduler/pkg/scheduler/conf"
	"github.com/NVIDIA/KAI-scheduler/pkg/scheduler/framework"
	"github.com/NVIDIA/KAI-scheduler/pkg/scheduler/plugins"
	rs "github.com/NVIDIA/KAI-scheduler/pkg/scheduler/plugins/proportion/resource_share"
	putils "github.com/NVIDIA/KAI-scheduler/pkg/scheduler/plugins/proportion/utils"
	"github.com/NVIDIA/KAI-scheduler/pkg/scheduler/test_utils"
	"github.com/NVIDIA/KAI-scheduler/pkg/scheduler/test_utils/jobs_fake"

	u "kaiverif/internal/util"
)

// ---- input descriptions (JSON-able, replayable) -----------------------------

// Quantities are [cpu milli, memory bytes, gpus].
type qspec struct {
	Name   string     `json:"name"`
	Parent string     `json:"parent"`
	Lim    [3]float64 `json:"limit"`
	Des    [3]float64 `json:"deserved"`
	Alloc  [3]float64 `json:"allocated,omitempty"`      // direct stream only
	NP     [3]float64 `json:"allocatedNonPreemptible,omitempty"`
}

const (
	kWhole = iota
	kFraction
	kGpuMem
	kMig
	kCPU
	kDRA
)

var kindNames = []string{"whole", "fraction", "gpumem", "mig", "cpu", "dra"}

type tspec struct {
	Name    string   `json:"name"`
	Kind    int      `json:"kind"`
	N       int64    `json:"n"`                 // whole GPUs / number of fraction devices (0 = annotation absent) / DRA count
	Portion string   `json:"portion,omitempty"` // gpu-fraction annotation
	GpuMem  int64    `json:"gpuMemory,omitempty"`
	Mig     [][2]int `json:"mig,omitempty"` // (g of nvidia.com/mig-<g>g.<5g>gb, instances)
	CPUm    int64    `json:"cpuMilli"`
	MemMB   int64    `json:"memMB"`
	MemB    int64    `json:"memBytes,omitempty"` // further bytes of memory on top of MemMB (tiny requests: 1 byte .. 9 MiB)
	NodeMem int64    `json:"nodeGpuMemory"` // MemoryOfEveryGpuOnNode of the node it is placed on
	// State: for a pod of the snapshot (seqCase.Init), what the cluster says about it when the cycle starts; one of
	// snapStates. "" = pending.
	State string `json:"state,omitempty"`
	// Node: action stream only: the node a running pod of the snapshot runs on.
	Node string `json:"node,omitempty"`
	// Placement constraints (action stream, clusters mixing GPU models): Affinity = required node affinity to the
	// named nodes (label kai.scheduler/type In [...]); Selector = spec.nodeSelector; Tolerate = the pod tolerates the
	// taint the cluster's tainted nodes carry. All three are evaluated by the upstream filter plugins, which the
	// predicates plugin runs AFTER the queue capacity gate of the candidate node.
	Affinity []string          `json:"affinity,omitempty"`
	Selector map[string]string `json:"selector,omitempty"`
	Tolerate bool              `json:"tolerate,omitempty"`
}

// labels and the taint of the action stream's nodes
const (
	nodeNameLabel  = "kai.scheduler/type"
	nodeModelLabel = "verif/gpu-model"
	taintKey       = "verif/dedicated"
)

// snapStates are the situations a pod that belongs to a queue can be in when a snapshot is taken, named after the
// status the snapshot derives for it (getTaskStatus): pending; gated (scheduling gates); binding (pending, no
// nodeName, a BindRequest of an earlier cycle in flight); bound (nodeName set, phase Pending); running; releasing
// (on a node, deletionTimestamp); releasing-unbound (pending pod being deleted, no node); succeeded / failed /
// unknown (phase). "allocated" cannot come out of getTaskStatus (it is a legal key of PodStatusIndex and a member of
// AllocatedStatus): built as bound and set by hand. Pipelined exists only inside a session.
var snapStates = []string{"pending", "gated", "allocated", "binding", "bound", "running", "releasing", "releasing-unbound",
	"succeeded", "failed", "unknown"}

var stateStatus = map[string]pod_status.PodStatus{"": pod_status.Pending, "pending": pod_status.Pending, "gated": pod_status.Gated,
	"allocated": pod_status.Allocated, "binding": pod_status.Binding, "bound": pod_status.Bound, "running": pod_status.Running,
	"releasing": pod_status.Releasing, "releasing-unbound": pod_status.Releasing, "succeeded": pod_status.Succeeded,
	"failed": pod_status.Failed, "unknown": pod_status.Unknown}

type jspec struct {
	Name        string  `json:"name"`
	Queue       string  `json:"queue"`
	Preemptible bool    `json:"preemptible"`
	Tasks       []tspec `json:"tasks"`
	// Priority: action stream only (the job's priority; preemptible = priority < 100). 0 elsewhere (jobs are built with 50).
	Priority int32 `json:"priority,omitempty"`
	// MinAvail: action stream only: minMember of the PodGroup when it is not the number of pods (1 = an elastic
	// workload that grows one pod per AllocateJob attempt).
	MinAvail int32 `json:"minAvailable,omitempty"`
}

// ---- name -> positive -------------------------------------------------------

type ids struct {
	m    map[string]int
	next int
}

func newIds() *ids { return &ids{m: map[string]int{}, next: 1} }
func (i *ids) of(name string) int {
	if v, ok := i.m[name]; ok {
		return v
	}
	i.m[name] = i.next
	i.next++
	return i.m[name]
}

// ---- exact printing ---------------------------------------------------------

// Q prints a float64 as the exact rational it denotes -- except for the hundredths of a GPU the code itself computes
// as float64(k)/100 (getExtendedResourceGpus, getGpuMemoryFractionalOnNode; a gpu-fraction annotation "0.01" parses to
// the same float64): a value that is not a short dyadic fraction and equals float64(k)/100 bit for bit is printed as
// k/100, the number the code means by it (the model computes k/100 there). The generators keep the float64 sums of
// such values exact in this reading (tiny.go: at most 0.02 GPU of them below any cap on the unchanged tree).
func Q(f float64) string {
	r := new(big.Rat)
	if r.SetFloat64(f) == nil {
		panic(fmt.Sprintf("non-finite quantity %v", f))
	}
	if f > 0 && r.Denom().BitLen() > 40 {
		if k := math.Round(f * 100); math.Abs(k) < 1e6 && k/100 == f {
			r.SetFrac64(int64(k), 100)
			return fmt.Sprintf("(%s # %s)", r.Num().String(), r.Denom().String())
		}
	}
	num, den := r.Num(), r.Denom()
	if num.Sign() < 0 {
		return fmt.Sprintf("((%s) # %s)", num.String(), den.String())
	}
	return fmt.Sprintf("(%s # %s)", num.String(), den.String())
}

func rqTerm(x [3]float64) string {
	return fmt.Sprintf("{| r_cpu := %s; r_mem := %s; r_gpu := %s |}", Q(x[0]), Q(x[1]), Q(x[2]))
}

func quantities(q rs.ResourceQuantities) [3]float64 {
	return [3]float64{q[rs.CpuResource], q[rs.MemoryResource], q[rs.GpuResource]}
}

// ---- real objects -----------------------------------------------------------

func buildPod(jobName string, t tspec) (*v1.Pod, []*resourceapi.ResourceClaim) {
	req := v1.ResourceList{}
	if t.CPUm > 0 {
		req[v1.ResourceCPU] = *resource.NewMilliQuantity(t.CPUm, resource.DecimalSI)
	}
	if t.MemMB > 0 || t.MemB > 0 {
		req[v1.ResourceMemory] = *resource.NewQuantity(t.MemMB*1000*1000+t.MemB, resource.DecimalSI)
	}
	ann := map[string]string{commonconstants.PodGroupAnnotationForPod: jobName}
	var claims []*resourceapi.ResourceClaim
	switch t.Kind {
	case kWhole:
		if t.N > 0 {
			req[resource_info.GPUResourceName] = *resource.NewQuantity(t.N, resource.DecimalSI)
		}
	case kFraction:
		ann[common_info.GPUFraction] = t.Portion
		if t.GpuMem > 0 { // both annotations (admission rejects this, the scheduler does not care)
			ann[pod_info.GpuMemoryAnnotationName] = strconv.FormatInt(t.GpuMem, 10)
		}
		if t.N > 0 {
			ann[commonconstants.GpuFractionsNumDevices] = strconv.FormatInt(t.N, 10)
		}
	case kGpuMem:
		ann[pod_info.GpuMemoryAnnotationName] = strconv.FormatInt(t.GpuMem, 10)
		if t.N > 0 {
			ann[commonconstants.GpuFractionsNumDevices] = strconv.FormatInt(t.N, 10)
		}
	case kMig:
		for _, m := range t.Mig {
			name := v1.ResourceName(fmt.Sprintf("nvidia.com/mig-%dg.%dgb", m[0], 5*m[0]))
			req[name] = *resource.NewQuantity(int64(m[1]), resource.DecimalSI)
		}
	case kDRA:
		for i := int64(0); i < 1; i++ {
			claims = append(claims, &resourceapi.ResourceClaim{
				ObjectMeta: metav1.ObjectMeta{Name: t.Name + "-claim", Namespace: "ns"},
				Spec: resourceapi.ResourceClaimSpec{Devices: resourceapi.DeviceClaim{Requests: []resourceapi.DeviceRequest{{
					Name: "request",
					Exactly: &resourceapi.ExactDeviceRequest{DeviceClassName: "gpu.nvidia.com",
						AllocationMode: resourceapi.DeviceAllocationModeExactCount, Count: t.N},
				}}}},
			})
		}
	}
	pod := &v1.Pod{
		ObjectMeta: metav1.ObjectMeta{Name: t.Name, Namespace: "ns", UID: types.UID(t.Name), Annotations: ann,
			Labels: map[string]string{}},
		Spec: v1.PodSpec{SchedulerName: "kai-scheduler",
			Containers: []v1.Container{{Name: "c", Resources: v1.ResourceRequirements{Requests: req}}}},
		Status: v1.PodStatus{Phase: v1.PodPending},
	}
	if len(t.Affinity) > 0 {
		pod.Spec.Affinity = &v1.Affinity{NodeAffinity: &v1.NodeAffinity{
			RequiredDuringSchedulingIgnoredDuringExecution: &v1.NodeSelector{NodeSelectorTerms: []v1.NodeSelectorTerm{{
				MatchExpressions: []v1.NodeSelectorRequirement{{Key: nodeNameLabel, Operator: v1.NodeSelectorOpIn,
					Values: append([]string{}, t.Affinity...)}}}}}}}
	}
	if len(t.Selector) > 0 {
		pod.Spec.NodeSelector = map[string]string{}
		for k, v := range t.Selector {
			pod.Spec.NodeSelector[k] = v
		}
	}
	if t.Tolerate {
		pod.Spec.Tolerations = []v1.Toleration{{Key: taintKey, Operator: v1.TolerationOpExists, Effect: v1.TaintEffectNoSchedule}}
	}
	return pod, claims
}

type world struct {
	vm    *resource_info.ResourceVectorMap
	nodes map[int64]*node_info.NodeInfo // by MemoryOfEveryGpuOnNode
	aff   *cache.K8sClusterPodAffinityInfo
}

func newWorld() *world {
	return &world{vm: resource_info.NewResourceVectorMap(), nodes: map[int64]*node_info.NodeInfo{},
		aff: cache.NewK8sClusterPodAffinityInfo()}
}

func nodeName(mem int64) string { return fmt.Sprintf("node-%d", mem) }

// node returns the (large) node whose GPUs have the given memory.
func (w *world) node(mem int64) *node_info.NodeInfo {
	if n, ok := w.nodes[mem]; ok {
		return n
	}
	rl := v1.ResourceList{
		v1.ResourceCPU:                *resource.NewMilliQuantity(100000000, resource.DecimalSI),
		v1.ResourceMemory:             *resource.NewQuantity(1<<50, resource.DecimalSI),
		resource_info.GPUResourceName: *resource.NewQuantity(4096, resource.DecimalSI),
		v1.ResourcePods:               *resource.NewQuantity(100000, resource.DecimalSI),
	}
	w.vm.AddResourceList(rl)
	node := &v1.Node{
		ObjectMeta: metav1.ObjectMeta{Name: nodeName(mem), Labels: map[string]string{
			node_info.GpuMemoryLabel:      strconv.FormatInt(mem, 10),
			commonconstants.GpuCountLabel: "4096",
		}},
		Status: v1.NodeStatus{Capacity: rl, Allocatable: rl,
			Conditions: []v1.NodeCondition{{Type: v1.NodeReady, Status: v1.ConditionTrue}}},
	}
	ni := node_info.NewNodeInfo(node, cluster_info.NewK8sNodePodAffinityInfo(node, w.aff), w.vm)
	ni.MemoryOfEveryGpuOnNode = mem // the label is floored to a multiple of 100; the field is what the code reads
	ni.GpuMemorySynced = true
	w.nodes[mem] = ni
	return ni
}

func (w *world) task(jobName string, t tspec) *pod_info.PodInfo {
	pod, claims := buildPod(jobName, t)
	for _, c := range pod.Spec.Containers {
		w.vm.AddResourceList(c.Resources.Requests)
	}
	return pod_info.NewTaskInfo(pod, claims, w.vm)
}

// snapTask builds a pod of the snapshot the way the snapshot does: the v1.Pod in the situation t.State describes,
// the BindRequest if one is in flight, pod_info.NewTaskInfoWithBindRequest (status from getTaskStatus, NodeName from
// spec.nodeName or the BindRequest's SelectedNode), and NodeInfo.AddTasksToNode of the node it names (which accounts
// the pods in an active-used status and sets their AcceptedResource).
func (w *world) snapTask(jobName string, t tspec) *pod_info.PodInfo {
	pod, claims := buildPod(jobName, t)
	for _, c := range pod.Spec.Containers {
		w.vm.AddResourceList(c.Resources.Requests)
	}
	node := w.node(t.NodeMem)
	now := metav1.NewTime(time.Unix(1700000000, 0))
	var br *bindrequest_info.BindRequestInfo
	switch t.State {
	case "", "pending":
	case "gated":
		pod.Spec.SchedulingGates = []v1.PodSchedulingGate{{Name: "kai.scheduler/gate"}}
	case "binding":
		br = bindrequest_info.NewBindRequestInfo(&schedulingv1alpha2.BindRequest{
			ObjectMeta: metav1.ObjectMeta{Name: t.Name, Namespace: "ns"},
			Spec:       schedulingv1alpha2.BindRequestSpec{PodName: t.Name, SelectedNode: node.Name}})
	case "bound", "allocated":
		pod.Spec.NodeName = node.Name
	case "running":
		pod.Spec.NodeName = node.Name
		pod.Status.Phase = v1.PodRunning
	case "releasing":
		pod.Spec.NodeName = node.Name
		pod.Status.Phase = v1.PodRunning
		pod.DeletionTimestamp = &now
	case "releasing-unbound":
		pod.DeletionTimestamp = &now
	case "succeeded":
		pod.Spec.NodeName = node.Name
		pod.Status.Phase = v1.PodSucceeded
	case "failed":
		pod.Spec.NodeName = node.Name
		pod.Status.Phase = v1.PodFailed
	case "unknown":
		pod.Spec.NodeName = node.Name
		pod.Status.Phase = v1.PodUnknown
	default:
		panic("unknown snapshot state " + t.State)
	}
	ti := pod_info.NewTaskInfoWithBindRequest(pod, br, claims, w.vm)
	if t.State == "allocated" {
		ti.Status = pod_status.Allocated
	}
	if ti.Status != stateStatus[t.State] {
		panic(fmt.Sprintf("snapshot gave pod in state %q the status %v", t.State, ti.Status))
	}
	if ti.NodeName != "" {
		w.nodes[t.NodeMem].AddTasksToNode([]*pod_info.PodInfo{ti}, map[common_info.PodID]*pod_info.PodInfo{})
	}
	return ti
}

func (w *world) job(j jspec, tasks []*pod_info.PodInfo) *podgroup_info.PodGroupInfo {
	pre := enginev2alpha2.NonPreemptible
	if j.Preemptible {
		pre = enginev2alpha2.Preemptible
	}
	return jobs_fake.BuildJobInfo(j.Name, "ns", common_info.PodGroupID(j.Name), resource_info.EmptyResource(), nil,
		tasks, 50, pre, common_info.QueueID(j.Queue), time.Unix(1700000000, 0), nil, w.vm)
}

func queueAttrs(qs []qspec) map[common_info.QueueID]*rs.QueueAttributes {
	m := map[common_info.QueueID]*rs.QueueAttributes{}
	share := func(q qspec, i int) rs.ResourceShare {
		return rs.ResourceShare{Deserved: q.Des[i], MaxAllowed: q.Lim[i], Allocated: q.Alloc[i],
			AllocatedNotPreemptible: q.NP[i], OverQuotaWeight: 1}
	}
	for _, q := range qs {
		m[common_info.QueueID(q.Name)] = &rs.QueueAttributes{
			UID: common_info.QueueID(q.Name), Name: q.Name, ParentQueue: common_info.QueueID(q.Parent),
			QueueResourceShare: rs.QueueResourceShare{CPU: share(q, 0), Memory: share(q, 1), GPU: share(q, 2)},
		}
	}
	return m
}

// queueInfos builds the snapshot's queues for the proportion plugin. The plugin
// multiplies memory quota and limit by 10^6 (and clamps at -1).
func queueInfos(qs []qspec) map[common_info.QueueID]*queue_info.QueueInfo {
	m := map[common_info.QueueID]*queue_info.QueueInfo{}
	mb := func(x float64) float64 {
		if x < 0 {
			return x
		}
		return x / 1e6
	}
	for i, q := range qs {
		m[common_info.QueueID(q.Name)] = &queue_info.QueueInfo{
			UID: common_info.QueueID(q.Name), Name: q.Name, ParentQueue: common_info.QueueID(q.Parent),
			ChildQueues: []common_info.QueueID{},
			Resources: queue_info.QueueQuota{
				CPU:    queue_info.ResourceQuota{Quota: q.Des[0], Limit: q.Lim[0], OverQuotaWeight: 1},
				Memory: queue_info.ResourceQuota{Quota: mb(q.Des[1]), Limit: mb(q.Lim[1]), OverQuotaWeight: 1},
				GPU:    queue_info.ResourceQuota{Quota: q.Des[2], Limit: q.Lim[2], OverQuotaWeight: 1},
			},
			Priority:          100,
			CreationTimestamp: metav1.Time{Time: time.Unix(1700000000+int64(i), 0)},
		}
	}
	for id, q := range m {
		if p, ok := m[q.ParentQueue]; ok && q.ParentQueue != "" {
			p.AddChildQueue(id)
		}
	}
	return m
}

var pluginsOnce bool

// session opens a session that runs only the proportion plugin over the given snapshot.
func (w *world) session(qs []qspec, jobs map[common_info.PodGroupID]*podgroup_info.PodGroupInfo) *framework.Session {
	if !pluginsOnce {
		plugins.InitDefaultPlugins()
		pluginsOnce = true
	}
	nodes := map[string]*node_info.NodeInfo{}
	for _, n := range w.nodes {
		nodes[n.Name] = n
	}
	cfg := &test_utils.TestSessionConfig{Plugins: []conf.Tier{{Plugins: []conf.PluginOption{{Name: "proportion"}}}}}
	return test_utils.CreateFakeSession(cfg, nodes, jobs, queueInfos(qs), test_utils.TestTopologyBasic{}, nil, false, nil, nil)
}

// ---- projection of the real task to the model's task -------------------------

func rtypeName(t *pod_info.PodInfo) string {
	switch t.ResourceRequestType {
	case pod_info.RequestTypeFraction:
		return "Fraction"
	case pod_info.RequestTypeGpuMemory:
		return "GpuMemory"
	case pod_info.RequestTypeMigInstance:
		return "MigInstance"
	default:
		return "Regular"
	}
}

func greqTerm(g *resource_info.GpuResourceRequirement) string {
	type mp struct{ g, n int64 }
	var migs []mp
	for name, n := range g.MigResources() {
		var a, b int64
		if _, err := fmt.Sscanf(string(name), "nvidia.com/mig-%dg.%dgb", &a, &b); err != nil {
			panic("harness generated an unparsable MIG name: " + string(name))
		}
		migs = append(migs, mp{a, n})
	}
	sort.Slice(migs, func(i, j int) bool { return migs[i].g < migs[j].g || (migs[i].g == migs[j].g && migs[i].n < migs[j].n) })
	ms := make([]string, len(migs))
	for i, m := range migs {
		ms[i] = u.Pair(u.Z(m.g), u.Z(m.n))
	}
	return fmt.Sprintf("{| g_count := %s; g_portion := %s; g_memory := %s; g_dra := %s; g_mig := %s |}",
		u.Z(g.GetNumOfGpuDevices()), Q(g.GpuFractionalPortion()), u.Z(g.GpuMemory()), u.Z(g.GetDraGpusCount()), u.List(ms))
}

func taskTerm(id int, t *pod_info.PodInfo) string {
	return fmt.Sprintf("{| t_id := %s; t_type := %s; t_cpu := %s; t_memory := %s; t_gpu := %s |}",
		u.Pos(id), rtypeName(t), Q(t.ResReq.Cpu()), Q(t.ResReq.Memory()), greqTerm(&t.ResReq.GpuResourceRequirement))
}

// verdict maps a SchedulableResult to the model's verdict constructor.
func verdictTerm(r *api.SchedulableResult, qid *ids) (string, string) {
	if r.IsSchedulable {
		return "Schedulable", "ok"
	}
	name := ""
	if r.Details != nil && r.Details.QueueDetails != nil {
		name = r.Details.QueueDetails.Name
	}
	switch r.Reason {
	case enginev2alpha2.OverLimit:
		return u.App("OverLimit", u.Pos(qid.of(name))), "overlimit"
	case enginev2alpha2.NonPreemptibleOverQuota:
		return u.App("NonPreemptibleOverQuota", u.Pos(qid.of(name))), "npquota"
	}
	return u.App("OverLimit", u.Pos(qid.of("?unknown-reason:"+string(r.Reason)))), "other"
}

func chargeOf(t *pod_info.PodInfo) [3]float64 {
	return quantities(putils.QuantifyResourceRequirements(t.AcceptedResource))
}

var _ = pod_status.Pending
