package c08

import (
	"fmt"
	"time"

	"go.uber.org/mock/gomock"

	enginev2alpha2 "github.com/NVIDIA/KAI-scheduler/pkg/apis/scheduling/v2alpha2"
	"github.com/NVIDIA/KAI-scheduler/pkg/scheduler/api/common_info"
	"github.com/NVIDIA/KAI-scheduler/pkg/scheduler/api/pod_info"
	"github.com/NVIDIA/KAI-scheduler/pkg/scheduler/api/resource_info"
	"github.com/NVIDIA/KAI-scheduler/pkg/scheduler/framework"
	"github.com/NVIDIA/KAI-scheduler/pkg/scheduler/test_utils"
	"github.com/NVIDIA/KAI-scheduler/pkg/scheduler/test_utils/jobs_fake"
	"github.com/NVIDIA/KAI-scheduler/pkg/scheduler/test_utils/nodes_fake"
)

type reporter struct{}

func (reporter) Errorf(format string, args ...any) { fmt.Printf("gomock error: "+format+"\n", args...) }
func (reporter) Fatalf(format string, args ...any) { panic(fmt.Sprintf(format, args...)) }

// RunE2E replays the refutation witness through the real allocate action
// (default plugin tiers, predicates plugin wiring the node-level gate,
// gpu_sharing placement, statement commit): queue "leaf" has GPU limit 0.5 and
// deserved 0.5; the pod asks for gpu-memory 50 MiB on 2 devices of 100 MiB.
func RunE2E() error {
	test_utils.InitTestingInfrastructure()
	ctrl := gomock.NewController(reporter{})
	topo := test_utils.TestTopologyBasic{
		Name:  "c08-witness",
		Jobs:  []*jobs_fake.TestJobBasic{},
		Nodes: map[string]nodes_fake.TestNodeBasic{"node0": {GPUs: 4}},
		Queues: []test_utils.TestQueueBasic{{Name: "leaf", DeservedGPUs: 0.5, MaxAllowedGPUs: 0.5, GPUOverQuotaWeight: 1}},
		Mocks: &test_utils.TestMock{CacheRequirements: &test_utils.CacheMocking{
			NumberOfCacheBinds: 100, NumberOfCacheEvictions: 100, NumberOfPipelineActions: 100}},
	}
	ssn := test_utils.BuildSession(topo, ctrl)
	node := ssn.ClusterInfo.Nodes["node0"]
	t := tspec{Name: "w-t0", Kind: kGpuMem, GpuMem: 50, N: 2, NodeMem: node.MemoryOfEveryGpuOnNode}
	pod, _ := buildPod("w", t)
	for _, c := range pod.Spec.Containers {
		node.VectorMap.AddResourceList(c.Resources.Requests)
	}
	ti := pod_info.NewTaskInfo(pod, nil, node.VectorMap)
	job := jobs_fake.BuildJobInfo("w", "ns", "w", resource_info.EmptyResource(), nil, []*pod_info.PodInfo{ti}, 50,
		enginev2alpha2.NonPreemptible, "leaf", time.Now().Add(-time.Minute), nil, node.VectorMap)
	ssn.ClusterInfo.PodGroupInfos[job.UID] = job

	q := ssn.ClusterInfo.Queues[common_info.QueueID("leaf")]
	fmt.Printf("queue leaf: GPU limit %v deserved %v; node GPU memory %d MiB\n", q.Resources.GPU.Limit, q.Resources.GPU.Quota, node.MemoryOfEveryGpuOnNode)
	fmt.Printf("before: allocated GPUs of leaf = %v\n", ssn.QueueAllocatedResources(q).GPUs())
	action, _ := framework.GetAction("allocate")
	action.Execute(ssn)
	fmt.Printf("after allocate action: task status=%v node=%q gpuGroups=%d accepted GPUs=%v\n", ti.Status, ti.NodeName, len(ti.GPUGroups), ti.AcceptedResource.GetGpusQuota())
	fmt.Printf("after: allocated GPUs of leaf = %v (limit %v)\n", ssn.QueueAllocatedResources(q).GPUs(), q.Resources.GPU.Limit)
	for _, e := range job.JobFitErrors {
		fmt.Printf("fit error: %v\n", e)
	}
	return nil
}
