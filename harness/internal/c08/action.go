package c08

// action.go: the ACTION stream of C08. A generated cluster (1-3 nodes with real GPU counts, a queue
// tree of depth 1-3 with GPU limits and deserved quotas at leaf and ancestor level, running jobs and
// pending jobs of 1-3 pods asking whole GPUs, fractions on several devices and mixes) is turned into
// a real session (every plugin of the default tiers opened on real NodeInfo / PodGroupInfo / QueueInfo
// objects), then the REAL actions run on it: allocate first, then preempt / reclaim / consolidation.
// Every Bind / TaskPipelined / Evict that reaches the cache is recorded in commit order, together with
// what the pod is charged with at that moment (AcceptedResource) and, at the first call of every
// Statement.Commit, the plugin's counters and the pods that hold resources in the session.
//
// What is handed to Coq is a case of Run/C08.v: the snapshot (every pod with its status), and per
// commit the steps  ORelease v (every Evict),  OAdmit mode queue preemptible tasks vjob AdmYes  (every
// run of Bind / TaskPipelined calls of one job; mode = pipeline-only for the solver actions).  vjob
// and the per-task verdicts are the REAL gates (capacity_policy.IsJobOverQueueCapacity /
// IsTaskAllocationOnNodeOverCapacity, the functions Session.IsJobOverQueueCapacityFn dispatches to)
// evaluated on the usage recomputed from the pods right before the job's placement: snapshot pods in
// the allocated class, minus the evicted ones, plus what was bound / nominated before in this cycle.
// A job that a solver nominated although the job-level gate refuses it on that usage is a mismatch
// (the model's AllocateJob has the job-level gate in both modes) and a monitor failure.
//
// Gate probes: Session.IsJobOverCapacityFns[0] is wrapped; at a few of the calls the actions make
// (allocate action and solver simulations alike) the three real gates of the live session are
// evaluated and the usage is recomputed from the pods as they are at that moment of the simulation;
// each becomes a direct case (OProbe on queues with that usage).

import (
	"fmt"
	"os"
	"runtime/debug"
	"sort"
	"strings"
	"sync"
	"time"

	"go.uber.org/mock/gomock"
	v1 "k8s.io/api/core/v1"
	"k8s.io/client-go/informers"
	"k8s.io/client-go/kubernetes"
	k8sfake "k8s.io/client-go/kubernetes/fake"
	k8sframework "k8s.io/kubernetes/pkg/scheduler/framework"

	pg "github.com/NVIDIA/KAI-scheduler/pkg/common/podgroup"
	"github.com/NVIDIA/KAI-scheduler/pkg/common/constants"
	"github.com/NVIDIA/KAI-scheduler/pkg/scheduler/actions"
	"github.com/NVIDIA/KAI-scheduler/pkg/scheduler/api"
	"github.com/NVIDIA/KAI-scheduler/pkg/scheduler/api/common_info"
	"github.com/NVIDIA/KAI-scheduler/pkg/scheduler/api/eviction_info"
	"github.com/NVIDIA/KAI-scheduler/pkg/scheduler/api/node_info"
	"github.com/NVIDIA/KAI-scheduler/pkg/scheduler/api/pod_info"
	"github.com/NVIDIA/KAI-scheduler/pkg/scheduler/api/pod_status"
	"github.com/NVIDIA/KAI-scheduler/pkg/scheduler/api/podgroup_info"
	"github.com/NVIDIA/KAI-scheduler/pkg/scheduler/api/podgroup_info/subgroup_info"
	"github.com/NVIDIA/KAI-scheduler/pkg/scheduler/api/resource_info"
	"github.com/NVIDIA/KAI-scheduler/pkg/scheduler/cache"
	"github.com/NVIDIA/KAI-scheduler/pkg/scheduler/cache/cluster_info"
	"github.com/NVIDIA/KAI-scheduler/pkg/scheduler/conf"
	"github.com/NVIDIA/KAI-scheduler/pkg/scheduler/framework"
	k8splugins "github.com/NVIDIA/KAI-scheduler/pkg/scheduler/k8s_internal/plugins"
	"github.com/NVIDIA/KAI-scheduler/pkg/scheduler/k8s_utils"
	"github.com/NVIDIA/KAI-scheduler/pkg/scheduler/plugins"
	"github.com/NVIDIA/KAI-scheduler/pkg/scheduler/plugins/proportion/capacity_policy"
	"github.com/NVIDIA/KAI-scheduler/pkg/scheduler/test_utils"
	"github.com/NVIDIA/KAI-scheduler/pkg/scheduler/test_utils/jobs_fake"

	"kaiverif/internal/core"
	u "kaiverif/internal/util"
)

// ---- cluster description -------------------------------------------------------------------

type anode struct {
	Name   string `json:"name"`
	GPUs   int    `json:"gpus"`
	GpuMem int64  `json:"gpuMemory"` // MemoryOfEveryGpuOnNode (MiB): the label value floored to a multiple of 100
	// MemLabel: the value of the nvidia.com/gpu.memory label when it is not GpuMem itself (16384 -> 16300)
	MemLabel int64 `json:"gpuMemoryLabel,omitempty"`
	// Taint: the node carries the NoSchedule taint verif/dedicated (pods with Tolerate pass it)
	Taint bool `json:"taint,omitempty"`
}

// model: the value of the node's verif/gpu-model label (one per GPU memory size)
func (n anode) model() string { return fmt.Sprintf("m%d", n.GpuMem) }

// acluster: jobs are gangs (minMember = number of pods). A pod with State "running" runs on Node;
// every other pod is pending.
type acluster struct {
	Family  string   `json:"family"`
	Nodes   []anode  `json:"nodes"`
	Queues  []qspec  `json:"queues"`
	Jobs    []jspec  `json:"jobs"`
	Actions []string `json:"actions"`
}

func fmtCap(x [3]float64) string {
	f := func(v float64) string {
		if v < 0 {
			return "-"
		}
		return fmt.Sprintf("%g", v)
	}
	if x[0] < 0 && x[1] < 0 {
		return f(x[2])
	}
	return fmt.Sprintf("%s/cpu%s/mem%s", f(x[2]), f(x[0]), f(x[1]))
}

func (c *acluster) describe() string {
	var sb strings.Builder
	sb.WriteString("nodes[")
	for i, n := range c.Nodes {
		if i > 0 {
			sb.WriteString(" ")
		}
		fmt.Fprintf(&sb, "%s:gpu%d/mem%d", n.Name, n.GPUs, n.GpuMem)
		if n.Taint {
			sb.WriteString("/tainted")
		}
	}
	sb.WriteString("] queues{")
	for i, q := range c.Queues {
		if i > 0 {
			sb.WriteString("; ")
		}
		fmt.Fprintf(&sb, "%s<%s gpu-limit=%s gpu-deserved=%s", q.Name, q.Parent, fmtCap(q.Lim), fmtCap(q.Des))
	}
	sb.WriteString("} jobs{")
	for i, j := range c.Jobs {
		if i > 0 {
			sb.WriteString("; ")
		}
		fmt.Fprintf(&sb, "%s@%s pri=%d", j.Name, j.Queue, j.Priority)
		if j.MinAvail > 0 {
			fmt.Fprintf(&sb, " minMember=%d", j.MinAvail)
		}
		sb.WriteString(" [")
		for k, t := range j.Tasks {
			if k > 0 {
				sb.WriteString(" ")
			}
			switch t.Kind {
			case kWhole:
				fmt.Fprintf(&sb, "whole:%d", t.N)
			case kFraction:
				fmt.Fprintf(&sb, "frac:%sx%d", t.Portion, t.N)
			case kGpuMem:
				fmt.Fprintf(&sb, "gpumem:%dx%d", t.GpuMem, t.N)
			case kCPU:
				sb.WriteString("cpu")
			}
			if t.CPUm > 0 {
				fmt.Fprintf(&sb, "/cpu%d", t.CPUm)
			}
			if t.MemMB > 0 || t.MemB > 0 {
				fmt.Fprintf(&sb, "/mem%dB", t.MemMB*1000000+t.MemB)
			}
			if t.State == "running" {
				sb.WriteString("=running@" + t.Node)
			}
			if len(t.Affinity) > 0 {
				sb.WriteString("/affinity{" + strings.Join(t.Affinity, ",") + "}")
			}
			if len(t.Selector) > 0 {
				var kv []string
				for k, v := range t.Selector {
					kv = append(kv, k+"="+v)
				}
				sort.Strings(kv)
				sb.WriteString("/selector{" + strings.Join(kv, ",") + "}")
			}
			if t.Tolerate {
				sb.WriteString("/tolerates")
			}
		}
		sb.WriteString("]")
	}
	sb.WriteString("} actions=" + strings.Join(c.Actions, ","))
	return sb.String()
}

// ---- the session ------------------------------------------------------------------------------

type acall struct {
	Kind    string // bind | pipe | evict
	Pod     string
	Node    string
	Action  string
	Commit  int
	Charge  [3]float64 // bind / pipe: QuantifyResourceRequirements(AcceptedResource) at the moment of the call
	NodeMem int64
	Tried   []atry // bind / pipe: the node-level gate calls of the allocation attempt that placed the pod
}

// atry: one call of the live session's node-level capacity gate (Session.IsTaskAllocationOnNodeOverCapacityFns[0],
// wrapped) for a task: the candidate node and the verdict.
type atry struct {
	Node string
	Mem  int64
	Res  *api.SchedulableResult
}

// gateProbe: one call of the session's job-level gate made by an action, with the other two gates of the
// live session evaluated at the same moment and the usage recomputed from the pods as they are then.
type gateProbe struct {
	Action string
	Job    string
	Queue  string
	Pre    bool
	Tasks  []*pod_info.PodInfo
	VJob   *api.SchedulableResult
	VNP    *api.SchedulableResult
	VTask  []*api.SchedulableResult
	Mem    int64
	Usage  []qspec
	Multi  bool // some task asks more than one device
	Extra  bool // the same call probed on a further GPU model of the cluster
}

// arefusal: the allocate action called AllocateJob for a job and the job-level gate of the live session refused
// it, after Pos cache calls (the allocate action simulates nothing: the session is in a committed state then).
type arefusal struct {
	Pos   int
	Job   *podgroup_info.PodGroupInfo
	Tasks []*pod_info.PodInfo
	Res   *api.SchedulableResult
}

type arecorder struct {
	cache.Cache
	b       *abuilt
	calls   []acall
	commits []string // observation taken at the first cache call of each commit
	events  int      // handler events and gate calls since the last cache call
	action  string
	probes  []gateProbe
	refused []arefusal // allocate action: jobs its job-level gate refused, in order
	seen    map[string]bool
	gates   map[string]int // action|job -> calls of the job-level gate
	// tried: per pod, the node-level gate calls since the last job-level gate call for its job (= since the start of
	// the AllocateJob that is trying to place it)
	tried map[string][]atry
	// probing: the harness itself is calling the session's gates (gate probes): not part of any attempt
	probing bool
}

func (r *arecorder) begin() int {
	if r.events > 0 || len(r.commits) == 0 {
		r.commits = append(r.commits, r.b.observe())
	}
	r.events = 0
	return len(r.commits) - 1
}

func (r *arecorder) Bind(p *pod_info.PodInfo, hostname string, _ map[string]string) error {
	k := r.begin()
	r.calls = append(r.calls, acall{Kind: "bind", Pod: p.Name, Node: hostname, Action: r.action, Commit: k,
		Charge: chargeOf(p), NodeMem: r.b.nodeMem(hostname), Tried: r.tried[p.Name]})
	return nil
}

func (r *arecorder) Evict(pod *v1.Pod, _ *podgroup_info.PodGroupInfo, _ eviction_info.EvictionMetadata, _ string) error {
	k := r.begin()
	r.calls = append(r.calls, acall{Kind: "evict", Pod: pod.Name, Action: r.action, Commit: k})
	return nil
}

func (r *arecorder) TaskPipelined(t *pod_info.PodInfo, _ string) {
	k := r.begin()
	r.calls = append(r.calls, acall{Kind: "pipe", Pod: t.Name, Node: t.NodeName, Action: r.action, Commit: k,
		Charge: chargeOf(t), NodeMem: r.b.nodeMem(t.NodeName), Tried: r.tried[t.Name]})
}

type afakeCache struct {
	cache.Cache
	client  *k8sfake.Clientset
	factory informers.SharedInformerFactory
	lister  *cache.K8sClusterPodAffinityInfo
	plugins *k8splugins.K8sPlugins
}

func (f *afakeCache) KubeClient() kubernetes.Interface                     { return f.client }
func (f *afakeCache) KubeInformerFactory() informers.SharedInformerFactory { return f.factory }
func (f *afakeCache) SnapshotSharedLister() k8sframework.NodeInfoLister    { return f.lister }
func (f *afakeCache) InternalK8sPlugins() *k8splugins.K8sPlugins           { return f.plugins }
func (f *afakeCache) RecordJobStatusEvent(_ *podgroup_info.PodGroupInfo) error {
	return nil
}

type areporter struct{}

func (areporter) Errorf(string, ...any) {}
func (areporter) Fatalf(string, ...any) {}

var actionInit sync.Once

type abuilt struct {
	c     *acluster
	ssn   *framework.Session
	rec   *arecorder
	jobs  map[common_info.PodGroupID]*podgroup_info.PodGroupInfo
	nodes map[string]*node_info.NodeInfo
	tiers []conf.Tier
	qid   *ids
	tid   *ids
}

func (b *abuilt) nodeMem(name string) int64 {
	if n, ok := b.nodes[name]; ok {
		return n.MemoryOfEveryGpuOnNode
	}
	return b.ssn.ClusterInfo.MinNodeGPUMemory
}

func (b *abuilt) observe() string {
	return obsQueues(b.ssn, seqCase{Queues: b.c.Queues}, b.qid, b.tid)
}

// usageFromPods: Allocated / AllocatedNotPreemptible of every queue as the pods of the session say right now:
// every pod whose status holds resources (Allocated, Pipelined, Binding, Bound, Running) with its AcceptedResource.
func (b *abuilt) usageFromPods() []qspec {
	led := map[string]aholder{}
	for _, job := range b.ssn.ClusterInfo.PodGroupInfos {
		for _, p := range job.GetAllPodsMap() {
			if pod_status.IsActiveAllocatedStatus(p.Status) {
				led[p.Name] = aholder{Queue: string(job.Queue), Pre: job.IsPreemptibleJob(), Charge: chargeOf(p)}
			}
		}
	}
	return withUsage(b.c.Queues, led)
}

// usageSummary: for every queue with a finite GPU limit or deserved quota, the GPUs its subtree holds according to the
// pods (every pod holding resources with its AcceptedResource, i.e. its share of the node it was placed on; all / the
// non-preemptible ones) next to what the plugin reports (Session.QueueAllocatedResources: whole GPUs from 1 GPU on).
func (b *abuilt) usageSummary() string {
	var out []string
	for _, q := range b.usageFromPods() {
		if q.Lim[2] < 0 && q.Des[2] < 0 {
			continue
		}
		rr := b.ssn.QueueAllocatedResources(b.ssn.ClusterInfo.Queues[common_info.QueueID(q.Name)])
		out = append(out, fmt.Sprintf("%s(limit %s, deserved %s): pods %g, non-preemptible %g, plugin %g", q.Name,
			fmtCap(q.Lim), fmtCap(q.Des), q.Alloc[2], q.NP[2], rr.GPUs()))
	}
	return strings.Join(out, "; ")
}

type aholder struct {
	Queue  string
	Pre    bool
	Charge [3]float64
}

// withUsage returns the queues with Alloc / NP set to the sums over the holders in the subtree.
func withUsage(qs []qspec, led map[string]aholder) []qspec {
	out := make([]qspec, len(qs))
	copy(out, qs)
	ix := map[string]int{}
	for i := range out {
		out[i].Alloc, out[i].NP = [3]float64{}, [3]float64{}
		ix[out[i].Name] = i
	}
	names := make([]string, 0, len(led))
	for n := range led {
		names = append(names, n)
	}
	sort.Strings(names) // float64 sums in a fixed order (all quantities are dyadic: exact anyway)
	for _, n := range names {
		h := led[n]
		for name, d := h.Queue, 0; d < 10; d++ {
			i, ok := ix[name]
			if !ok {
				break
			}
			for k := 0; k < 3; k++ {
				out[i].Alloc[k] += h.Charge[k]
				if !h.Pre {
					out[i].NP[k] += h.Charge[k]
				}
			}
			name = out[i].Parent
		}
	}
	return out
}

func buildAction(c *acluster) *abuilt {
	actionInit.Do(func() {
		actions.InitDefaultActions()
		plugins.InitDefaultPlugins()
		pluginsOnce = true
		ctrl := gomock.NewController(areporter{})
		hm := k8s_utils.NewMockInterface(ctrl)
		hm.EXPECT().PatchPodAnnotationsAndLabelsInterface(gomock.Any(), gomock.Any(), gomock.Any(), gomock.Any()).Return(nil).AnyTimes()
		k8s_utils.Helpers = hm
	})
	b := &abuilt{c: c, jobs: map[common_info.PodGroupID]*podgroup_info.PodGroupInfo{}, nodes: map[string]*node_info.NodeInfo{},
		qid: newIds(), tid: newIds()}
	for _, q := range c.Queues {
		b.qid.of(q.Name)
	}
	vm := resource_info.NewResourceVectorMap()
	cpai := cache.NewK8sClusterPodAffinityInfo()
	specs := make([]core.NodeSpec, len(c.Nodes))
	minMem := int64(0)
	for i, n := range c.Nodes {
		label := n.GpuMem
		if n.MemLabel > 0 {
			label = n.MemLabel
		}
		specs[i] = core.NodeSpec{Name: n.Name, Cpu: 256000, Mem: 1 << 40, Gpus: int64(n.GPUs), Pods: 110, GpuMem: label,
			Labels: map[string]string{nodeNameLabel: n.Name, nodeModelLabel: n.model()}}
		vm.AddResourceList(specs[i].K8s().Status.Allocatable)
		if minMem == 0 || n.GpuMem < minMem {
			minMem = n.GpuMem
		}
	}
	for i, s := range specs {
		k := s.K8s()
		if c.Nodes[i].Taint {
			k.Spec.Taints = []v1.Taint{{Key: taintKey, Value: "true", Effect: v1.TaintEffectNoSchedule}}
		}
		b.nodes[s.Name] = node_info.NewNodeInfo(k, cluster_info.NewK8sNodePodAffinityInfo(k, cpai), vm)
		if got := b.nodes[s.Name].MemoryOfEveryGpuOnNode; got != c.Nodes[i].GpuMem {
			panic(fmt.Sprintf("node %s: MemoryOfEveryGpuOnNode = %d, the cluster description says %d", s.Name, got, c.Nodes[i].GpuMem))
		}
	}
	base := time.Unix(1700000000, 0)
	for ji := range c.Jobs {
		j := &c.Jobs[ji]
		var tasks []*pod_info.PodInfo
		allocated := resource_info.EmptyResource()
		for _, t := range j.Tasks {
			b.tid.of(t.Name)
			pod, claims := buildPod(j.Name, t)
			if t.State == "running" {
				pod.Spec.NodeName = t.Node
				pod.Status.Phase = v1.PodRunning
			}
			for _, ct := range pod.Spec.Containers {
				vm.AddResourceList(ct.Resources.Requests)
			}
			ti := pod_info.NewTaskInfo(pod, claims, vm)
			if t.State == "running" {
				if ti.Status != pod_status.Running {
					panic(fmt.Sprintf("running pod %s got status %v", t.Name, ti.Status))
				}
				b.nodes[t.Node].AddTasksToNode([]*pod_info.PodInfo{ti}, map[common_info.PodID]*pod_info.PodInfo{})
				allocated.Add(resource_info.ResourceFromResourceList(pod.Spec.Containers[0].Resources.Requests))
			}
			tasks = append(tasks, ti)
		}
		var root *subgroup_info.SubGroupSet // nil: one default pod set with minAvailable = number of pods (a gang)
		if j.MinAvail > 0 {
			root = jobs_fake.DefaultSubGroup(j.MinAvail)
		}
		job := jobs_fake.BuildJobInfo(j.Name, "ns", common_info.PodGroupID(j.Name), allocated, root, tasks, j.Priority,
			pg.CalculatePreemptibility("", j.Priority), common_info.QueueID(j.Queue),
			base.Add(time.Duration(ji)*time.Minute), nil, vm)
		j.Preemptible = job.IsPreemptibleJob()
		b.jobs[job.UID] = job
	}
	b.tiers = test_utils.BuildPlugins(test_utils.TestTopologyBasic{Name: "c08-action"})
	ssn := &framework.Session{
		Config: &conf.SchedulerConfiguration{Tiers: b.tiers},
		ClusterInfo: &api.ClusterInfo{Nodes: b.nodes, Queues: queueInfos(c.Queues), PodGroupInfos: b.jobs,
			MinNodeGPUMemory: minMem},
		SchedulerParams: conf.SchedulerParams{QueueLabelKey: constants.DefaultQueueLabel},
	}
	ssn.OverrideMaxNumberConsolidationPreemptees(-1)
	ssn.OverrideAllowConsolidatingReclaim(true)
	ssn.OverrideSchedulerName("kai-scheduler")
	fc := &afakeCache{client: k8sfake.NewSimpleClientset(), lister: cpai}
	fc.factory = informers.NewSharedInformerFactory(fc.client, 0)
	fc.plugins = k8splugins.InitializeInternalPlugins(fc.client, fc.factory, cpai)
	ssn.Cache = fc
	for _, tier := range b.tiers {
		for _, plugin := range tier.Plugins {
			pb, found := framework.GetPluginBuilder(plugin.Name)
			if !found {
				continue
			}
			pb(plugin.Arguments).OnSessionOpen(ssn)
		}
	}
	b.ssn = ssn
	b.rec = &arecorder{Cache: ssn.Cache, b: b, seen: map[string]bool{}, gates: map[string]int{}, tried: map[string][]atry{}}
	ssn.Cache = b.rec
	bump := func(*framework.Event) { b.rec.events++ }
	ssn.AddEventHandler(&framework.EventHandler{AllocateFunc: bump, DeallocateFunc: bump})
	if len(ssn.IsJobOverCapacityFns) > 0 {
		orig := ssn.IsJobOverCapacityFns[0]
		ssn.IsJobOverCapacityFns[0] = func(job *podgroup_info.PodGroupInfo, tasks []*pod_info.PodInfo) *api.SchedulableResult {
			res := orig(job, tasks)
			b.rec.events++
			for _, t := range tasks { // a new AllocateJob: what earlier attempts tried for these pods is history
				delete(b.rec.tried, t.Name)
			}
			b.rec.gateCall(job, tasks, res)
			return res
		}
	}
	// the node-level gate as the predicates plugin reaches it: which candidate nodes it is evaluated on, in order
	if len(ssn.IsTaskAllocationOnNodeOverCapacityFns) > 0 {
		orig := ssn.IsTaskAllocationOnNodeOverCapacityFns[0]
		ssn.IsTaskAllocationOnNodeOverCapacityFns[0] = func(task *pod_info.PodInfo, job *podgroup_info.PodGroupInfo,
			node *node_info.NodeInfo) *api.SchedulableResult {
			res := orig(task, job, node)
			if !b.rec.probing {
				b.rec.tried[task.Name] = append(b.rec.tried[task.Name], atry{Node: node.Name, Mem: node.MemoryOfEveryGpuOnNode, Res: res})
			}
			return res
		}
	}
	return b
}

func multiDevice(t *pod_info.PodInfo) bool {
	return t.ResReq.GetNumOfGpuDevices() > 1
}

// gateCall keeps, per action and job, the first refusing and the first accepting call of the job-level gate.
func (r *arecorder) gateCall(job *podgroup_info.PodGroupInfo, tasks []*pod_info.PodInfo, res *api.SchedulableResult) {
	r.gates[r.action+"|"+job.Name]++
	if r.action == "allocate" && !res.IsSchedulable && len(tasks) > 0 {
		r.refused = append(r.refused, arefusal{Pos: len(r.calls), Job: job, Tasks: append([]*pod_info.PodInfo{}, tasks...), Res: res})
	}
	key := fmt.Sprintf("%s|%s|%v", r.action, job.Name, res.IsSchedulable)
	nprobes := 0
	for _, p := range r.probes {
		if !p.Extra {
			nprobes++
		}
	}
	maxProbes := 5
	if r.b.c.Family == "hetero" { // each probe is repeated on every GPU model of the cluster
		maxProbes = 2
	}
	if r.seen[key] || nprobes >= maxProbes || len(tasks) == 0 {
		return
	}
	if _, known := r.b.ssn.ClusterInfo.Queues[job.Queue]; !known {
		return
	}
	r.seen[key] = true
	ssn := r.b.ssn
	// one probe per GPU model of the cluster: the node-level gate depends on the candidate node (a gpu-memory
	// request is a different share of a GPU on every model)
	doneMem := map[int64]bool{}
	for _, n := range r.b.c.Nodes {
		node := r.b.nodes[n.Name]
		if doneMem[node.MemoryOfEveryGpuOnNode] {
			continue
		}
		doneMem[node.MemoryOfEveryGpuOnNode] = true
		p := gateProbe{Action: r.action, Job: job.Name, Queue: string(job.Queue), Pre: job.IsPreemptibleJob(),
			Tasks: append([]*pod_info.PodInfo{}, tasks...), VJob: res, VNP: ssn.IsNonPreemptibleJobOverQueueQuotaFn(job, tasks),
			Mem: node.MemoryOfEveryGpuOnNode, Usage: r.b.usageFromPods(), Extra: len(doneMem) > 1}
		r.probing = true
		for _, t := range tasks {
			p.VTask = append(p.VTask, ssn.IsTaskAllocationOnNodeOverCapacityFn(t, job, node))
			p.Multi = p.Multi || multiDevice(t)
		}
		r.probing = false
		r.probes = append(r.probes, p)
	}
}

func runOneAction(b *abuilt, name string) (panicked string) {
	defer func() {
		if r := recover(); r != nil {
			panicked = fmt.Sprintf("%v\n%s", r, debug.Stack())
		}
	}()
	act, ok := framework.GetAction(name)
	if !ok {
		panic("unknown action " + name)
	}
	b.rec.action = name
	act.Execute(b.ssn)
	return ""
}

// ---- one session ---------------------------------------------------------------------------------

type actionObs struct {
	Term      string
	Label     string
	Probes    []probeOut
	Counts    map[string]int
	Panic     string
	Trace     []string
	NonTriv   string
	Uncovered []string
}

type probeOut struct {
	Term, Label, Key string
}

func podJob(c *acluster) map[string]*jspec {
	m := map[string]*jspec{}
	for i := range c.Jobs {
		for _, t := range c.Jobs[i].Tasks {
			m[t.Name] = &c.Jobs[i]
		}
	}
	return m
}

func runActionCase(c *acluster) actionObs {
	o := actionObs{Counts: map[string]int{}}
	b := buildAction(c)
	ssn := b.ssn
	jobOf := podJob(c)
	specOf := map[string]tspec{}
	for _, j := range c.Jobs {
		for _, t := range j.Tasks {
			specOf[t.Name] = t
		}
	}
	task := func(name string) *pod_info.PodInfo {
		return b.jobs[common_info.PodGroupID(jobOf[name].Name)].GetAllPodsMap()[common_info.PodID(name)]
	}
	// the snapshot, before any action
	type ipod struct {
		status pod_status.PodStatus
		onNode bool
		charge [3]float64
		mem    int64
	}
	init := map[string]ipod{}
	led := map[string]aholder{} // the Go-side truth: who holds what right now (only used to evaluate the real gates)
	for _, j := range c.Jobs {
		for _, t := range j.Tasks {
			ti := task(t.Name)
			mem := ssn.ClusterInfo.MinNodeGPUMemory
			if ti.NodeName != "" {
				mem = b.nodeMem(ti.NodeName)
			}
			init[t.Name] = ipod{status: ti.Status, onNode: ti.NodeName != "", charge: chargeOf(ti), mem: mem}
			if pod_status.AllocatedStatus(ti.Status) {
				led[t.Name] = aholder{Queue: j.Queue, Pre: j.Preemptible, Charge: chargeOf(ti)}
			}
		}
	}
	initObs := b.observe()

	// the real actions; after each one the session is observed again (nothing of a dropped statement may linger)
	type actEnd struct {
		calls int
		obs   string
	}
	var ends []actEnd
	var usage []string // per action: GPU usage of the capped queues recomputed from the pods, next to the plugin's own
	for _, a := range c.Actions {
		if p := runOneAction(b, a); p != "" {
			o.Panic = fmt.Sprintf("action %s: %s", a, p)
			break
		}
		ends = append(ends, actEnd{calls: len(b.rec.calls), obs: b.observe()})
		usage = append(usage, fmt.Sprintf("after %s: %s", a, b.usageSummary()))
	}
	calls := b.rec.calls

	// pods that are pending in the snapshot and placed by some call are described by the steps, the others by k_init
	placedPending := map[string]bool{}
	for _, cl := range calls {
		if cl.Kind != "evict" && init[cl.Pod].status == pod_status.Pending {
			placedPending[cl.Pod] = true
		}
	}
	var initTerms []string
	for _, j := range c.Jobs {
		for _, t := range j.Tasks {
			if placedPending[t.Name] {
				continue
			}
			ip := init[t.Name]
			ch := ip.charge
			initTerms = append(initTerms, fmt.Sprintf("{| ip_queue := %s; ip_preempt := %s; ip_status := %s; ip_on_node := %s; ip_task := %s |}",
				u.Pos(b.qid.of(j.Queue)), u.Bool(j.Preemptible), core.StatusTerm(ip.status), u.Bool(ip.onNode),
				otaskTerm(b.tid.of(t.Name), task(t.Name), ip.mem, "None", &ch)))
			o.Counts["action-snapshot-pod:"+strings.ToLower(ip.status.String())]++
		}
	}

	// steps: the calls cut into commits (a commit starts at a cache call before which a handler fired or a gate ran),
	// each commit into releases and runs of placements of one job
	var stepTerms []string
	var uncovered []string
	push := func(step, obs string) { stepTerms = append(stepTerms, u.Pair(step, obs)) }
	endAt := map[int]string{}
	for _, e := range ends {
		endAt[e.calls] = e.obs
	}
	flushEnds := func(n int) {
		if obs, ok := endAt[n]; ok {
			push("OCommitOk", obs)
			delete(endAt, n)
		}
	}
	// the allocate action's job-level refusals, each at its place between the commits
	refused := b.rec.refused
	flushRefused := func(n int) {
		for len(refused) > 0 && refused[0].Pos <= n {
			rf := refused[0]
			refused = refused[1:]
			js := jobOf[rf.Tasks[0].Name]
			if js == nil {
				continue
			}
			vjob, k1 := verdictTerm(rf.Res, b.qid)
			var ots []string
			for _, t := range rf.Tasks {
				ots = append(ots, otaskTerm(b.tid.of(t.Name), t, init[t.Name].mem, "None", nil))
			}
			push(u.App("OAdmit", u.Bool(false), u.Bool(false), u.Pos(b.qid.of(js.Queue)), u.Bool(js.Preemptible), u.List(ots), vjob, "AdmNo"), "None")
			o.Counts["action-allocate-refused-by-job-gate:"+k1]++
			o.Trace = append(o.Trace, fmt.Sprintf("allocate{%s refused by job-gate: %s}", js.Name, k1))
		}
	}
	flushRefused(0)
	flushEnds(0)
	windowHits := 0
	for i := 0; i < len(calls); {
		k := calls[i].Commit
		e := i
		for e < len(calls) && calls[e].Commit == k {
			e++
		}
		solver := calls[i].Action != "allocate"
		var steps []string
		nEv, nPl := 0, 0
		var trace []string
		for x := i; x < e; {
			cl := calls[x]
			if cl.Kind == "evict" {
				steps = append(steps, u.App("ORelease", u.Pos(b.tid.of(cl.Pod))))
				delete(led, cl.Pod)
				nEv++
				trace = append(trace, "evict "+cl.Pod)
				x++
				continue
			}
			js := jobOf[cl.Pod]
			y := x
			for y < e && calls[y].Kind != "evict" && jobOf[calls[y].Pod] == js {
				y++
			}
			job := b.jobs[common_info.PodGroupID(js.Name)]
			var ts []*pod_info.PodInfo
			for _, r := range calls[x:y] {
				ts = append(ts, task(r.Pod))
			}
			// the real job-level gate on the usage before this job's placement
			res := capacity_policy.New(queueAttrs(withUsage(c.Queues, led))).IsJobOverQueueCapacity(job, ts)
			vjob, k1 := verdictTerm(res, b.qid)
			var ots []string
			allJob, allNode, multi, bound := true, true, false, false
			var names []string
			for n, r := range calls[x:y] {
				t := ts[n]
				node := b.nodes[r.Node]
				gate := "None"
				if node != nil {
					gr := capacity_policy.New(queueAttrs(withUsage(c.Queues, led))).IsTaskAllocationOnNodeOverCapacity(t, job, node)
					v, kk := verdictTerm(gr, b.qid)
					gate = u.Opt(true, v)
					if kk != "ok" {
						o.Counts["action-placed-task-refused-by-node-gate:"+kk]++
					}
					nq := node.GetRequiredInitQuota(t)
					allNode = allNode && le3(r.Charge, [3]float64{nq.MilliCPU, nq.Memory, nq.GPU})
				}
				allJob = allJob && le3(r.Charge, [3]float64{t.ResReq.Cpu(), t.ResReq.Memory(), t.ResReq.GetGpusQuota()})
				multi = multi || multiDevice(t)
				bound = bound || r.Kind == "bind"
				ch := r.Charge
				led[r.Pod] = aholder{Queue: js.Queue, Pre: js.Preemptible, Charge: ch}
				// the candidate nodes the attempt passed over: the live node-level gate was evaluated there (its
				// verdict is compared with the model's gate for THAT node in the state of that moment), then the
				// node was dropped (gate refusal, a later predicate, or no room)
				tried := r.Tried
				if n := len(tried); n > 0 && tried[n-1].Node == r.Node {
					tried = tried[:n-1]
				} else {
					// the pod went to a node on which the session's node-level gate did not run last
					o.Counts["action-placed-on-node-without-own-gate-call"]++
				}
				var tts, tns []string
				for _, a := range tried {
					v, kk := verdictTerm(a.Res, b.qid)
					tts = append(tts, u.Pair(u.Pos(int(a.Mem)), v))
					tns = append(tns, fmt.Sprintf("%s(%d MiB):%s", a.Node, a.Mem, kk))
					if a.Mem != r.NodeMem {
						o.Counts["action-attempt-passed-over-node-of-other-gpu-model:"+kk]++
					}
				}
				o.Counts[fmt.Sprintf("action-attempt-nodes-passed-over:%d", len(tried))]++
				ots = append(ots, otaskTermTried(b.tid.of(r.Pod), t, r.NodeMem, gate, &ch, u.List(tts)))
				nm := fmt.Sprintf("%s %s->%s(%d MiB GPUs: %g GPU)", r.Kind, r.Pod, r.Node, r.NodeMem, ch[2])
				if len(tns) > 0 {
					nm += " after " + strings.Join(tns, ",")
				}
				names = append(names, nm)
				if t.IsMemoryRequest() {
					o.Counts["action-placed-gpu-memory-pod"]++
					if r.NodeMem != ssn.ClusterInfo.MinNodeGPUMemory {
						o.Counts["action-placed-gpu-memory-pod-on-bigger-gpu-model"]++
					}
				}
				nPl++
			}
			if !allJob && !allNode {
				uncovered = append(uncovered, js.Name)
				o.Counts["action-admitted:uncovered"]++
			} else {
				o.Counts["action-admitted:covered"]++
			}
			mode := "allocate"
			if solver {
				mode = "solver"
			}
			o.Counts["action-admitted-by:"+calls[x].Action]++
			if multi {
				o.Counts["action-admitted-multi-device-job-by:"+calls[x].Action]++
			}
			if init[calls[x].Pod].status != pod_status.Pending {
				o.Counts["action-replaced-victim-job-by:"+calls[x].Action]++
			}
			o.Counts["action-"+mode+"-admitted-job-gate:"+k1]++
			if k1 != "ok" {
				windowHits++
			}
			if solver && b.rec.gates[calls[x].Action+"|"+js.Name] == 0 {
				o.Counts["action-solver-nomination-without-any-job-gate-call"]++
			}
			steps = append(steps, u.App("OAdmit", u.Bool(solver), u.Bool(bound), u.Pos(b.qid.of(js.Queue)), u.Bool(js.Preemptible), u.List(ots), vjob, "AdmYes"))
			trace = append(trace, fmt.Sprintf("%s[job-gate %s: %s]", js.Name, k1, strings.Join(names, ", ")))
			x = y
		}
		for n, s := range steps {
			obs := "None"
			if n == len(steps)-1 {
				obs = b.rec.commits[k]
			}
			push(s, obs)
		}
		o.Counts["action-commits:"+calls[i].Action]++
		if nEv > 0 && nPl > 0 {
			o.Counts["action-commits-evicting-and-placing:"+calls[i].Action]++
		}
		o.Trace = append(o.Trace, fmt.Sprintf("%s{%s}", calls[i].Action, strings.Join(trace, "; ")))
		i = e
		flushRefused(i)
		flushEnds(i)
	}
	flushRefused(len(calls) + 1)

	qts := make([]string, len(c.Queues))
	for i, q := range c.Queues {
		qts[i] = queueTerm(q, b.qid)
	}
	o.Term = fmt.Sprintf("{| k_queues := %s; k_min_mem := %s; k_init := %s; k_init_obs := %s; k_init_fair := None; k_steps := %s |}",
		u.List(qts), u.Pos(int(ssn.ClusterInfo.MinNodeGPUMemory)), u.List(initTerms), initObs, u.List(stepTerms))
	tag := "uncovered-admitted=none"
	if len(uncovered) > 0 {
		sort.Strings(uncovered)
		tag = "uncovered-admitted=" + strings.Join(uncovered, ",")
	}
	o.Uncovered = uncovered
	o.Label = fmt.Sprintf("action %s %s %s commits[%s] gpu-usage[%s]", c.Family, tag, c.describe(), strings.Join(o.Trace, " | "),
		strings.Join(usage, " | "))
	if o.Panic != "" {
		o.Label += " PANIC"
	}

	// what the pending jobs that stayed pending were refused for, seen through the wrapped job-level gate
	for _, p := range b.rec.probes {
		_, k1 := verdictTerm(p.VJob, b.qid)
		if p.Action != "allocate" {
			o.Counts["action-solver-job-gate-calls-probed:"+k1]++
			if p.Multi && k1 != "ok" {
				nodeOK := true
				for _, v := range p.VTask {
					nodeOK = nodeOK && v.IsSchedulable
				}
				if nodeOK {
					// exactly the situation in which only the job-level gate stands between the job and the cap
					o.Counts["action-solver-multi-device-job-refused-by-job-gate-only"]++
				}
			}
		} else {
			o.Counts["action-allocate-job-gate-calls-probed:"+k1]++
		}
		o.Probes = append(o.Probes, probeTerm(b, c, p))
	}
	for key, n := range b.rec.gates {
		if !strings.HasPrefix(key, "allocate|") {
			o.Counts["action-solver-job-gate-calls"] += n
		} else {
			o.Counts["action-allocate-job-gate-calls"] += n
		}
	}
	var shape []string
	for _, a := range c.Actions {
		shape = append(shape, fmt.Sprintf("%s:%d", a, o.Counts["action-commits:"+a]))
	}
	solverCommits := len(b.rec.commits) - o.Counts["action-commits:allocate"]
	if solverCommits > 0 {
		o.NonTriv = fmt.Sprintf("action|%s|q%d|n%d|%s|w%d", c.Family, len(c.Queues), len(c.Nodes), strings.Join(shape, ","), windowHits)
	}
	o.Counts[fmt.Sprintf("action-sessions-with-solver-commits:%v", solverCommits > 0)]++
	return o
}

func probeTerm(b *abuilt, c *acluster, p gateProbe) probeOut {
	vjob, k1 := verdictTerm(p.VJob, b.qid)
	vnp, k2 := verdictTerm(p.VNP, b.qid)
	var ots, ks []string
	for i, t := range p.Tasks {
		v, k := verdictTerm(p.VTask[i], b.qid)
		ots = append(ots, otaskTerm(i+1, t, p.Mem, u.Opt(true, v), nil))
		ks = append(ks, k)
	}
	step := u.App("OProbe", u.Pos(b.qid.of(p.Queue)), u.Bool(p.Pre), u.List(ots), vjob, vnp)
	qts := make([]string, len(p.Usage))
	var ql []string
	for i, q := range p.Usage {
		qts[i] = queueTerm(q, b.qid)
		ql = append(ql, fmt.Sprintf("%s<%s lim=%s des=%s alloc=%g np=%g", q.Name, q.Parent, fmtCap(q.Lim), fmtCap(q.Des), q.Alloc[2], q.NP[2]))
	}
	term := fmt.Sprintf("{| k_queues := %s; k_min_mem := %s; k_init := []; k_init_obs := None; k_init_fair := None; k_steps := [%s] |}",
		u.List(qts), u.Pos(int(b.ssn.ClusterInfo.MinNodeGPUMemory)), u.Pair(step, "None"))
	var tl []string
	for _, t := range p.Tasks {
		tl = append(tl, fmt.Sprintf("%s(gpus %g)", t.Name, t.ResReq.GetGpusQuota()))
	}
	label := fmt.Sprintf("action-probe in %s: job-gate(%s@%s pre=%v [%s]) = %s, np-quota = %s, node-gate (node with %d MiB GPUs) = %v on usage-from-pods {%s} OF %s",
		p.Action, p.Job, p.Queue, p.Pre, strings.Join(tl, " "), k1, k2, p.Mem, ks, strings.Join(ql, "; "), c.describe())
	return probeOut{Term: term, Label: label, Key: fmt.Sprintf("probe|%s|%s|%s|%v", p.Action, k1, k2, ks)}
}

// ---- generators ----------------------------------------------------------------------------------------

type agen struct {
	r     *u.Rng
	c     *acluster
	nj    int
	loose int // in `loose` of 6 draws the cap leaves room for the whole job
}

func (g *agen) addJob(queue string, prio int32, pods []tspec) *jspec {
	g.nj++
	name := fmt.Sprintf("j%d", g.nj)
	j := jspec{Name: name, Queue: queue, Priority: prio, Preemptible: prio < 100}
	for i, t := range pods {
		t.Name = fmt.Sprintf("%s-t%d", name, i)
		j.Tasks = append(j.Tasks, t)
	}
	g.c.Jobs = append(g.c.Jobs, j)
	return &g.c.Jobs[len(g.c.Jobs)-1]
}

func (g *agen) mem() int64 { return g.c.Nodes[0].GpuMem }

// running adds one running job whose pods (whole GPUs) all run on node.
func (g *agen) running(queue string, prio int32, node string, gpus ...int64) {
	var pods []tspec
	for _, n := range gpus {
		pods = append(pods, tspec{Kind: kWhole, N: n, NodeMem: g.mem(), State: "running", Node: node})
	}
	g.addJob(queue, prio, pods)
}

// fill occupies gpus GPUs of node with running jobs of queue at priority prio: 1- and 2-GPU pods, now and then a
// gang of two 1-GPU pods. Returns what it placed.
func (g *agen) fill(queue string, prio int32, node string, gpus int) int {
	left := gpus
	for left > 0 {
		switch {
		case left >= 2 && g.r.Chance(1, 3):
			g.running(queue, prio, node, 2)
			left -= 2
		case left >= 2 && g.r.Chance(1, 8):
			g.running(queue, prio, node, 1, 1)
			left -= 2
		default:
			g.running(queue, prio, node, 1)
			left--
		}
	}
	return gpus
}

// pendingPods: 1-3 pods asking 1-4 whole GPUs, a fraction on 2-3 devices (now and then on one) or a mix; rarely a
// gpu-memory request (single- or multi-device). No pod asks more devices than maxDev.
func (g *agen) pendingPods(maxDev int64) []tspec {
	r := g.r
	n := u.Pick(r, []int{1, 1, 1, 2, 2, 3})
	style := r.Intn(10) // 0-3 whole, 4-6 fractions, 7-9 mixed
	var pods []tspec
	for i := 0; i < n; i++ {
		t := tspec{NodeMem: g.mem()}
		if r.Chance(1, 4) {
			t.CPUm = u.Pick(r, []int64{250, 500, 1000})
		}
		kind := kWhole
		switch {
		case style >= 4 && style <= 6:
			kind = kFraction
		case style >= 7:
			kind = u.Pick(r, []int{kWhole, kFraction})
		}
		if r.Chance(1, 14) {
			kind = kGpuMem
		}
		switch kind {
		case kWhole:
			t.Kind = kWhole
			t.N = u.Pick(r, []int64{1, 2, 2, 3, 3, 4, 4})
			if n == 1 && t.N == 1 {
				t.N = 2
			}
		case kFraction:
			t.Kind = kFraction
			t.Portion = u.Pick(r, []string{"0.25", "0.5", "0.5", "0.75"})
			t.N = u.Pick(r, []int64{2, 2, 3, 3, 1, 0})
		default:
			t.Kind = kGpuMem
			t.N = u.Pick(r, []int64{0, 1, 2, 2, 3})
			t.GpuMem = gpuMemFor(r, t.NodeMem, u.Pick(r, []int64{25, 50, 75}))
		}
		if t.N > maxDev {
			t.N = maxDev
		}
		pods = append(pods, t)
	}
	return pods
}

func podGpus(t tspec) float64 { return estCharge(t)[2] }

func podsGpus(ts []tspec) float64 {
	s := 0.0
	for _, t := range ts {
		s += podGpus(t)
	}
	return s
}

// tree builds the queue chain of the leaf `leaf` with the given depth (1: the leaf is a top-level queue; 2: under
// department "d"; 3: under "m" under "d") plus the sibling leaves; every cap unlimited.
func (g *agen) tree(depth int, leaves ...string) {
	un := [3]float64{-1, -1, -1}
	parent := ""
	if depth >= 2 {
		g.c.Queues = append(g.c.Queues, qspec{Name: "d", Parent: "", Lim: un, Des: un})
		parent = "d"
	}
	if depth >= 3 {
		g.c.Queues = append(g.c.Queues, qspec{Name: "m", Parent: "d", Lim: un, Des: un})
		parent = "m"
	}
	for i, l := range leaves {
		p := parent
		if depth >= 3 && i > 0 && g.r.Chance(1, 2) { // a cousin: under a second mid-level queue
			found := false
			for _, q := range g.c.Queues {
				found = found || q.Name == "m2"
			}
			if !found {
				g.c.Queues = append(g.c.Queues, qspec{Name: "m2", Parent: "d", Lim: un, Des: un})
			}
			p = "m2"
		}
		g.c.Queues = append(g.c.Queues, qspec{Name: l, Parent: p, Lim: un, Des: un})
	}
}

func (g *agen) q(name string) *qspec {
	for i := range g.c.Queues {
		if g.c.Queues[i].Name == name {
			return &g.c.Queues[i]
		}
	}
	return nil
}

func (g *agen) chainOf(leaf string) []string {
	var out []string
	for name := leaf; name != ""; {
		q := g.q(name)
		if q == nil {
			break
		}
		out = append(out, name)
		name = q.Parent
	}
	return out
}

// held: GPUs the running pods hold in the subtree of queue (all, or the non-preemptible ones only).
func (g *agen) held(queue string, npOnly bool) float64 {
	s := 0.0
	for _, j := range g.c.Jobs {
		in := false
		for _, a := range g.chainOf(j.Queue) {
			in = in || a == queue
		}
		if !in || (npOnly && j.Priority < 100) {
			continue
		}
		for _, t := range j.Tasks {
			if t.State == "running" {
				s += podGpus(t)
			}
		}
	}
	return s
}

// window: a quantity k in 0..n in quarter steps (whole numbers preferred): the cap is placed at base + k, so that it
// lies below, inside and above the span between "one more device" and "all devices of the job".
func (g *agen) window(n float64) float64 {
	if g.r.Chance(g.loose, 6) { // room for the whole job (and one more GPU): the positive side
		return n + float64(g.r.Intn(2))
	}
	q := int(n * 4)
	if q < 1 {
		q = 1
	}
	k := float64(g.r.Range(0, q)) / 4
	if g.r.Chance(2, 3) {
		k = float64(int(k))
		if g.r.Chance(1, 3) {
			k += 0.5
		}
	}
	if k > n {
		k = n
	}
	return k
}

// caps places the GPU limit (and for a non-preemptible job the deserved quota) of ONE queue of the leaf's chain
// around what it will hold after `freed` GPUs of victims below it are gone, plus k of the n GPUs the job asks; the
// other queues of the chain stay unlimited or get a generous cap.
func (g *agen) caps(leaf string, n float64, freed map[string]float64, np bool) {
	chain := g.chainOf(leaf)
	lvl := chain[g.r.Intn(len(chain))]
	for _, name := range chain {
		q := g.q(name)
		base := g.held(name, false) - freed[name]
		if base < 0 {
			base = 0
		}
		switch {
		case name == lvl:
			q.Lim[2] = base + g.window(n)
		case g.r.Chance(1, 4):
			q.Lim[2] = base + n + float64(g.r.Range(0, 2))
		}
		if np {
			nb := g.held(name, true)
			switch {
			case name == lvl && g.r.Chance(2, 3):
				q.Des[2] = nb + g.window(n)
				if g.r.Chance(1, 2) {
					q.Lim[2] = -1 // the quota alone decides
				}
			case g.r.Chance(1, 3):
				q.Des[2] = nb + n + float64(g.r.Range(0, 2))
			}
		}
	}
}

func (g *agen) nodes(n int, gpus ...int) {
	mem := u.Pick(g.r, []int64{100, 100, 8000, 40000})
	for i := 0; i < n; i++ {
		g.c.Nodes = append(g.c.Nodes, anode{Name: fmt.Sprintf("n%d", i), GPUs: gpus[i%len(gpus)], GpuMem: mem})
	}
}

func (g *agen) solverActions(first string) {
	rest := []string{"preempt", "reclaim", "consolidation"}
	acts := []string{"allocate", first}
	for _, a := range rest {
		if a != first && g.r.Chance(1, 2) {
			acts = append(acts, a)
		}
	}
	// the scheduler's order is allocate, consolidation, reclaim, preempt; other orders are legal configurations
	if g.r.Chance(1, 2) {
		order := map[string]int{"allocate": 0, "consolidation": 1, "reclaim": 2, "preempt": 3}
		sort.Slice(acts, func(i, j int) bool { return order[acts[i]] < order[acts[j]] })
	}
	g.c.Actions = acts
}

// genPreempt: the nodes are (nearly) full of the leaf queue's own running jobs: a non-preemptible base, victims of
// priority 50, now and then pods of a sibling queue. A pending job of higher priority (75, or 110 = non-preemptible)
// must evict victims of its own queue. The cap of one queue of its chain lies around allocated - victims + k.
func genPreempt(r *u.Rng) *acluster {
	c := &acluster{Family: "preempt"}
	g := &agen{r: r, c: c, loose: 2}
	g.nodes(r.Range(1, 2), u.Pick(r, []int{4, 6, 8}), u.Pick(r, []int{4, 8}))
	depth := r.Range(1, 3)
	g.tree(depth, "a", "b")
	maxDev := int64(c.Nodes[0].GPUs)
	if maxDev > 4 {
		maxDev = 4
	}
	pods := g.pendingPods(maxDev)
	n := podsGpus(pods)
	idle := 0.0
	for i, nd := range c.Nodes {
		left := nd.GPUs
		if r.Chance(1, 3) && left > 1 {
			k := r.Range(1, 2)
			g.fill("a", 100, nd.Name, k) // non-preemptible base
			left -= k
		}
		if i > 0 && r.Chance(1, 3) && left > 1 {
			k := r.Range(1, left/2)
			g.fill("b", 50, nd.Name, k)
			left -= k
		}
		if r.Chance(1, 4) {
			left--
			idle++
		}
		g.fill("a", 50, nd.Name, left)
	}
	prio := int32(75)
	if r.Chance(1, 3) {
		prio = 110
	}
	g.addJob("a", prio, pods)
	need := n - idle
	if need < 0 {
		need = 0
	}
	need = float64(int(need + 0.999))
	freed := map[string]float64{}
	for _, name := range g.chainOf("a") {
		freed[name] = need
	}
	g.caps("a", n, freed, prio >= 100)
	if r.Chance(1, 3) { // a second, smaller pending job
		g.addJob(u.Pick(r, []string{"a", "b"}), u.Pick(r, []int32{60, 75}), []tspec{{Kind: kWhole, N: int64(r.Range(1, 2)), NodeMem: g.mem()}})
	}
	g.solverActions("preempt")
	return c
}

// genReclaim: queue b runs over its deserved quota, the pending job's queue a is below its own; the job must
// reclaim from b. The cap lies on a's chain (which from the common ancestor on also holds b's pods).
func genReclaim(r *u.Rng) *acluster {
	c := &acluster{Family: "reclaim"}
	g := &agen{r: r, c: c, loose: 2}
	g.nodes(r.Range(1, 2), u.Pick(r, []int{4, 6, 8}), u.Pick(r, []int{4, 8}))
	depth := r.Range(1, 3)
	g.tree(depth, "a", "b")
	maxDev := int64(c.Nodes[0].GPUs)
	if maxDev > 4 {
		maxDev = 4
	}
	pods := g.pendingPods(maxDev)
	n := podsGpus(pods)
	idle := 0.0
	for _, nd := range c.Nodes {
		left := nd.GPUs
		if r.Chance(1, 2) && left > 2 {
			k := r.Range(1, 2)
			g.fill("a", u.Pick(r, []int32{50, 100}), nd.Name, k)
			left -= k
		}
		if r.Chance(1, 4) {
			left--
			idle++
		}
		g.fill("b", 50, nd.Name, left)
	}
	prio := u.Pick(r, []int32{50, 75, 75, 100})
	g.addJob("a", prio, pods)
	need := n - idle
	if need < 0 {
		need = 0
	}
	need = float64(int(need + 0.999))
	// quotas: a deserves what it holds plus the job (give or take), b less than it holds
	ha, hb := g.held("a", false), g.held("b", false)
	g.q("a").Des[2] = ha + n + float64(r.Range(-1, 1))
	if g.q("a").Des[2] < 0 {
		g.q("a").Des[2] = 0
	}
	g.q("b").Des[2] = float64(int(hb-need)) - float64(r.Range(0, 1))
	if g.q("b").Des[2] < 0 {
		g.q("b").Des[2] = 0
	}
	for _, name := range g.chainOf("a")[1:] {
		if r.Chance(1, 2) {
			g.q(name).Des[2] = g.held(name, false) + float64(r.Range(0, 2))
		}
	}
	freed := map[string]float64{}
	bchain := g.chainOf("b")
	for _, name := range g.chainOf("a") {
		for _, x := range bchain {
			if x == name {
				freed[name] = need
			}
		}
	}
	save := g.q("a").Des[2]
	g.caps("a", n, freed, prio >= 100)
	if prio < 100 || r.Chance(1, 2) {
		g.q("a").Des[2] = save
	}
	g.solverActions("reclaim")
	return c
}

// genConsolidate: enough idle GPUs in total but on no single node enough for the job's pods: consolidation has to
// move running pods (evict + nominate elsewhere). Nothing is freed for good: the cap lies around allocated + k.
func genConsolidate(r *u.Rng) *acluster {
	c := &acluster{Family: "consolidation"}
	g := &agen{r: r, c: c, loose: 3}
	nn := r.Range(2, 3)
	g.nodes(nn, 4)
	depth := r.Range(1, 3)
	g.tree(depth, "a", "b")
	n := int64(r.Range(2, 4))
	var pods []tspec
	if r.Chance(1, 3) {
		p := u.Pick(r, []string{"0.5", "0.75"})
		pods = []tspec{{Kind: kFraction, Portion: p, N: int64(r.Range(2, 3)), NodeMem: g.mem()}}
	} else {
		pods = []tspec{{Kind: kWhole, N: n, NodeMem: g.mem()}}
	}
	if r.Chance(1, 4) {
		pods = append(pods, tspec{Kind: kWhole, N: 1, NodeMem: g.mem()})
	}
	for _, nd := range c.Nodes {
		busy := r.Range(nd.GPUs-int(n)+1, nd.GPUs-1)
		if busy < 1 {
			busy = 1
		}
		for k := 0; k < busy; k++ {
			g.running(u.Pick(r, []string{"a", "a", "b"}), 50, nd.Name, 1)
		}
	}
	g.addJob("a", u.Pick(r, []int32{50, 75}), pods)
	g.caps("a", podsGpus(pods), map[string]float64{}, false)
	for _, name := range []string{"a", "b"} { // everybody within quota: nothing to reclaim
		g.q(name).Des[2] = g.held(name, false) + podsGpus(pods) + 1
	}
	g.c.Actions = []string{"allocate", "consolidation"}
	if r.Chance(1, 3) {
		g.c.Actions = append(g.c.Actions, "reclaim", "preempt")
	}
	return c
}

// genMixed: everything drawn at random.
func genMixed(r *u.Rng) *acluster {
	c := &acluster{Family: "mixed"}
	g := &agen{r: r, c: c, loose: 2}
	g.nodes(r.Range(1, 3), u.Pick(r, []int{4, 8}), u.Pick(r, []int{2, 4}), 4)
	depth := r.Range(1, 3)
	g.tree(depth, "a", "b", "c")
	leaves := []string{"a", "b", "c"}
	for _, nd := range c.Nodes {
		left := nd.GPUs - r.Intn(2)
		for left > 0 {
			k := r.Range(1, left)
			g.fill(u.Pick(r, leaves), u.Pick(r, []int32{50, 50, 50, 75, 100}), nd.Name, k)
			left -= k
		}
	}
	for _, l := range leaves {
		h := g.held(l, false)
		g.q(l).Des[2] = float64(int(h)) + float64(r.Range(-2, 2))
		if g.q(l).Des[2] < 0 {
			g.q(l).Des[2] = 0
		}
	}
	np := r.Range(1, 3)
	for k := 0; k < np; k++ {
		l := u.Pick(r, leaves)
		pods := g.pendingPods(4)
		prio := u.Pick(r, []int32{50, 75, 75, 110})
		g.addJob(l, prio, pods)
		if k == 0 {
			freed := map[string]float64{}
			for _, name := range g.chainOf(l) {
				freed[name] = float64(r.Range(0, int(podsGpus(pods))))
			}
			save := g.q(l).Des[2]
			g.caps(l, podsGpus(pods), freed, prio >= 100)
			if r.Chance(1, 2) {
				g.q(l).Des[2] = save
			}
		}
	}
	g.c.Actions = []string{"allocate", "consolidation", "reclaim", "preempt"}
	if r.Chance(1, 3) {
		g.c.Actions = []string{"allocate", "preempt", "reclaim"}
	}
	return c
}

// actionCorpus: fixed sessions. A leaf / department limit of 4 GPUs, queue at its limit (2 non-preemptible + 2 of
// priority 50), a pending job of priority 75: with ONE 4-GPU pod no action may nominate it (evicting the victim
// leaves 2 + 4 = 6 > 4; the per-pod gate alone would see 2 + 1); as a gang of four 1-GPU pods likewise; with a limit
// of 6 it preempts. The same with a fraction on 3 devices, through reclaim, through consolidation, and against the
// deserved quota of a non-preemptible job.
func actionCorpus() []*acluster {
	un := [3]float64{-1, -1, -1}
	gl := func(x float64) [3]float64 { return [3]float64{-1, -1, x} }
	w := func(n int64) tspec { return tspec{Kind: kWhole, N: n, NodeMem: 100} }
	mk := func(family string, nodes []anode, queues []qspec, acts []string, jobs func(g *agen)) *acluster {
		c := &acluster{Family: "corpus/" + family, Nodes: nodes, Queues: queues, Actions: acts}
		jobs(&agen{c: c})
		return c
	}
	one8 := []anode{{Name: "n0", GPUs: 8, GpuMem: 100}}
	var out []*acluster
	for _, lim := range []float64{4, 5, 6} {
		lim := lim
		for _, gang := range []bool{false, true} {
			gang := gang
			name := fmt.Sprintf("leaf-limit-%g-one-4gpu-pod", lim)
			if gang {
				name = fmt.Sprintf("leaf-limit-%g-gang-of-four-1gpu-pods", lim)
			}
			out = append(out, mk(name, one8, []qspec{{Name: "d", Lim: un, Des: un}, {Name: "a", Parent: "d", Lim: gl(lim), Des: gl(4)}},
				[]string{"allocate", "preempt"}, func(g *agen) {
					g.running("a", 100, "n0", 2)
					g.running("a", 50, "n0", 2)
					if gang {
						g.addJob("a", 75, []tspec{w(1), w(1), w(1), w(1)})
					} else {
						g.addJob("a", 75, []tspec{w(4)})
					}
				}))
		}
	}
	// the limit on the department of two unlimited leaves
	out = append(out, mk("department-limit-4-one-4gpu-pod", one8,
		[]qspec{{Name: "d", Lim: gl(4), Des: gl(4)}, {Name: "a", Parent: "d", Lim: un, Des: gl(2)}, {Name: "b", Parent: "d", Lim: un, Des: gl(2)}},
		[]string{"allocate", "preempt"}, func(g *agen) {
			g.running("b", 100, "n0", 2)
			g.running("a", 50, "n0", 2)
			g.addJob("a", 75, []tspec{w(4)})
		}))
	// three levels, the limit in the middle
	out = append(out, mk("mid-level-limit-3-one-3gpu-pod", one8,
		[]qspec{{Name: "d", Lim: un, Des: un}, {Name: "m", Parent: "d", Lim: gl(3), Des: un}, {Name: "a", Parent: "m", Lim: un, Des: gl(3)}},
		[]string{"allocate", "preempt"}, func(g *agen) {
			g.running("a", 100, "n0", 1)
			g.running("a", 50, "n0", 2)
			g.addJob("a", 75, []tspec{w(3)})
		}))
	// a fraction on three devices (1.5 GPUs): three 1-GPU victims must go, the queue then holds 1; limit 2: 1 + 1.5 > 2
	// although one device (1 + 0.5) fits; limit 2.5: nominated
	for _, lim := range []float64{2, 2.5} {
		lim := lim
		out = append(out, mk(fmt.Sprintf("leaf-limit-%g-fraction-on-3-devices", lim), []anode{{Name: "n0", GPUs: 4, GpuMem: 100}},
			[]qspec{{Name: "d", Lim: un, Des: un}, {Name: "a", Parent: "d", Lim: gl(lim), Des: gl(4)}},
			[]string{"allocate", "preempt"}, func(g *agen) {
				g.running("a", 100, "n0", 1)
				g.running("a", 50, "n0", 1)
				g.running("a", 50, "n0", 1)
				g.running("a", 50, "n0", 1)
				g.addJob("a", 75, []tspec{{Kind: kFraction, Portion: "0.5", N: 3, NodeMem: 100}})
			}))
	}
	// reclaim: b over quota, a's limit 3 holds 1: a 3-GPU pod is one too many
	for _, lim := range []float64{3, 4} {
		lim := lim
		out = append(out, mk(fmt.Sprintf("reclaim-leaf-limit-%g-one-3gpu-pod", lim), []anode{{Name: "n0", GPUs: 4, GpuMem: 100}},
			[]qspec{{Name: "d", Lim: un, Des: un}, {Name: "a", Parent: "d", Lim: gl(lim), Des: gl(4)}, {Name: "b", Parent: "d", Lim: un, Des: gl(0)}},
			[]string{"allocate", "reclaim"}, func(g *agen) {
				g.running("a", 50, "n0", 1)
				g.running("b", 50, "n0", 1)
				g.running("b", 50, "n0", 1)
				g.running("b", 50, "n0", 1)
				g.addJob("a", 50, []tspec{w(3)})
			}))
	}
	// consolidation: 2 + 2 idle GPUs on two nodes, a 3-GPU pod; the queue holds 4, limit 5 / 7
	for _, lim := range []float64{5, 7} {
		lim := lim
		out = append(out, mk(fmt.Sprintf("consolidation-leaf-limit-%g-one-3gpu-pod", lim),
			[]anode{{Name: "n0", GPUs: 4, GpuMem: 100}, {Name: "n1", GPUs: 4, GpuMem: 100}},
			[]qspec{{Name: "d", Lim: un, Des: un}, {Name: "a", Parent: "d", Lim: gl(lim), Des: gl(8)}},
			[]string{"allocate", "consolidation"}, func(g *agen) {
				g.running("a", 50, "n0", 1)
				g.running("a", 50, "n0", 1)
				g.running("a", 50, "n1", 1)
				g.running("a", 50, "n1", 1)
				g.addJob("a", 50, []tspec{w(3)})
			}))
	}
	// deserved quota of a non-preemptible job: the queue holds 1 non-preemptible GPU, deserved 3 / 5, a 4-GPU pod
	for _, des := range []float64{3, 5} {
		des := des
		out = append(out, mk(fmt.Sprintf("deserved-%g-non-preemptible-4gpu-pod", des), one8,
			[]qspec{{Name: "d", Lim: un, Des: un}, {Name: "a", Parent: "d", Lim: un, Des: gl(des)}},
			[]string{"allocate", "preempt"}, func(g *agen) {
				g.running("a", 100, "n0", 1)
				g.fill2("a", 50, "n0", 7)
				g.addJob("a", 110, []tspec{w(4)})
			}))
	}
	return out
}

// fill2: deterministic fill with 1-GPU jobs (corpus; no generator at hand).
func (g *agen) fill2(queue string, prio int32, node string, gpus int) {
	for i := 0; i < gpus; i++ {
		g.running(queue, prio, node, 1)
	}
}

func genActionCluster(r *u.Rng, i int) *acluster {
	switch i % 8 {
	case 0, 1, 2:
		return genPreempt(r)
	case 3, 4:
		return genReclaim(r)
	case 5:
		return genConsolidate(r)
	default:
		return genMixed(r)
	}
}

// runActions emits the corpus and nsess generated action sessions (with their gate probes). Sessions run on a few
// goroutines (each has its own session objects); output order is by index.
func runActions(out *u.Out, root *u.Rng, nsess int) {
	var clusters []*acluster
	clusters = append(clusters, actionCorpus()...)
	for i := 0; i < nsess; i++ {
		clusters = append(clusters, genActionCluster(root.Fork(uint64(7000000+i)), i))
	}
	// clusters mixing GPU models (hetero.go): after the others, so that their indices stay what they were
	clusters = append(clusters, heteroCorpus()...)
	for i := 0; i < nsess*2/3; i++ {
		clusters = append(clusters, genHetero(root.Fork(uint64(8000000+i))))
	}
	emitActions(out, clusters)
}

// emitActions runs the sessions (on a few goroutines, each with its own session objects) and emits their cases and
// gate probes in index order.
func emitActions(out *u.Out, clusters []*acluster) {
	if len(clusters) == 0 {
		return
	}
	res := make([]actionObs, len(clusters))
	res[0] = runActionCase(clusters[0]) // warm-up: package-level initialisations
	var wg sync.WaitGroup
	work := make(chan int)
	for w := 0; w < 6; w++ {
		wg.Add(1)
		go func() {
			defer wg.Done()
			for i := range work {
				res[i] = runActionCase(clusters[i])
			}
		}()
	}
	for i := 1; i < len(clusters); i++ {
		work <- i
	}
	close(work)
	wg.Wait()
	for i, o := range res {
		c := clusters[i]
		if o.Panic != "" {
			out.Count("action:PANIC")
			fmt.Fprintf(os.Stderr, "PANIC in action session: %s\n  cluster: %s\n", o.Panic, c.describe())
		}
		fam := c.Family
		if strings.HasPrefix(fam, "corpus/tiny/") {
			fam = "tiny-corpus"
		} else if strings.HasPrefix(fam, "corpus/") {
			fam = "corpus"
		}
		out.Add(o.Term, o.Label)
		out.Count("origin:action-" + fam)
		for k, v := range o.Counts {
			out.CountN(k, v)
		}
		maxd := 0
		for _, q := range c.Queues {
			if d := depthOf(c.Queues, q.Name); d > maxd {
				maxd = d
			}
		}
		out.Count(fmt.Sprintf("action-depth:%d", maxd))
		if o.NonTriv != "" {
			out.NonTrivial(o.NonTriv)
		}
		if i%9 == 0 {
			out.Sample(map[string]any{"input": c, "commits": o.Trace})
		}
		for _, p := range o.Probes {
			out.Add(p.Term, p.Label)
			out.Count("origin:action-probe")
			out.NonTrivial(p.Key + "|" + fam)
		}
	}
}
