package c08

import (
	"fmt"

	u "kaiverif/internal/util"
)

// All generated quantities are integers or dyadic fractions (k/4 GPUs, whole
// milli-CPUs, whole MB) so that Go's float64 arithmetic on them is exact and
// observations can be compared with the exact-rational model.

var nodeMems = []int64{100, 8000, 16384, 40000, 16383}

func genGpuCap(r *u.Rng) float64 {
	switch r.Intn(20) {
	case 0, 1, 2, 3, 4, 5, 6:
		return -1
	case 7:
		return 0
	case 8, 9:
		return float64(r.Range(1, 8)) / 4 // small fractional caps
	default:
		return float64(r.Range(4, 40)) / 4
	}
}

func genCpuCap(r *u.Rng) float64 {
	switch r.Intn(20) {
	case 0:
		return 0
	case 1, 2, 3, 4:
		return float64(r.Range(1, 16) * 500)
	default:
		return -1
	}
}

func genMemCap(r *u.Rng) float64 {
	switch r.Intn(20) {
	case 0:
		return 0
	case 1, 2, 3, 4:
		return float64(r.Range(1, 16)) * 500e6
	default:
		return -1
	}
}

// genTree draws a queue forest of depth 1-3 with at most 7 queues.
func genTree(r *u.Rng) []qspec {
	var qs []qspec
	add := func(parent string) string {
		name := fmt.Sprintf("q%d", len(qs)+1)
		qs = append(qs, qspec{Name: name, Parent: parent,
			Lim: [3]float64{genCpuCap(r), genMemCap(r), genGpuCap(r)},
			Des: [3]float64{genCpuCap(r), genMemCap(r), genGpuCap(r)}})
		return name
	}
	tops := r.Range(1, 2)
	for i := 0; i < tops && len(qs) < 7; i++ {
		t := add("")
		for j, n := 0, r.Intn(3); j < n && len(qs) < 7; j++ {
			m := add(t)
			for k, n2 := 0, r.Intn(3); k < n2 && len(qs) < 7; k++ {
				add(m)
			}
		}
	}
	return qs
}

func depthOf(qs []qspec, name string) int {
	d := 0
	for name != "" && d < 10 {
		found := false
		for _, q := range qs {
			if q.Name == name {
				name = q.Parent
				found = true
				break
			}
		}
		if !found {
			break
		}
		d++
	}
	return d
}

// gpuMemFor returns a gpu-memory request whose fraction of a GPU with nodeMem
// MiB is exactly (or rounds up to) target/100, with Go's float computation
// ceil(mem/nodeMem*100) far from a rounding cliff.
func gpuMemFor(r *u.Rng, nodeMem int64, target int64) int64 {
	if nodeMem%4 == 0 && (nodeMem < 1000 || r.Bool()) {
		return target * nodeMem / 100 // exact dyadic ratio
	}
	if nodeMem%4 == 0 {
		return target*nodeMem/100 - nodeMem/200 // (target - 0.5)/100: ceil does the work
	}
	return target*nodeMem/100 - nodeMem/200
}

func genTask(r *u.Rng, name string, multi bool) tspec {
	t := tspec{Name: name, NodeMem: u.Pick(r, nodeMems)}
	t.CPUm = u.Pick(r, []int64{0, 0, 250, 500, 1000, 2000})
	t.MemMB = u.Pick(r, []int64{0, 0, 100, 500, 1000})
	switch k := r.Intn(100); {
	case k < 30:
		t.Kind = kWhole
		t.N = u.Pick(r, []int64{1, 1, 1, 2, 2, 4})
		if !multi {
			t.N = 1
		}
	case k < 55:
		t.Kind = kFraction
		t.Portion = u.Pick(r, []string{"0.25", "0.5", "0.5", "0.75", "1"})
		t.N = u.Pick(r, []int64{0, 0, 0, 1, 2, 3})
		if !multi && t.N > 1 {
			t.N = 1
		}
	case k < 75:
		t.Kind = kGpuMem
		t.N = u.Pick(r, []int64{0, 0, 0, 1, 2, 3})
		if !multi && t.N > 1 {
			t.N = 0
		}
		t.GpuMem = gpuMemFor(r, t.NodeMem, u.Pick(r, []int64{25, 50, 75, 100, 125}))
	case k < 83:
		t.Kind = kMig
		t.Mig = [][2]int{{r.Range(1, 3), r.Range(1, 2)}}
		if r.Chance(1, 3) {
			g := t.Mig[0][0]%3 + 1
			t.Mig = append(t.Mig, [2]int{g, 1})
		}
	case k < 93:
		t.Kind = kCPU
		if t.CPUm == 0 {
			t.CPUm = 500
		}
	default:
		t.Kind = kDRA
		t.N = u.Pick(r, []int64{1, 1, 2})
		if !multi {
			t.N = 1
		}
	}
	return t
}

// jobClass: 0 = every task is covered by the job-level sum (no gpu-memory
// request), 1 = every task is covered by the node-level gate (single device),
// 2 = anything (may include multi-device gpu-memory tasks and mixes).
func genJob(r *u.Rng, name, queue string, class int) jspec {
	return genJobMin(r, name, queue, class, 1)
}

// genJobMin: as genJob with at least minTasks tasks.
func genJobMin(r *u.Rng, name, queue string, class int, minTasks int) jspec {
	j := jspec{Name: name, Queue: queue, Preemptible: r.Bool()}
	n := u.Pick(r, []int{1, 1, 1, 2, 2, 3})
	if n < minTasks {
		n = minTasks
	}
	for i := 0; i < n; i++ {
		var t tspec
		for {
			t = genTask(r, fmt.Sprintf("%s-t%d", name, i), class != 1)
			if class == 0 && (t.Kind == kGpuMem) {
				continue
			}
			if class == 1 && t.Kind == kDRA {
				continue
			}
			break
		}
		j.Tasks = append(j.Tasks, t)
	}
	return j
}

func (j jspec) label() string {
	s := fmt.Sprintf("%s@%s pre=%v [", j.Name, j.Queue, j.Preemptible)
	for i, t := range j.Tasks {
		if i > 0 {
			s += " "
		}
		switch t.Kind {
		case kWhole:
			s += fmt.Sprintf("whole:%d", t.N)
		case kFraction:
			s += fmt.Sprintf("frac:%sx%d", t.Portion, t.N)
			if t.GpuMem > 0 {
				s += fmt.Sprintf("+mem%d", t.GpuMem)
			}
		case kGpuMem:
			s += fmt.Sprintf("gpumem:%dx%d", t.GpuMem, t.N)
		case kMig:
			s += fmt.Sprintf("mig:%v", t.Mig)
		case kCPU:
			s += "cpu"
		case kDRA:
			s += fmt.Sprintf("dra:%d", t.N)
		}
		s += fmt.Sprintf("/cpu%d/mem%d", t.CPUm, t.MemMB)
		if t.MemB > 0 {
			s += fmt.Sprintf("+%dB", t.MemB)
		}
		s += fmt.Sprintf("/node%d", t.NodeMem)
		if t.State != "" {
			s += "=" + t.State
		}
	}
	return s + "]"
}
