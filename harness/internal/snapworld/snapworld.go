// Package snapworld runs the REAL scheduler cache (cache.New -> informers -> ClusterInfo.Snapshot,
// cleanStaleBindRequest, Bind -> createBindRequest) over fake clientsets that are filled from a prepared object
// set, and opens real sessions on it. It is the "M2" way of running the scheduler (DESIGN.md section 4) as a small
// shared helper: what the scheduler sees is exactly the object set handed in (no informer lag of its own; lag
// between the pod and the BindRequest streams is expressed in the object set, e.g. a Succeeded BindRequest next
// to a pod whose spec.nodeName is still empty).
package snapworld

import (
	"flag"
	"io"
	"net/http"
	"sync"

	"github.com/go-logr/logr"
	"k8s.io/apimachinery/pkg/runtime"
	kubefake "k8s.io/client-go/kubernetes/fake"
	"k8s.io/klog/v2"
	crlog "sigs.k8s.io/controller-runtime/pkg/log"

	kaifake "github.com/NVIDIA/KAI-scheduler/pkg/apis/client/clientset/versioned/fake"
	"github.com/NVIDIA/KAI-scheduler/pkg/common/constants"
	"github.com/NVIDIA/KAI-scheduler/pkg/scheduler/actions"
	"github.com/NVIDIA/KAI-scheduler/pkg/scheduler/cache"
	"github.com/NVIDIA/KAI-scheduler/pkg/scheduler/conf"
	"github.com/NVIDIA/KAI-scheduler/pkg/scheduler/conf_util"
	"github.com/NVIDIA/KAI-scheduler/pkg/scheduler/framework"
	"github.com/NVIDIA/KAI-scheduler/pkg/scheduler/log"
	"github.com/NVIDIA/KAI-scheduler/pkg/scheduler/plugins"
)

const SchedulerName = "kai-scheduler"

var (
	quietOnce sync.Once
	initOnce  sync.Once
	mux       = http.NewServeMux()
)

// Quiet silences klog / controller-runtime logging (the informers and fake clients are chatty).
func Quiet() {
	quietOnce.Do(func() {
		crlog.SetLogger(logr.Discard())
		fs := flag.NewFlagSet("klog", flag.ContinueOnError)
		klog.InitFlags(fs)
		_ = fs.Set("logtostderr", "false")
		_ = fs.Set("stderrthreshold", "FATAL")
		klog.SetOutput(io.Discard)
	})
}

// Sched is one real SchedulerCache over fake clientsets, informers started and synced.
type Sched struct {
	Kube  *kubefake.Clientset
	Kai   *kaifake.Clientset
	Cache cache.Cache
	stop  chan struct{}
}

// New builds the clientsets from the two object sets (core objects: pods, nodes, ...; KAI objects: queues,
// pod groups, bind requests), creates the real cache on them and waits for its informers.
func New(kubeObjs, kaiObjs []runtime.Object) *Sched {
	Quiet()
	s := &Sched{Kube: kubefake.NewSimpleClientset(kubeObjs...), Kai: kaifake.NewSimpleClientset(kaiObjs...)}
	s.Cache = cache.New(&cache.SchedulerCacheParams{
		SchedulerName: SchedulerName, KubeClient: s.Kube, KAISchedulerClient: s.Kai,
		NodePoolParams: &conf.SchedulingNodePoolParams{}, FullHierarchyFairness: true,
		NumOfStatusRecordingWorkers: 1, DiscoveryClient: s.Kube.Discovery(),
	})
	s.stop = make(chan struct{})
	s.Cache.Run(s.stop)
	s.Cache.WaitForCacheSync(s.stop)
	return s
}

func (s *Sched) Close() { close(s.stop) }

// Params are the scheduler parameters of the sessions opened by OpenSession.
func Params() *conf.SchedulerParams {
	return &conf.SchedulerParams{
		SchedulerName:                    SchedulerName,
		PartitionParams:                  &conf.SchedulingNodePoolParams{},
		MaxNumberConsolidationPreemptees: 16,
		NumOfStatusRecordingWorkers:      1,
		QueueLabelKey:                    constants.DefaultQueueLabel,
	}
}

// SessionMu serialises sessions: framework.OpenSession registers the plugins' HTTP handlers in a process-wide plugin
// server (a plain map), so two sessions must not be opened concurrently. Callers that run cases in parallel hold it
// from OpenSession to CloseSession (cache construction and informer sync stay parallel).
var SessionMu sync.Mutex

// OpenSession opens a real session (framework.OpenSession: Snapshot + default plugin tiers) on c, which is the
// Sched's cache or a wrapper around it (recording / observing).
func OpenSession(c cache.Cache, id string) (*framework.Session, error) {
	initOnce.Do(func() {
		_ = log.InitLoggers(0)
		actions.InitDefaultActions()
		plugins.InitDefaultPlugins()
	})
	config, err := conf_util.GetDefaultSchedulerConf()
	if err != nil {
		return nil, err
	}
	return framework.OpenSession(c, config, Params(), id, mux)
}

// RunAction executes one registered action on the session.
func RunAction(ssn *framework.Session, name string) bool {
	act, ok := framework.GetAction(name)
	if !ok {
		return false
	}
	act.Execute(ssn)
	return true
}
