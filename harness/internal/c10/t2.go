package c10

import (
	"fmt"
	"sort"
	"strconv"
	"strings"
	"time"

	v1 "k8s.io/api/core/v1"
	"k8s.io/apimachinery/pkg/api/resource"
	metav1 "k8s.io/apimachinery/pkg/apis/meta/v1"
	"k8s.io/apimachinery/pkg/types"

	enginev2 "github.com/NVIDIA/KAI-scheduler/pkg/apis/scheduling/v2"
	enginev2alpha2 "github.com/NVIDIA/KAI-scheduler/pkg/apis/scheduling/v2alpha2"
	"github.com/NVIDIA/KAI-scheduler/pkg/scheduler/actions/utils"
	"github.com/NVIDIA/KAI-scheduler/pkg/scheduler/api"
	"github.com/NVIDIA/KAI-scheduler/pkg/scheduler/api/common_info"
	"github.com/NVIDIA/KAI-scheduler/pkg/scheduler/api/node_info"
	"github.com/NVIDIA/KAI-scheduler/pkg/scheduler/api/pod_info"
	"github.com/NVIDIA/KAI-scheduler/pkg/scheduler/api/pod_status"
	"github.com/NVIDIA/KAI-scheduler/pkg/scheduler/api/podgroup_info"
	"github.com/NVIDIA/KAI-scheduler/pkg/scheduler/api/podgroup_info/subgroup_info"
	"github.com/NVIDIA/KAI-scheduler/pkg/scheduler/api/queue_info"
	"github.com/NVIDIA/KAI-scheduler/pkg/scheduler/api/resource_info"
	"github.com/NVIDIA/KAI-scheduler/pkg/scheduler/cache"
	"github.com/NVIDIA/KAI-scheduler/pkg/scheduler/cache/cluster_info"
	"github.com/NVIDIA/KAI-scheduler/pkg/scheduler/conf"
	"github.com/NVIDIA/KAI-scheduler/pkg/scheduler/framework"
	"github.com/NVIDIA/KAI-scheduler/pkg/scheduler/plugins"
	cp "github.com/NVIDIA/KAI-scheduler/pkg/scheduler/plugins/proportion/capacity_policy"
	rec "github.com/NVIDIA/KAI-scheduler/pkg/scheduler/plugins/proportion/reclaimable"
	rs "github.com/NVIDIA/KAI-scheduler/pkg/scheduler/plugins/proportion/resource_share"
	"github.com/NVIDIA/KAI-scheduler/pkg/scheduler/scheduler_util"
	"github.com/NVIDIA/KAI-scheduler/pkg/scheduler/test_utils"

	"kaiverif/internal/core"
	u "kaiverif/internal/util"
)

func quiet() {}

// ---- queue graphs -------------------------------------------------------------

// GQ is one Queue object: its name is q<ID>, Spec.ParentQueue is q<Parent> ("" when 0).
type GQ struct{ ID, Parent int }
type Graph []GQ

func qname(id int) string {
	if id == 0 {
		return ""
	}
	return "q" + strconv.Itoa(id)
}

func (g Graph) has(id int) bool {
	for _, q := range g {
		if q.ID == id {
			return true
		}
	}
	return false
}

func (g Graph) parent(id int) (int, bool) {
	for _, q := range g {
		if q.ID == id {
			return q.Parent, true
		}
	}
	return 0, false
}

// cleaned is what UpdateQueueHierarchy is documented to leave: queues whose parent chain hits a
// missing queue are dropped. Used only for labels (tags), never for verdicts.
func (g Graph) cleaned() Graph {
	cur := append(Graph{}, g...)
	for {
		var nxt Graph
		for _, q := range cur {
			if q.Parent != 0 && !cur.has(q.Parent) {
				continue
			}
			nxt = append(nxt, q)
		}
		if len(nxt) == len(cur) {
			return cur
		}
		cur = nxt
	}
}

// cycleFrom returns the length of the parent cycle reached from start (0 when none).
func (g Graph) cycleFrom(start int) int {
	seen := map[int]int{}
	cur, step := start, 0
	for cur != 0 && g.has(cur) {
		if at, ok := seen[cur]; ok {
			return step - at
		}
		seen[cur] = step
		cur, _ = g.parent(cur)
		step++
	}
	return 0
}

func (g Graph) children(id int) []int {
	var out []int
	for _, q := range g {
		if q.Parent == id && id != 0 {
			out = append(out, q.ID)
		}
	}
	return out
}

func (g Graph) String() string {
	parts := make([]string, len(g))
	for i, q := range g {
		p := "-"
		if q.Parent != 0 {
			p = qname(q.Parent)
		}
		parts[i] = qname(q.ID) + "->" + p
	}
	return "queues[" + strings.Join(parts, " ") + "]"
}

func (g Graph) Term() string {
	return u.ListOf(g, func(q GQ) string {
		return u.Pair(u.Pos(q.ID), u.Opt(q.Parent != 0, u.Pos(q.Parent)))
	})
}

func posList(xs []int) string { return u.ListOf(xs, func(i int) string { return u.Pos(i) }) }

// tags describes what is malformed about the graph as seen from the queues in [starts].
func (g Graph) tags(starts []int) string {
	var t []string
	cl := g.cleaned()
	seenCyc := map[int]bool{}
	for _, s := range starts {
		if n := cl.cycleFrom(s); n > 0 && !seenCyc[n] {
			seenCyc[n] = true
			t = append(t, fmt.Sprintf("queue-cycle(len=%d)", n))
		}
	}
	for _, s := range starts {
		if !g.has(s) {
			t = append(t, "missing-queue")
			break
		}
	}
	for _, s := range starts {
		if g.has(s) && !cl.has(s) {
			t = append(t, "orphan-queue")
			break
		}
	}
	if len(t) == 0 {
		return "wellformed-chain"
	}
	return strings.Join(t, " ")
}

func forest(r *u.Rng, n int) Graph {
	g := Graph{}
	depth := map[int]int{}
	for i := 1; i <= n; i++ {
		p := 0
		if i > 1 && !r.Chance(1, 3) {
			c := r.Range(1, i-1)
			if depth[c] < 3 {
				p = c
			}
		}
		depth[i] = depth[p] + 1
		if p == 0 {
			depth[i] = 1
		}
		g = append(g, GQ{i, p})
	}
	return g
}

func genGraph(r *u.Rng, malformed bool) Graph {
	n := r.Range(2, 7)
	g := forest(r, n)
	if !malformed {
		return g
	}
	for k, m := 0, r.Range(1, 2); k < m; k++ {
		switch r.Intn(7) {
		case 0: // self parent
			i := r.Intn(len(g))
			g[i].Parent = g[i].ID
		case 1: // 2-cycle
			a, b := r.Intn(len(g)), r.Intn(len(g))
			if a != b {
				g[a].Parent, g[b].Parent = g[b].ID, g[a].ID
			}
		case 2: // 3-cycle
			if len(g) >= 3 {
				p := []int{0, 1, 2}
				off := r.Intn(len(g) - 2)
				a, b, c := p[0]+off, p[1]+off, p[2]+off
				g[a].Parent, g[b].Parent, g[c].Parent = g[b].ID, g[c].ID, g[a].ID
			}
		case 3, 4: // missing parent (orphan, with whatever hangs below it)
			g[r.Intn(len(g))].Parent = 90 + r.Intn(3)
		case 5: // a root adopts one of the other queues as parent (often closes a cycle through a tree)
			i := r.Intn(len(g))
			g[i].Parent = g[r.Intn(len(g))].ID
		default: // leaves at different depths: a fresh top-level leaf next to nested ones
			g = append(g, GQ{len(g) + 1, 0})
		}
	}
	return g
}

func pickQueue(r *u.Rng, g Graph, malformed bool) int {
	if malformed && r.Chance(1, 8) {
		return 80 + r.Intn(3) // a queue that does not exist
	}
	// prefer leaves
	var leaves []int
	for _, q := range g {
		if len(g.children(q.ID)) == 0 {
			leaves = append(leaves, q.ID)
		}
	}
	if len(leaves) > 0 && !r.Chance(1, 5) {
		return u.Pick(r, leaves)
	}
	return g[r.Intn(len(g))].ID
}

// ---- real objects ---------------------------------------------------------------

func queueObject(q GQ) *enginev2.Queue {
	res := func() enginev2.QueueResource { return enginev2.QueueResource{Quota: -1, Limit: -1, OverQuotaWeight: 1} }
	prio := 100
	return &enginev2.Queue{
		ObjectMeta: metav1.ObjectMeta{Name: qname(q.ID), UID: types.UID(qname(q.ID)),
			CreationTimestamp: metav1.Time{Time: time.Unix(1700000000+int64(q.ID)*60, 0)}},
		Spec: enginev2.QueueSpec{ParentQueue: qname(q.Parent), Priority: &prio,
			Resources: &enginev2.QueueResources{GPU: res(), CPU: res(), Memory: res()}},
	}
}

func (g Graph) infos() map[common_info.QueueID]*queue_info.QueueInfo {
	m := map[common_info.QueueID]*queue_info.QueueInfo{}
	for _, q := range g {
		qi := queue_info.NewQueueInfo(queueObject(q))
		m[qi.UID] = qi
	}
	return m
}

func idOf(q common_info.QueueID) int {
	n, _ := strconv.Atoi(strings.TrimPrefix(string(q), "q"))
	return n
}

func inSet(xs []int, x int) bool {
	for _, y := range xs {
		if x == y {
			return true
		}
	}
	return false
}

// attrs mirrors proportion.createQueueResourceAttrs on the cleaned QueueInfo map; shares are
// given by gpu(id).
func attrs(infos map[common_info.QueueID]*queue_info.QueueInfo, gpu func(id int) rs.ResourceShare) map[common_info.QueueID]*rs.QueueAttributes {
	out := map[common_info.QueueID]*rs.QueueAttributes{}
	for id, qi := range infos {
		out[id] = &rs.QueueAttributes{UID: qi.UID, Name: qi.Name, ParentQueue: qi.ParentQueue, ChildQueues: qi.ChildQueues,
			CreationTimestamp: qi.CreationTimestamp, Priority: qi.Priority,
			QueueResourceShare: rs.QueueResourceShare{
				GPU:    gpu(idOf(id)),
				CPU:    rs.ResourceShare{Deserved: -1, MaxAllowed: -1},
				Memory: rs.ResourceShare{Deserved: -1, MaxAllowed: -1},
			}}
	}
	return out
}

func mkJob(name string, queue int, preemptible bool) *podgroup_info.PodGroupInfo {
	j := podgroup_info.NewPodGroupInfo(common_info.PodGroupID(name))
	j.Name, j.Namespace, j.NamespacedName = name, "ns", "ns/"+name
	j.Queue = common_info.QueueID(qname(queue))
	j.Preemptibility = enginev2alpha2.NonPreemptible
	if preemptible {
		j.Preemptibility = enginev2alpha2.Preemptible
	}
	j.CreationTimestamp = metav1.Time{Time: time.Unix(1700000000, 0)}
	return j
}

// ---- the case ---------------------------------------------------------------------

type SubGroupSpec struct {
	Name      string
	Parent    *string
	MinMember int32
}

type Case struct {
	Kind   string // hier cap rawcap canrecl recl order open sub sample cycle
	Origin string // corpus structured malformed
	G      Graph
	S1, S2 []int // queues over their limit / over their quota for non-preemptible jobs
	JQ     int
	Pre    bool
	A, B   int // reclaimer / victim queue; message: reclaimer / reclaimee queue
	NRes   int
	Jobs   []int
	Msg    bool
	Sub    []SubGroupSpec
	MinM   int32
	Tasks  []string
	Ann    map[string]string // sample: pod annotations
	Node   core.NodeSpec     // sample: node
	NoLab  bool              // sample: strip every node label
	Cyc    *CycleCase
}

func (c *Case) Timeout() time.Duration {
	if c.Kind == "cycle" {
		return 30 * time.Second
	}
	return 8 * time.Second // generous: a loaded machine must not be read as a hang
}

func (c *Case) Exec() Result {
	switch c.Kind {
	case "hier":
		return protect(func(res *Result) {
			m := c.G.infos()
			cluster_info.UpdateQueueHierarchy(m)
			res.Left = leftOf(m)
		})
	case "cap":
		return protect(func(res *Result) {
			m := c.G.infos()
			cluster_info.UpdateQueueHierarchy(m)
			qa := attrs(m, func(id int) rs.ResourceShare {
				sh := rs.ResourceShare{Deserved: -1, MaxAllowed: -1}
				if inSet(c.S1, id) {
					sh.MaxAllowed = 0
				}
				if inSet(c.S2, id) {
					sh.Deserved = 0
				}
				return sh
			})
			job := mkJob("j", c.JQ, c.Pre)
			task := core.MkPod(core.PodSpec{Name: "p", Job: "j", Gpus: 1, Status: pod_status.Pending}, resource_info.NewResourceVectorMap())
			r := cp.New(qa).IsJobOverQueueCapacity(job, []*pod_info.PodInfo{task})
			res.Bool = r.IsSchedulable
		})
	case "rawcap":
		return protect(func(res *Result) {
			// no UpdateQueueHierarchy: the walk itself on the raw map
			qa := attrs(c.G.infos(), func(int) rs.ResourceShare { return rs.ResourceShare{Deserved: -1, MaxAllowed: -1} })
			job := mkJob("j", c.JQ, false)
			task := core.MkPod(core.PodSpec{Name: "p", Job: "j", Gpus: 1, Status: pod_status.Pending}, resource_info.NewResourceVectorMap())
			res.Bool = cp.New(qa).IsJobOverQueueCapacity(job, []*pod_info.PodInfo{task}).IsSchedulable
		})
	case "canrecl":
		return protect(func(res *Result) {
			qa := c.reclAttrs()
			res.Bool = rec.New(1.0).CanReclaimResources(qa, c.reclaimer())
		})
	case "recl":
		return protect(func(res *Result) {
			qa := c.reclAttrs()
			victims := map[common_info.QueueID][]*resource_info.Resource{}
			for i := 0; i < c.NRes; i++ {
				vq := common_info.QueueID(qname(c.B))
				victims[vq] = append(victims[vq], resource_info.NewResource(0, 0, 1))
			}
			res.Bool = rec.New(1.0).Reclaimable(qa, c.reclaimer(), victims)
		})
	case "order":
		return protect(func(res *Result) {
			m := c.G.infos()
			cluster_info.UpdateQueueHierarchy(m)
			jobs := map[common_info.PodGroupID]*podgroup_info.PodGroupInfo{}
			for i, q := range c.Jobs {
				j := mkJob(fmt.Sprintf("j%d", i+1), q, true)
				jobs[j.UID] = j
			}
			ssn := &framework.Session{ClusterInfo: &api.ClusterInfo{Queues: m, PodGroupInfos: jobs,
				Nodes: map[string]*node_info.NodeInfo{}}}
			jo := utils.NewJobsOrderByQueues(ssn, utils.JobsOrderInitOptions{MaxJobsQueueDepth: scheduler_util.QueueCapacityInfinite})
			jo.InitializeWithJobs(jobs)
			for n := 0; n <= len(jobs); n++ {
				if jo.IsEmpty() {
					break
				}
				if j := jo.PopNextJob(); j == nil {
					break
				}
				res.Count++
			}
		})
	case "open":
		return protect(func(res *Result) {
			ssn, jobs := c.openSession()
			if c.Msg {
				preemptor := jobs[0]
				preemptee := jobs[1]
				var victim *pod_info.PodInfo
				for _, t := range preemptee.GetAllPodsMap() {
					victim = t
				}
				_ = utils.GetMessageOfEviction(ssn, framework.Reclaim, victim, preemptor)
			}
		})
	case "sub":
		return protect(func(res *Result) { c.execSub(res) })
	case "sample":
		return protect(func(res *Result) { c.execSample(res) })
	case "cycle":
		return c.Cyc.Exec()
	}
	panic("unknown kind " + c.Kind)
}

func leftOf(m map[common_info.QueueID]*queue_info.QueueInfo) map[string][]string {
	out := map[string][]string{}
	for id, qi := range m {
		ch := []string{}
		for _, c := range qi.ChildQueues {
			ch = append(ch, string(c))
		}
		sort.Strings(ch)
		out[string(id)] = ch
	}
	return out
}

// every numeric guard of the reclaim gate passes: all queues are over their (zero) fair share
func (c *Case) reclAttrs() map[common_info.QueueID]*rs.QueueAttributes {
	m := c.G.infos()
	cluster_info.UpdateQueueHierarchy(m)
	return attrs(m, func(int) rs.ResourceShare { return rs.ResourceShare{Deserved: 0, FairShare: 0, MaxAllowed: -1, Allocated: 8} })
}

func (c *Case) reclaimer() *rec.ReclaimerInfo {
	return &rec.ReclaimerInfo{Name: "r", Namespace: "ns", Queue: common_info.QueueID(qname(c.A)), IsPreemptable: true,
		RequiredResources: resource_info.NewResource(0, 0, 1)}
}

var pluginsOnce bool

// openSession: UpdateQueueHierarchy + the proportion plugin's OnSessionOpen on the given queues, with one
// pending 1-GPU pod per job (jobs[0] and jobs[1] are the message's reclaimer / reclaimee when Msg).
func (c *Case) openSession() (*framework.Session, []*podgroup_info.PodGroupInfo) {
	if !pluginsOnce {
		plugins.InitDefaultPlugins()
		pluginsOnce = true
	}
	m := c.G.infos()
	cluster_info.UpdateQueueHierarchy(m)
	vm := resource_info.NewResourceVectorMap()
	jobs := map[common_info.PodGroupID]*podgroup_info.PodGroupInfo{}
	var list []*podgroup_info.PodGroupInfo
	for i, q := range c.Jobs {
		name := fmt.Sprintf("j%d", i+1)
		j := mkJob(name, q, true)
		st := pod_status.Pending
		if c.Msg && i == 1 {
			st = pod_status.Running
		}
		t := core.MkPod(core.PodSpec{Name: name + "-0", Job: name, Gpus: 1, Status: st}, vm)
		j.AddTaskInfo(t)
		jobs[j.UID] = j
		list = append(list, j)
	}
	cfg := &test_utils.TestSessionConfig{Plugins: []conf.Tier{{Plugins: []conf.PluginOption{{Name: "proportion"}}}}}
	ssn := test_utils.CreateFakeSession(cfg, map[string]*node_info.NodeInfo{}, jobs, m, test_utils.TestTopologyBasic{Name: "c10"},
		nil, false, nil, cache.NewK8sClusterPodAffinityInfo())
	return ssn, list
}

func (c *Case) execSub(res *Result) {
	crd := &enginev2alpha2.PodGroup{ObjectMeta: metav1.ObjectMeta{Name: "pg", Namespace: "ns", UID: "pg"},
		Spec: enginev2alpha2.PodGroupSpec{Queue: "q1", MinMember: c.MinM}}
	for _, s := range c.Sub {
		crd.Spec.SubGroups = append(crd.Spec.SubGroups, enginev2alpha2.SubGroup{Name: s.Name, MinMember: s.MinMember, Parent: s.Parent})
	}
	_, err := subgroup_info.FromPodGroup(crd)
	res.Bool = err != nil
	vm := resource_info.NewResourceVectorMap()
	job := podgroup_info.NewPodGroupInfoWithVectorMap("pg", vm)
	job.SetPodGroup(crd)
	names := []string{}
	for n := range job.PodSets {
		names = append(names, n)
	}
	sort.Strings(names)
	for _, n := range names {
		res.PodSets = append(res.PodSets, [2]string{n, strconv.FormatInt(int64(job.PodSets[n].GetMinAvailable()), 10)})
	}
	for i, sg := range c.Tasks {
		t := core.MkPod(core.PodSpec{Name: fmt.Sprintf("t%d", i), Job: "pg", SubGroup: sg, Cpu: 100, Status: pod_status.Pending}, vm)
		job.AddTaskInfo(t)
		_, ok := job.GetAllPodsMap()[t.UID]
		res.Accepted = append(res.Accepted, ok)
	}
	// the walks the actions perform over the result
	_ = job.IsStale()
	_ = job.IsGangSatisfied()
	_ = job.IsReadyForScheduling()
	_ = job.IsElastic()
	_ = job.GetSchedulingConstraintsSignature()
	_ = podgroup_info.GetTasksToAllocate(job, func(l, r interface{}) bool { return false }, func(l, r interface{}) bool { return false }, true)
	_ = job.Clone()
}

func (c *Case) execSample(res *Result) {
	vm := resource_info.NewResourceVectorMap()
	n := c.Node.K8s()
	if c.NoLab {
		n.Labels = nil
	}
	vm.AddResourceList(n.Status.Allocatable)
	ni := node_info.NewNodeInfo(n, cluster_info.NewK8sNodePodAffinityInfo(n, cache.NewK8sClusterPodAffinityInfo()), vm)
	ps := core.PodSpec{Name: "p", Job: "j", Cpu: 100, Status: pod_status.Pending}
	pod := ps.K8s()
	for k, v := range c.Ann {
		pod.Annotations[k] = v
	}
	t := pod_info.NewTaskInfo(pod, nil, vm)
	_ = t.ResReq.GetGpusQuota()
	_ = t.ResReq.GpusAsString()
	_ = t.ResReq.ToResourceList()
	_ = ni.IsTaskAllocatable(t)
	_ = ni.IsTaskAllocatableOnReleasingOrIdle(t)
	_ = ni.GetRequiredInitQuota(t)
	_, _ = ni.GetSumOfIdleGPUs()
	_ = ni.FittingError(t, false)
	t2 := t.Clone()
	t2.Status = pod_status.Running
	t2.NodeName = n.Name
	if err := ni.AddTask(t2); err == nil {
		_ = ni.RemoveTask(t2)
	}
	job := podgroup_info.NewPodGroupInfoWithVectorMap("j", vm)
	job.AddTaskInfo(t)
	_ = podgroup_info.GetTasksToAllocateInitResource(job, func(l, r interface{}) bool { return false }, func(l, r interface{}) bool { return false }, true, ni.MemoryOfEveryGpuOnNode)
	_, _ = podgroup_info.GetTasksToAllocateRequestedGPUs(job, func(l, r interface{}) bool { return false }, func(l, r interface{}) bool { return false }, true)
	_ = v1.ResourceCPU
	_ = resource.Quantity{}
}

// ---- Coq terms and labels ---------------------------------------------------------

func outcomeTerm(o string) string {
	switch o {
	case Terminated:
		return "Terminated"
	case Panicked:
		return "Panicked"
	}
	return "Hung"
}

func (c *Case) Label(res Result) string {
	head := fmt.Sprintf("%s %s ", c.Kind, c.Origin)
	tail := " => " + res.Outcome
	if res.Panic != "" {
		tail += " PANIC[" + res.Panic + "]"
	}
	switch c.Kind {
	case "hier":
		return head + c.G.String() + tail
	case "cap":
		return head + c.G.String() + fmt.Sprintf(" job-queue=%s preemptible=%v over-limit=%v over-quota=%v %s", qname(c.JQ), c.Pre, c.S1, c.S2, c.G.tags([]int{c.JQ})) + tail
	case "rawcap":
		return head + c.G.String() + fmt.Sprintf(" job-queue=%s no-UpdateQueueHierarchy", qname(c.JQ)) + tail
	case "canrecl":
		return head + c.G.String() + fmt.Sprintf(" reclaimer-queue=%s %s", qname(c.A), c.G.tags([]int{c.A})) + tail
	case "recl":
		return head + c.G.String() + fmt.Sprintf(" reclaimer-queue=%s victim-queue=%s x%d %s", qname(c.A), qname(c.B), c.NRes, c.G.tags([]int{c.A, c.B})) + tail
	case "order":
		return head + c.G.String() + fmt.Sprintf(" job-queues=%v %s", c.Jobs, c.G.tags(c.Jobs)) + tail
	case "open":
		s := head + c.G.String() + fmt.Sprintf(" pending-job-queues=%v %s", c.Jobs, c.G.tags(c.Jobs))
		if c.Msg {
			s += fmt.Sprintf(" reclaim-message(reclaimer=%s,reclaimee=%s)%s", qname(c.Jobs[0]), qname(c.Jobs[1]), c.msgTag())
		}
		return s + tail
	case "sub":
		parts := []string{}
		for _, s := range c.Sub {
			p := "nil"
			if s.Parent != nil {
				p = strconv.Quote(*s.Parent)
			}
			parts = append(parts, fmt.Sprintf("{%q parent=%s min=%d}", s.Name, p, s.MinMember))
		}
		return head + "subgroups[" + strings.Join(parts, " ") + fmt.Sprintf("] minMember=%d task-subgroups=%q", c.MinM, c.Tasks) + tail
	case "sample":
		return head + fmt.Sprintf("pod-annotations=%q node[gpus=%d cpu=%d mem=%d pods=%d gpumem=%d nolabels=%v]", c.Ann, c.Node.Gpus, c.Node.Cpu, c.Node.Mem, c.Node.Pods, c.Node.GpuMem, c.NoLab) + tail
	case "cycle":
		return head + c.Cyc.Label() + " => " + res.Outcome + " " + res.Calls + func() string {
			if res.Panic != "" {
				return " PANIC[" + res.Panic + "]"
			}
			return ""
		}()
	}
	return head + tail
}

// msgTag: the reclaimer or the reclaimee queue is a top-level leaf while the other one is nested
func (c *Case) msgTag() string {
	pa, oka := c.G.cleaned().parent(c.Jobs[0])
	pb, okb := c.G.cleaned().parent(c.Jobs[1])
	if oka && okb && pa != pb && (pa == 0 || pb == 0) {
		return " top-level-leaf-reclaim"
	}
	return ""
}

func (c *Case) Term(res Result) string {
	o := outcomeTerm(res.Outcome)
	switch c.Kind {
	case "hier":
		ids := []int{}
		for k := range res.Left {
			ids = append(ids, idOf(common_info.QueueID(k)))
		}
		sort.Ints(ids)
		left := u.ListOf(ids, func(id int) string {
			ch := []int{}
			for _, s := range res.Left[qname(id)] {
				ch = append(ch, idOf(common_info.QueueID(s)))
			}
			sort.Ints(ch)
			return u.Pair(u.Pos(id), posList(ch))
		})
		return u.App("KHier", c.G.Term(), o, left)
	case "cap":
		return u.App("KCap", c.G.Term(), posList(c.S1), posList(c.S2), u.Pos(c.JQ), u.Bool(c.Pre), o, u.Bool(res.Bool))
	case "rawcap":
		return u.App("KRawCap", c.G.Term(), u.Pos(c.JQ), o, u.Bool(res.Bool))
	case "canrecl":
		return u.App("KCanRecl", c.G.Term(), u.Pos(c.A), o)
	case "recl":
		return u.App("KRecl", c.G.Term(), u.Pos(c.A), u.Pos(c.B), u.Nat(c.NRes), o, u.Bool(res.Bool))
	case "order":
		return u.App("KOrder", c.G.Term(), posList(c.Jobs), o, u.Nat(res.Count))
	case "open":
		msg := "None"
		if c.Msg {
			msg = u.Opt(true, u.Pair(u.Pos(c.Jobs[0]), u.Pos(c.Jobs[1])))
		}
		return u.App("KOpen", c.G.Term(), posList(c.Jobs), msg, o)
	case "sub":
		sgs := u.ListOf(c.Sub, func(s SubGroupSpec) string {
			p := "None"
			if s.Parent != nil {
				p = u.Opt(true, u.Str(*s.Parent))
			}
			return fmt.Sprintf("{| sg_name := %s; sg_parent := %s; sg_min := %s |}", u.Str(s.Name), p, u.Z(int64(s.MinMember)))
		})
		ps := u.ListOf(res.PodSets, func(p [2]string) string {
			v, _ := strconv.ParseInt(p[1], 10, 64)
			return u.Pair(u.Str(p[0]), u.Z(v))
		})
		return u.App("KSub", sgs, u.Z(int64(c.MinM)), u.ListOf(c.Tasks, u.Str), o, u.Bool(res.Bool), ps, u.ListOf(res.Accepted, u.Bool))
	case "sample":
		return u.App("KSample", o)
	case "cycle":
		return c.Cyc.Term(res)
	}
	panic("kind")
}
