// Package c10 drives the scheduler's graph-walking code on malformed API state
// (property C10: a scheduling cycle completes on any API state).
//
// T2: exported functions that walk API-provided graphs, each call under a
// watchdog: cluster_info.UpdateQueueHierarchy, capacity_policy (job over queue
// capacity), reclaimable (CanReclaimResources / Reclaimable), JobsOrderByQueues,
// the proportion plugin's OnSessionOpen + GetMessageOfEviction, subgroup_info.
// FromPodGroup + PodGroupInfo.SetPodGroup / AddTaskInfo, pod_info.NewTaskInfo and
// node_info.NewNodeInfo on hostile annotations / nodes.
// T3: whole cycles (session open + all actions) on generated clusters with
// malformed objects next to a healthy part (t3.go).
// Every case runs in a child process (worker.go); observables are
// terminated / panicked / hung plus a result projection, emitted as Coq cases for
// Run/C10.v.
package c10

import (
	"fmt"
	"math"
	"os"
	"strings"
	"time"

	"kaiverif/internal/core"
	u "kaiverif/internal/util"
)

type Plan struct {
	seed  uint64
	tier  string
	n     int
	cases []*Case
}

func (p *Plan) Len() int                    { return len(p.cases) }
func (p *Plan) Case(i int) *Case             { return p.cases[i] }
func (p *Plan) Timeout(i int) time.Duration  { return p.cases[i].Timeout() }

// NewPlan lays out the run: fixed corpus, then n generated T2 cases, then n/12 whole cycles.
// It is a pure function of (seed, tier, n): parent and children build the same plan.
func NewPlan(seed uint64, tier string, n int) *Plan {
	p := &Plan{seed: seed, tier: tier, n: n}
	for _, c := range corpus() {
		c.Origin = "corpus"
		p.cases = append(p.cases, c)
	}
	for _, cc := range cycleCorpus() {
		p.cases = append(p.cases, &Case{Kind: "cycle", Origin: "corpus", Cyc: cc})
	}
	root := u.NewRng(seed)
	for i := 0; i < n; i++ {
		r := root.Fork(uint64(i))
		malformed := i%3 != 0
		c := genT2(r, malformed)
		c.Origin = "structured"
		if malformed {
			c.Origin = "malformed"
		}
		p.cases = append(p.cases, c)
	}
	nc := n / 12
	if nc < 16 {
		nc = 16
	}
	for i := 0; i < nc; i++ {
		r := root.Fork(uint64(5000000 + i))
		sc := i % 8
		cc := genCycle(r, sc)
		origin := "malformed"
		if sc == 0 {
			origin = "structured"
		}
		p.cases = append(p.cases, &Case{Kind: "cycle", Origin: origin, Cyc: cc})
	}
	// debugging aid: C10_KINDS=sub,cycle restricts the plan (inherited by the children)
	if only := os.Getenv("C10_KINDS"); only != "" {
		var keep []*Case
		for _, c := range p.cases {
			if strings.Contains(","+only+",", ","+c.Kind+",") {
				keep = append(keep, c)
			}
		}
		p.cases = keep
	}
	return p
}

var subNames = []string{"a", "b", "c", "d", "A", "B", "", "default", "é"}

func genSub(r *u.Rng, malformed bool) *Case {
	c := &Case{Kind: "sub"}
	n := r.Range(0, 5)
	mins := []int{1, 1, 2, 3}
	if malformed {
		mins = []int{1, 2, 0, -1, -5, math.MaxInt32, math.MinInt32}
	}
	c.MinM = int32(u.Pick(r, mins))
	pool := []string{"a", "b", "c", "d", "e"}
	if malformed {
		pool = subNames
	}
	for i := 0; i < n; i++ {
		s := SubGroupSpec{Name: pool[i%len(pool)], MinMember: int32(u.Pick(r, mins))}
		if malformed && r.Chance(1, 4) {
			s.Name = u.Pick(r, pool) // duplicates
		}
		if i > 0 && r.Chance(1, 2) { // parent: an earlier sub-group (a tree)
			s.Parent = str(c.Sub[r.Intn(i)].Name)
		}
		if malformed && r.Chance(1, 3) {
			s.Parent = str(u.Pick(r, append([]string{"zz", "ZZ"}, pool...))) // missing, cyclic, self, case-mangled
		}
		c.Sub = append(c.Sub, s)
	}
	for i, m := 0, r.Range(0, 4); i < m; i++ {
		if len(c.Sub) > 0 && !r.Chance(1, 4) {
			c.Tasks = append(c.Tasks, c.Sub[r.Intn(len(c.Sub))].Name)
		} else {
			c.Tasks = append(c.Tasks, u.Pick(r, []string{"", "nope", "default", "a"}))
		}
	}
	return c
}

func genSample(r *u.Rng, malformed bool) *Case {
	c := &Case{Kind: "sample", Ann: map[string]string{}}
	c.Node = core.NodeSpec{Name: "n1", Cpu: 4000, Mem: 8 << 30, Gpus: int64(r.Range(0, 4)), Pods: 110, GpuMem: int64(u.Pick(r, []int{0, 0, 100, 40000}))}
	if malformed {
		for k, v := range u.Pick(r, hostileAnn) {
			c.Ann[k] = v
		}
		if r.Chance(1, 3) {
			for k, v := range u.Pick(r, hostileAnn) {
				c.Ann[k] = v
			}
		}
		switch r.Intn(5) {
		case 0:
			c.Node = core.NodeSpec{Name: "n1"} // nothing allocatable
		case 1:
			c.Node.Cpu, c.Node.Mem, c.Node.Pods = 0, 0, 0
		case 2:
			c.Node.Labels = map[string]string{"nvidia.com/gpu.memory": u.Pick(r, []string{"abc", "-1", "0", "99999999999999999999", ""}),
				"nvidia.com/gpu.count": u.Pick(r, []string{"x", "-2", "0", "1000000"})}
		case 3:
			c.NoLab = true
		}
	} else {
		switch r.Intn(3) {
		case 0:
			c.Ann["gpu-fraction"] = u.Pick(r, []string{"0.5", "0.25"})
		case 1:
			c.Ann["gpu-memory"] = "50"
		}
	}
	return c
}

func genT2(r *u.Rng, malformed bool) *Case {
	kind := r.Intn(20)
	switch {
	case kind < 3:
		return genSub(r, malformed)
	case kind < 5:
		return genSample(r, malformed)
	}
	g := genGraph(r, malformed)
	switch {
	case kind < 8:
		return &Case{Kind: "hier", G: g}
	case kind < 11:
		c := &Case{Kind: "cap", G: g, JQ: pickQueue(r, g, malformed), Pre: r.Bool()}
		for _, q := range g {
			if r.Chance(1, 6) {
				c.S1 = append(c.S1, q.ID)
			}
			if r.Chance(1, 6) {
				c.S2 = append(c.S2, q.ID)
			}
		}
		return c
	case kind < 12:
		return &Case{Kind: "canrecl", G: g, A: pickQueue(r, g, malformed)}
	case kind < 14:
		return &Case{Kind: "recl", G: g, A: pickQueue(r, g, malformed), B: pickQueue(r, g, malformed), NRes: r.Range(1, 3)}
	case kind < 16:
		c := &Case{Kind: "order", G: g}
		for i, n := 0, r.Range(1, 4); i < n; i++ {
			c.Jobs = append(c.Jobs, pickQueue(r, g, malformed))
		}
		return c
	default:
		c := &Case{Kind: "open", G: g}
		for i, n := 0, r.Range(2, 4); i < n; i++ {
			c.Jobs = append(c.Jobs, pickQueue(r, g, malformed))
		}
		c.Msg = r.Chance(1, 2)
		return c
	}
}

// corpus: boundary inputs and the model's refutation witnesses, always run first.
func corpus() []*Case {
	self := Graph{{1, 1}}
	two := Graph{{1, 2}, {2, 1}}
	three := Graph{{1, 2}, {2, 3}, {3, 1}, {4, 1}}
	orphan := Graph{{1, 0}, {2, 90}, {3, 2}, {4, 3}}
	mixed := Graph{{1, 0}, {2, 0}, {3, 2}} // q1: top-level leaf; q3: nested leaf under q2
	flat := Graph{{1, 0}, {2, 0}}
	tree := Graph{{1, 0}, {2, 1}, {3, 1}, {4, 2}}
	var out []*Case
	for _, g := range []Graph{self, two, three, orphan, mixed, flat, tree} {
		out = append(out, &Case{Kind: "hier", G: g})
	}
	for _, w := range []struct {
		g Graph
		q int
	}{{self, 1}, {two, 1}, {three, 4}, {orphan, 4}, {orphan, 80}, {tree, 4}} {
		out = append(out, &Case{Kind: "cap", G: w.g, JQ: w.q, Pre: false})
		out = append(out, &Case{Kind: "cap", G: w.g, JQ: w.q, Pre: true, S1: []int{1}})
		out = append(out, &Case{Kind: "canrecl", G: w.g, A: w.q})
		out = append(out, &Case{Kind: "recl", G: w.g, A: w.q, B: w.q, NRes: 1})
		out = append(out, &Case{Kind: "order", G: w.g, Jobs: []int{w.q}})
		out = append(out, &Case{Kind: "open", G: w.g, Jobs: []int{w.q, w.q}})
	}
	// the loops themselves on raw maps (no UpdateQueueHierarchy): witnesses of C10_walks_total_without_hierarchy_refuted
	out = append(out, &Case{Kind: "rawcap", G: self, JQ: 1}, &Case{Kind: "rawcap", G: two, JQ: 1}, &Case{Kind: "rawcap", G: tree, JQ: 4})
	out = append(out, &Case{Kind: "recl", G: tree, A: 4, B: 3, NRes: 2})
	out = append(out, &Case{Kind: "recl", G: tree, A: 4, B: 80, NRes: 1})
	out = append(out, &Case{Kind: "recl", G: three, A: 80, B: 4, NRes: 1})
	// reclaim message: top-level leaf vs nested leaf (both directions), siblings, both top-level
	out = append(out, &Case{Kind: "open", G: mixed, Jobs: []int{1, 3}, Msg: true})
	out = append(out, &Case{Kind: "open", G: mixed, Jobs: []int{3, 1}, Msg: true})
	out = append(out, &Case{Kind: "open", G: flat, Jobs: []int{1, 2}, Msg: true})
	out = append(out, &Case{Kind: "open", G: tree, Jobs: []int{4, 3}, Msg: true})
	out = append(out, &Case{Kind: "open", G: tree, Jobs: []int{3, 3}, Msg: true})
	// sub-groups
	sg := func(minm int32, tasks []string, s ...SubGroupSpec) *Case {
		return &Case{Kind: "sub", Sub: s, MinM: minm, Tasks: tasks}
	}
	out = append(out,
		sg(1, []string{"", "a"}),
		sg(0, []string{""}),
		sg(-3, []string{""}),
		sg(2, []string{"a", "b", "c"}, SubGroupSpec{Name: "a", MinMember: 1}, SubGroupSpec{Name: "b", MinMember: 0}),
		sg(2, []string{"a"}, SubGroupSpec{Name: "a", MinMember: 1}, SubGroupSpec{Name: "a", MinMember: 2}),
		sg(2, []string{"a", "b"}, SubGroupSpec{Name: "a", Parent: str("b"), MinMember: 1}, SubGroupSpec{Name: "b", Parent: str("a"), MinMember: 1}),
		sg(2, []string{"a"}, SubGroupSpec{Name: "a", Parent: str("a"), MinMember: 1}),
		sg(2, []string{"a", "c"}, SubGroupSpec{Name: "a", Parent: str("b"), MinMember: 1}, SubGroupSpec{Name: "b", Parent: str("a"), MinMember: 1}, SubGroupSpec{Name: "c", MinMember: -1}),
		sg(2, []string{"a"}, SubGroupSpec{Name: "a", Parent: str("zz"), MinMember: 1}),
		sg(2, []string{"b"}, SubGroupSpec{Name: "A", MinMember: 1}, SubGroupSpec{Name: "b", Parent: str("A"), MinMember: 1}),
		sg(2, []string{"b"}, SubGroupSpec{Name: "a", MinMember: 1}, SubGroupSpec{Name: "b", Parent: str("A"), MinMember: 1}),
		sg(2, []string{"", "b"}, SubGroupSpec{Name: "", MinMember: 1}, SubGroupSpec{Name: "b", MinMember: 1}),
		sg(2, []string{"", "b"}, SubGroupSpec{Name: "", Parent: str("b"), MinMember: 1}, SubGroupSpec{Name: "b", Parent: str("c"), MinMember: 1}, SubGroupSpec{Name: "c", Parent: str("b"), MinMember: 1}),
		sg(2, []string{"c"}, SubGroupSpec{Name: "a", MinMember: 1}, SubGroupSpec{Name: "b", Parent: str("a"), MinMember: 1}, SubGroupSpec{Name: "c", Parent: str("b"), MinMember: math.MaxInt32}),
	)
	for _, a := range hostileAnn {
		out = append(out, &Case{Kind: "sample", Ann: a, Node: core.NodeSpec{Name: "n1", Cpu: 4000, Mem: 8 << 30, Gpus: 2, Pods: 110}})
		out = append(out, &Case{Kind: "sample", Ann: a, Node: core.NodeSpec{Name: "n1"}, NoLab: true})
	}
	return out
}

// Run executes the plan and writes the Coq cases.
func Run(dir string, seed uint64, n int, tier string) error {
	plan := NewPlan(seed, tier, n)
	results := RunAll(plan, seed, tier, n, 8)
	out := u.NewOut(dir, "C10", "KaiV.Run.C10", "case", 100)
	for i, c := range plan.cases {
		res := results[i]
		if res.Outcome == "" {
			return fmt.Errorf("case %d was not executed", i)
		}
		label := c.Label(res)
		out.Add(c.Term(res), label)
		out.Count("kind:" + c.Kind)
		out.Count("origin:" + c.Origin)
		out.Count("outcome:" + res.Outcome)
		out.Count("outcome-" + c.Kind + ":" + res.Outcome)
		if c.Kind == "cycle" {
			out.Count("cycle-scenario:" + c.Cyc.Scenario)
			if res.Baseline != res.Baseline2 {
				out.Count("cycle-baseline-nondeterministic")
			}
			if res.Calls != "" {
				out.Count("cycle-with-decisions")
			}
		}
		// non-trivial: the input is malformed in some way, or the code walked at least one link / built a tree
		if c.Origin != "structured" || c.Kind == "cycle" {
			out.NonTrivial(label)
		}
		if c.Origin != "corpus" {
			out.Sample(map[string]any{"input": label})
		}
	}
	out.Stats["rule"] = "fixed corpus (the model's refutation witnesses: self-parent, 2-cycle, leaf under a 3-cycle, missing parent, top-level leaf in the reclaim message; sub-group lists with duplicates / cycles / missing parents / non-positive minimums; hostile GPU annotations on empty label-less nodes) then one splitmix64 stream: 1/3 structured (forests, valid sub-group trees), 2/3 malformed (1-2 injected defects per queue graph: self-parent, 2- and 3-cycles, missing parents, adopted roots, leaves at different depths, jobs in missing queues); T2 kinds hier/cap/canrecl/recl/order/open(+reclaim message)/sub/sample, T3 whole cycles in 8 scenarios. Non-trivial = malformed or corpus input, or any whole cycle; distinct by label."
	out.Stats["watchdog"] = "every case in a child process; 3 s per function-level case, 15 s per whole cycle; hang = killed by the parent, panic = recovered (or the child died)"
	return out.Flush()
}
