package c10

import (
	"bufio"
	"encoding/json"
	"fmt"
	"io"
	"os"
	"os/exec"
	"runtime/debug"
	"strconv"
	"strings"
	"sync"
	"time"
)

// Every case is executed in a child process (this binary re-executed with
// -single): a hang of the real code leaks a spinning goroutine that cannot be
// stopped from inside the process, so the watchdog kills the process instead.
//
// Protocol (child stdout, line oriented; anything else is ignored):
//   @START <i>            the child begins case i
//   @RES <i> <json>       case i finished: Result as JSON
// The parent applies a per-case deadline from @START; on expiry the child is
// killed, case i is recorded as hung and a new child continues with i+1. A
// child that dies without @RES (fatal error such as a stack overflow, which
// recover cannot catch) is recorded as a panic.

const (
	Terminated = "terminated"
	Panicked   = "panicked"
	Hung       = "hung"
)

// Result is what the child reports for one case.
type Result struct {
	Outcome string `json:"outcome"`
	Panic   string `json:"panic,omitempty"` // first lines of the panic value + stack
	// kind specific observations
	Left      map[string][]string `json:"left,omitempty"`     // hier: surviving queue -> sorted ChildQueues
	Bool      bool                `json:"bool,omitempty"`     // cap: schedulable; recl: verdict; sub: fallback
	Count     int                 `json:"count,omitempty"`    // order: popped jobs
	PodSets   [][2]string         `json:"podsets,omitempty"`  // sub: (name, minAvailable)
	Accepted  []bool              `json:"accepted,omitempty"` // sub: task indexed by the job
	Healthy   string              `json:"healthy,omitempty"`  // cycle: bound pods of healthy jobs, canonical
	Baseline  string              `json:"baseline,omitempty"` // cycle: same for the run without malformed objects
	Baseline2 string              `json:"baseline2,omitempty"`
	Calls     string              `json:"calls,omitempty"`
}

// protect runs f and converts a panic into a Result.
func protect(f func(res *Result)) (res Result) {
	res.Outcome = Terminated
	defer func() {
		if r := recover(); r != nil {
			res = Result{Outcome: Panicked, Panic: trimPanic(fmt.Sprintf("%v", r), string(debug.Stack()))}
		}
	}()
	f(&res)
	return res
}

func trimPanic(val, stack string) string {
	// keep the frames of the scheduler (the first few after the panic)
	var keep []string
	for _, ln := range strings.Split(stack, "\n") {
		if strings.Contains(ln, "KAI-scheduler/pkg") && !strings.HasPrefix(ln, "\t") {
			fn := ln
			if i := strings.LastIndex(fn, "/"); i >= 0 {
				fn = fn[i+1:]
			}
			if j := strings.Index(fn, "("); j > 0 && !strings.HasPrefix(fn, "(") {
				// keep method receivers: pkg.(*T).M(...)
			}
			keep = append(keep, strings.TrimSpace(fn))
			if len(keep) >= 4 {
				break
			}
		}
	}
	return val + " @ " + strings.Join(keep, " <- ")
}

// Single is the child entry point: run cases [from,to) of the run (seed, tier, n).
func Single(seed uint64, tier string, n, from, to int) {
	quiet()
	plan := NewPlan(seed, tier, n)
	w := bufio.NewWriter(os.Stdout)
	for i := from; i < to && i < plan.Len(); i++ {
		fmt.Fprintf(w, "@START %d\n", i)
		w.Flush()
		c := plan.Case(i)
		res := c.Exec()
		data, _ := json.Marshal(res)
		fmt.Fprintf(w, "@RES %d %s\n", i, data)
		w.Flush()
	}
}

type line struct {
	text string
	err  error
}

// runRange executes cases [from,to) in child processes and stores the results.
func runRange(exe string, plan *Plan, seed uint64, tier string, n, from, to int, out []Result, mu *sync.Mutex) {
	next := from
	for next < to {
		cmd := exec.Command(exe, "-single", "-seed", strconv.FormatUint(seed, 10), "-tier", tier, "-n", strconv.Itoa(n),
			"-from", strconv.Itoa(next), "-to", strconv.Itoa(to))
		stdout, err := cmd.StdoutPipe()
		if err != nil {
			panic(err)
		}
		var errbuf tailBuf
		cmd.Stderr = &errbuf
		if err := cmd.Start(); err != nil {
			panic(err)
		}
		lines := make(chan line, 64)
		go func() {
			rd := bufio.NewReaderSize(stdout, 1<<20)
			for {
				s, err := rd.ReadString('\n')
				if s != "" {
					lines <- line{text: strings.TrimRight(s, "\n")}
				}
				if err != nil {
					lines <- line{err: err}
					return
				}
			}
		}()
		current := -1
		var deadline <-chan time.Time
		startup := time.After(120 * time.Second)
		done := false
		for !done {
			select {
			case ln := <-lines:
				if ln.err != nil {
					// child ended
					_ = cmd.Wait()
					if current >= 0 {
						mu.Lock()
						out[current] = Result{Outcome: Panicked, Panic: "child process died: " + errbuf.String()}
						mu.Unlock()
						next = current + 1
					} else if next < to {
						// died between cases or before the first one: if nothing progressed, give up on this case
						if ln.err != io.EOF || true {
							// the loop below restarts from next; guard against a crash loop
							mu.Lock()
							if out[next].Outcome == "" {
								out[next] = Result{Outcome: Panicked, Panic: "child process died before the case started: " + errbuf.String()}
							}
							mu.Unlock()
							next++
						}
					}
					done = true
					continue
				}
				if strings.HasPrefix(ln.text, "@START ") {
					i, _ := strconv.Atoi(strings.TrimPrefix(ln.text, "@START "))
					current = i
					deadline = time.After(plan.Timeout(i))
				} else if strings.HasPrefix(ln.text, "@RES ") {
					rest := strings.TrimPrefix(ln.text, "@RES ")
					sp := strings.IndexByte(rest, ' ')
					i, _ := strconv.Atoi(rest[:sp])
					var r Result
					if err := json.Unmarshal([]byte(rest[sp+1:]), &r); err != nil {
						r = Result{Outcome: Panicked, Panic: "unreadable result: " + err.Error()}
					}
					mu.Lock()
					out[i] = r
					mu.Unlock()
					current = -1
					deadline = nil
					next = i + 1
					if next >= to {
						// the child exits by itself
					}
				}
			case <-deadline:
				_ = cmd.Process.Kill()
				_ = cmd.Wait()
				mu.Lock()
				out[current] = Result{Outcome: Hung}
				mu.Unlock()
				next = current + 1
				done = true
			case <-startup:
				if current < 0 && next == from {
					_ = cmd.Process.Kill()
					_ = cmd.Wait()
					panic("child process did not start any case within 120 s: " + errbuf.String())
				}
				startup = nil
			}
		}
	}
}

// RunAll executes every case of the plan with [workers] child processes at a time.
func RunAll(plan *Plan, seed uint64, tier string, n, workers int) []Result {
	exe, err := os.Executable()
	if err != nil {
		panic(err)
	}
	total := plan.Len()
	out := make([]Result, total)
	var mu sync.Mutex
	const chunk = 20
	type rng struct{ lo, hi int }
	work := make(chan rng, total/chunk+2)
	for lo := 0; lo < total; lo += chunk {
		hi := lo + chunk
		if hi > total {
			hi = total
		}
		work <- rng{lo, hi}
	}
	close(work)
	var wg sync.WaitGroup
	for w := 0; w < workers; w++ {
		wg.Add(1)
		go func() {
			defer wg.Done()
			for r := range work {
				runRange(exe, plan, seed, tier, n, r.lo, r.hi, out, &mu)
			}
		}()
	}
	wg.Wait()
	return out
}

// tailBuf keeps the last few KiB written to it.
type tailBuf struct {
	mu  sync.Mutex
	buf []byte
}

func (t *tailBuf) Write(p []byte) (int, error) {
	t.mu.Lock()
	defer t.mu.Unlock()
	t.buf = append(t.buf, p...)
	if len(t.buf) > 4096 {
		t.buf = t.buf[len(t.buf)-4096:]
	}
	return len(p), nil
}

func (t *tailBuf) String() string {
	t.mu.Lock()
	defer t.mu.Unlock()
	s := string(t.buf)
	if len(s) > 600 {
		s = s[len(s)-600:]
	}
	return s
}
