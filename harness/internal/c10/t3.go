package c10

import (
	"fmt"
	"sort"
	"strings"
	"time"

	"go.uber.org/mock/gomock"
	v1 "k8s.io/api/core/v1"
	metav1 "k8s.io/apimachinery/pkg/apis/meta/v1"
	"k8s.io/apimachinery/pkg/types"

	enginev2 "github.com/NVIDIA/KAI-scheduler/pkg/apis/scheduling/v2"
	enginev2alpha2 "github.com/NVIDIA/KAI-scheduler/pkg/apis/scheduling/v2alpha2"
	pg "github.com/NVIDIA/KAI-scheduler/pkg/common/podgroup"
	"github.com/NVIDIA/KAI-scheduler/pkg/scheduler/actions"
	"github.com/NVIDIA/KAI-scheduler/pkg/scheduler/api/common_info"
	"github.com/NVIDIA/KAI-scheduler/pkg/scheduler/api/eviction_info"
	"github.com/NVIDIA/KAI-scheduler/pkg/scheduler/api/node_info"
	"github.com/NVIDIA/KAI-scheduler/pkg/scheduler/api/pod_info"
	"github.com/NVIDIA/KAI-scheduler/pkg/scheduler/api/pod_status"
	"github.com/NVIDIA/KAI-scheduler/pkg/scheduler/api/podgroup_info"
	"github.com/NVIDIA/KAI-scheduler/pkg/scheduler/api/queue_info"
	"github.com/NVIDIA/KAI-scheduler/pkg/scheduler/api/resource_info"
	"github.com/NVIDIA/KAI-scheduler/pkg/scheduler/cache"
	"github.com/NVIDIA/KAI-scheduler/pkg/scheduler/cache/cluster_info"
	"github.com/NVIDIA/KAI-scheduler/pkg/scheduler/framework"
	"github.com/NVIDIA/KAI-scheduler/pkg/scheduler/plugins"
	"github.com/NVIDIA/KAI-scheduler/pkg/scheduler/test_utils"

	"kaiverif/internal/core"
	"kaiverif/internal/cycle"
	u "kaiverif/internal/util"
)

// Whole cycles on malformed clusters. The healthy part is a cluster drawn by
// cycle.Gen (queues q1..q3 under the department q9); malformed objects are added
// next to it. The session is assembled like cycle.Build does (real NodeInfo /
// PodInfo / PodGroupInfo / QueueInfo constructors, UpdateQueueHierarchy, default
// plugin tiers opened by test_utils.CreateFakeSession, recording cache), except
// that the queue map is ours.

const deptID = 9

type HQ struct {
	ID, Parent      int
	Deserved, Limit float64 // GPUs; Limit 0 = unlimited (as in test_utils)
	OverQuota       float64
}

// HostileJob is a pod group that is attached to a malformed object or is malformed itself.
type HostileJob struct {
	Job    cycle.Job
	Queue  int
	Sub    []SubGroupSpec               // raw sub-group specs (parents, duplicates) replacing Job.SubGroups
	PodAnn map[string]map[string]string // pod name -> annotations added verbatim
}

type CycleCase struct {
	Scenario string
	Base     cycle.Cluster
	Extra    []HQ          // queue objects next to q9 <- q1..q3
	Hostile  []HostileJob  // jobs present only in the malformed run
	Nodes    []core.NodeSpec
	NoLabel  map[string]bool // extra nodes stripped of every label
	Compare  bool            // the healthy jobs' binds must equal the baseline's
	Expect   string          // corpus: the healthy binds that must be issued ("" = no absolute expectation)
}

func (c *CycleCase) graph(withHostile bool) Graph {
	g := Graph{{deptID, 0}}
	for i := range c.Base.Queues {
		g = append(g, GQ{i + 1, deptID})
	}
	if withHostile {
		for _, q := range c.Extra {
			g = append(g, GQ{q.ID, q.Parent})
		}
	}
	return g
}

type recorder struct {
	cache.Cache
	calls []cycle.Call
}

func (r *recorder) Bind(p *pod_info.PodInfo, hostname string, ann map[string]string) error {
	r.calls = append(r.calls, cycle.Call{Kind: "bind", Pod: p.Name, Node: hostname})
	return nil
}
func (r *recorder) Evict(pod *v1.Pod, job *podgroup_info.PodGroupInfo, md eviction_info.EvictionMetadata, msg string) error {
	r.calls = append(r.calls, cycle.Call{Kind: "evict", Pod: pod.Name, Action: md.Action})
	return nil
}
func (r *recorder) TaskPipelined(t *pod_info.PodInfo, msg string) {
	r.calls = append(r.calls, cycle.Call{Kind: "pipe", Pod: t.Name, Node: t.NodeName})
}

type reporter struct{ msgs []string }

func (r *reporter) Errorf(format string, args ...any) { r.msgs = append(r.msgs, fmt.Sprintf(format, args...)) }
func (r *reporter) Fatalf(format string, args ...any) { r.msgs = append(r.msgs, fmt.Sprintf(format, args...)) }

var actionsOnce bool

func queueObj(id, parent int, deserved, limit, oqw float64, idx int) *enginev2.Queue {
	if limit == 0 {
		limit = -1
	}
	prio := 100
	return &enginev2.Queue{
		ObjectMeta: metav1.ObjectMeta{Name: qname(id), UID: types.UID(qname(id)),
			CreationTimestamp: metav1.Time{Time: time.Unix(1700000000+int64(idx)*60, 0)}},
		Spec: enginev2.QueueSpec{DisplayName: qname(id), ParentQueue: qname(parent), Priority: &prio,
			Resources: &enginev2.QueueResources{
				GPU:    enginev2.QueueResource{Quota: deserved, Limit: limit, OverQuotaWeight: oqw},
				CPU:    enginev2.QueueResource{Quota: -1, Limit: -1, OverQuotaWeight: 1},
				Memory: enginev2.QueueResource{Quota: -1, Limit: -1, OverQuotaWeight: 1},
			}},
	}
}

// run opens a session on the cluster (with or without the malformed objects) and executes the actions.
func (c *CycleCase) run(withHostile bool) (calls []cycle.Call) {
	if !actionsOnce {
		actions.InitDefaultActions()
		plugins.InitDefaultPlugins()
		actionsOnce = true
	}
	vm := resource_info.NewResourceVectorMap()
	cpai := cache.NewK8sClusterPodAffinityInfo()
	nodes := map[string]*node_info.NodeInfo{}
	specs := append([]core.NodeSpec{}, c.Base.Nodes...)
	if withHostile {
		specs = append(specs, c.Nodes...)
	}
	k8sNodes := map[string]*v1.Node{}
	for _, ns := range specs {
		n := ns.K8s()
		if withHostile && c.NoLabel[ns.Name] {
			n.Labels = nil
		}
		k8sNodes[ns.Name] = n
		vm.AddResourceList(n.Status.Allocatable)
	}
	for _, ns := range specs {
		n := k8sNodes[ns.Name]
		nodes[ns.Name] = node_info.NewNodeInfo(n, cluster_info.NewK8sNodePodAffinityInfo(n, cpai), vm)
	}
	now := time.Now()
	jobs := map[common_info.PodGroupID]*podgroup_info.PodGroupInfo{}
	tasks := map[string]*pod_info.PodInfo{}
	addJob := func(j cycle.Job, queue string, sub []SubGroupSpec, ann map[string]map[string]string) {
		uid := common_info.PodGroupID(j.Name)
		job := podgroup_info.NewPodGroupInfoWithVectorMap(uid, vm)
		crd := &enginev2alpha2.PodGroup{
			ObjectMeta: metav1.ObjectMeta{Name: j.Name, Namespace: "ns", UID: types.UID(j.Name),
				CreationTimestamp: metav1.Time{Time: now.Add(-time.Duration(j.AgeMinutes) * time.Minute)}},
			Spec: enginev2alpha2.PodGroupSpec{Queue: queue, MinMember: j.MinMember},
		}
		for _, sg := range j.SubGroups {
			crd.Spec.SubGroups = append(crd.Spec.SubGroups, enginev2alpha2.SubGroup{Name: sg.Name, MinMember: sg.MinMember})
		}
		for _, sg := range sub {
			crd.Spec.SubGroups = append(crd.Spec.SubGroups, enginev2alpha2.SubGroup{Name: sg.Name, MinMember: sg.MinMember, Parent: sg.Parent})
		}
		job.SetPodGroup(crd)
		job.Priority = j.Priority
		job.Preemptibility = pg.CalculatePreemptibility("", j.Priority)
		running := false
		for _, ps := range j.Pods {
			ps.Job = j.Name
			pod := ps.K8s()
			for k, v := range ann[ps.Name] {
				pod.Annotations[k] = v
			}
			t := pod_info.NewTaskInfo(pod, nil, vm)
			t.Status = ps.Status
			t.NodeName = ps.Node
			t.GPUGroups = append([]string{}, ps.Groups...)
			tasks[ps.Name] = t
			job.AddTaskInfo(t)
			if pod_status.AllocatedStatus(t.Status) {
				running = true
			}
		}
		if running {
			st := now.Add(-time.Duration(j.StartedMins) * time.Minute)
			job.LastStartTimestamp = &st
		}
		jobs[uid] = job
	}
	for _, j := range c.Base.Jobs {
		addJob(j, j.Queue, nil, nil)
	}
	if withHostile {
		for _, h := range c.Hostile {
			addJob(h.Job, qname(h.Queue), h.Sub, h.PodAnn)
		}
	}
	names := make([]string, 0, len(tasks))
	for n := range tasks {
		names = append(names, n)
	}
	sort.Strings(names)
	for _, n := range names {
		t := tasks[n]
		if pod_status.IsActiveUsedStatus(t.Status) && t.NodeName != "" {
			if ni, ok := nodes[t.NodeName]; ok {
				_ = ni.AddTask(t)
			}
		}
	}
	queues := map[common_info.QueueID]*queue_info.QueueInfo{}
	put := func(q *enginev2.Queue) {
		qi := queue_info.NewQueueInfo(q)
		queues[qi.UID] = qi
	}
	put(queueObj(deptID, 0, -1, 0, -1, 0))
	for i, q := range c.Base.Queues {
		o := queueObj(i+1, deptID, q.Deserved, q.Limit, q.OverQuota, i+1)
		o.Spec.Priority = &q.Priority
		put(o)
	}
	if withHostile {
		for i, q := range c.Extra {
			put(queueObj(q.ID, q.Parent, q.Deserved, q.Limit, q.OverQuota, 10+i))
		}
	}
	cluster_info.UpdateQueueHierarchy(queues)
	meta := test_utils.TestTopologyBasic{Name: "c10", DisableDefaultDepartment: true,
		Mocks: &test_utils.TestMock{CacheRequirements: &test_utils.CacheMocking{NumberOfCacheBinds: 1 << 20, NumberOfCacheEvictions: 1 << 20, NumberOfPipelineActions: 1 << 20}}}
	rep := &reporter{}
	ctrl := gomock.NewController(rep)
	cfg := &test_utils.TestSessionConfig{Plugins: test_utils.BuildPlugins(meta), CachePlugins: map[string]bool{"predicates": true}}
	ssn := test_utils.CreateFakeSession(cfg, nodes, jobs, queues, meta, ctrl, true, nil, cpai)
	rc := &recorder{Cache: ssn.Cache}
	ssn.Cache = rc
	for _, a := range c.Base.Actions {
		act, ok := framework.GetAction(a)
		if !ok {
			panic("unknown action " + a)
		}
		act.Execute(ssn)
	}
	return rc.calls
}

// healthy: bound pods per healthy job, canonical
func (c *CycleCase) healthy(calls []cycle.Call) string {
	cnt := map[string]int{}
	for _, cl := range calls {
		if cl.Kind != "bind" {
			continue
		}
		for _, j := range c.Base.Jobs {
			if strings.HasPrefix(cl.Pod, j.Name+"-") {
				cnt[j.Name]++
			}
		}
	}
	var parts []string
	for _, j := range c.Base.Jobs {
		if cnt[j.Name] > 0 {
			parts = append(parts, fmt.Sprintf("%s:%d", j.Name, cnt[j.Name]))
		}
	}
	return strings.Join(parts, " ")
}

func describeCalls(calls []cycle.Call) string {
	var out []string
	for _, cl := range calls {
		switch cl.Kind {
		case "bind":
			out = append(out, fmt.Sprintf("bind(%s->%s)", cl.Pod, cl.Node))
		case "pipe":
			out = append(out, fmt.Sprintf("pipe(%s->%s)", cl.Pod, cl.Node))
		default:
			out = append(out, fmt.Sprintf("evict(%s,%s)", cl.Pod, cl.Action))
		}
	}
	return strings.Join(out, " ")
}

func (c *CycleCase) Exec() Result {
	// the baseline (healthy part alone) twice: when the two disagree the cluster's decisions depend on
	// Go map order and the comparison is skipped for this case
	b1 := protect(func(res *Result) { res.Healthy = c.healthy(c.run(false)) })
	b2 := protect(func(res *Result) { res.Healthy = c.healthy(c.run(false)) })
	res := protect(func(res *Result) {
		calls := c.run(true)
		res.Healthy = c.healthy(calls)
		res.Calls = describeCalls(calls)
	})
	res.Baseline, res.Baseline2 = b1.Healthy, b2.Healthy
	if b1.Outcome != Terminated || b2.Outcome != Terminated {
		// the healthy cluster alone panics: not this property's malformed input; report it as it is
		if res.Outcome == Terminated {
			res.Outcome, res.Panic = Panicked, "baseline run: "+b1.Panic+b2.Panic
		}
	}
	return res
}

func (c *CycleCase) Label() string {
	var hs []string
	for _, h := range c.Hostile {
		d := cycle.Describe(cycle.Cluster{Jobs: []cycle.Job{h.Job}})
		d = d[strings.Index(d, "jobs[")+5:]
		d = d[:strings.LastIndex(d, "] actions")]
		d = strings.Replace(d, "(q=,", "(q="+qname(h.Queue)+",", 1)
		if len(h.Sub) > 0 {
			var sp []string
			for _, s := range h.Sub {
				p := "nil"
				if s.Parent != nil {
					p = *s.Parent
				}
				sp = append(sp, fmt.Sprintf("%s<%s,min%d", s.Name, p, s.MinMember))
			}
			d += "subgroups{" + strings.Join(sp, " ") + "}"
		}
		if len(h.PodAnn) > 0 {
			d += fmt.Sprintf("annotations%q", h.PodAnn)
		}
		hs = append(hs, d)
	}
	var ns []string
	for _, n := range c.Nodes {
		ns = append(ns, fmt.Sprintf("%s:gpu%d,cpu%d,mem%d,pods%d,nolabels=%v", n.Name, n.Gpus, n.Cpu, n.Mem, n.Pods, c.NoLabel[n.Name]))
	}
	var starts []int
	for _, h := range c.Hostile {
		starts = append(starts, h.Queue)
	}
	g := c.graph(true)
	return fmt.Sprintf("%s %s %s hostile-jobs[%s] hostile-nodes[%s] base{%s}", c.Scenario, g.String(), g.tags(starts),
		strings.Join(hs, " "), strings.Join(ns, " "), cycle.Describe(c.Base))
}

func jobActive(j cycle.Job) bool {
	for _, p := range j.Pods {
		if p.Status == pod_status.Pending || pod_status.AllocatedStatus(p.Status) {
			return true
		}
	}
	return false
}

func (c *CycleCase) Term(res Result) string {
	g := c.graph(true)
	var js []string
	for _, j := range c.Base.Jobs {
		id := 0
		fmt.Sscanf(j.Queue, "q%d", &id)
		js = append(js, u.Pair(u.Pos(id), u.Bool(jobActive(j))))
	}
	for _, h := range c.Hostile {
		js = append(js, u.Pair(u.Pos(h.Queue), u.Bool(jobActive(h.Job))))
	}
	same := true
	if c.Compare && res.Outcome == Terminated && res.Baseline == res.Baseline2 {
		same = res.Healthy == res.Baseline
	}
	if c.Expect != "" && res.Outcome == Terminated && res.Healthy != c.Expect {
		same = false // corpus clusters: the healthy job has room and quota, it must be bound
	}
	return u.App("KCycle", g.Term(), u.List(js), outcomeTerm(res.Outcome), u.Bool(same))
}

// ---- generator --------------------------------------------------------------------

func str(s string) *string { return &s }

func hostilePod(name string, cpu int64) core.PodSpec {
	return core.PodSpec{Name: name, Cpu: cpu, Mem: 1 << 20, Status: pod_status.Pending}
}

var hostileAnn = []map[string]string{
	{"gpu-fraction": "NaN"}, {"gpu-fraction": "-0.5"}, {"gpu-fraction": "1e400"}, {"gpu-fraction": "abc"},
	{"gpu-fraction": "0.5", "gpu-fraction-num-devices": "-3"}, {"gpu-fraction": "0.5", "gpu-fraction-num-devices": "0"},
	{"gpu-fraction": "0.5", "gpu-fraction-num-devices": "9223372036854775807"},
	{"gpu-fraction": "0.5", "gpu-fraction-num-devices": "1000000"},
	{"gpu-memory": "-5"}, {"gpu-memory": "9223372036854775807"}, {"gpu-memory": "NaN"}, {"gpu-memory": "0"},
	{"gpu-memory": "100", "gpu-fraction-num-devices": "-1"}, {"gpu-memory": "100", "gpu-fraction": "0.5"},
	{"gpu-memory": "9223372036854775807", "gpu-fraction-num-devices": "9223372036854775807"},
	{"gpu-fraction": "1"}, {"gpu-fraction": "0.0000000001"}, {"gpu-fraction": "0x1p-1"},
	{"nvidia.com/mig-1g.5gb": "-1"}, {"nvidia.com/mig-1g.5gb": "x"}, {"received-resource-type": "bogus"},
	{"pod-group-name": ""},
}

func genCycle(r *u.Rng, scenario int) *CycleCase {
	c := &CycleCase{Base: cycle.Gen(r), NoLabel: map[string]bool{}, Compare: true}
	acts := []string{"allocate", "consolidation", "reclaim", "preempt", "stalegangeviction"}
	if r.Chance(1, 2) {
		c.Base.Actions = acts
	}
	pend := func(name string, q int, pods int, min int32) HostileJob {
		j := cycle.Job{Name: name, Priority: int32(u.Pick(r, []int{50, 100, 125})), MinMember: min, AgeMinutes: r.Range(1, 50), StartedMins: 5}
		for k := 0; k < pods; k++ {
			p := hostilePod(fmt.Sprintf("%s-%d", name, k), 100)
			if r.Chance(1, 2) {
				p.Gpus = 1
			}
			j.Pods = append(j.Pods, p)
		}
		return HostileJob{Job: j, Queue: q}
	}
	switch scenario {
	case 0:
		c.Scenario = "clean"
	case 1: // parent cycle of length 1..3, optionally with a leaf below it
		c.Scenario = "queue-cycle"
		n := r.Range(1, 3)
		for i := 0; i < n; i++ {
			c.Extra = append(c.Extra, HQ{ID: 11 + i, Parent: 11 + (i+1)%n, Deserved: 1, OverQuota: 1})
		}
		q := 11 + r.Intn(n)
		if r.Chance(1, 2) {
			c.Extra = append(c.Extra, HQ{ID: 15, Parent: q, Deserved: 1, OverQuota: 1})
			q = 15
		}
		c.Hostile = append(c.Hostile, pend("h1", q, r.Range(1, 2), 1))
	case 2: // orphan queue (missing parent), optionally with a child
		c.Scenario = "orphan-queue"
		c.Extra = append(c.Extra, HQ{ID: 11, Parent: 95, Deserved: 1, OverQuota: 1})
		q := 11
		if r.Chance(1, 2) {
			c.Extra = append(c.Extra, HQ{ID: 12, Parent: 11, Deserved: 1, OverQuota: 1})
			q = 12
		}
		c.Hostile = append(c.Hostile, pend("h1", q, r.Range(1, 2), 1))
	case 3: // pod group whose queue does not exist
		c.Scenario = "missing-queue"
		c.Hostile = append(c.Hostile, pend("h1", 80, r.Range(1, 2), 1))
	case 4: // stale gang (fewer running pods than minMember) whose queue is missing or orphaned
		c.Scenario = "stale-gang-in-missing-queue"
		q := 80
		if r.Chance(1, 2) {
			c.Extra = append(c.Extra, HQ{ID: 11, Parent: 95, Deserved: 1, OverQuota: 1})
			q = 11
		}
		c.Nodes = append(c.Nodes, core.NodeSpec{Name: "nx", Cpu: 100, Mem: 1 << 20, Pods: 1})
		h := pend("h1", q, 2, 2)
		h.Job.Pods[0] = core.PodSpec{Name: "h1-0", Cpu: 100, Mem: 1 << 20, Status: pod_status.Running, Node: "nx"}
		h.Job.Pods[1].Gpus = 0
		c.Hostile = append(c.Hostile, h)
		c.Base.Actions = acts
	case 5: // leaves at different depths: a top-level leaf queue with quota next to the department
		c.Scenario = "top-level-leaf-queue"
		c.Compare = false
		c.Extra = append(c.Extra, HQ{ID: 11, Parent: 0, Deserved: float64(r.Range(1, 4)), OverQuota: 1})
		h := pend("h1", 11, 1, 1)
		h.Job.Pods[0].Gpus = 1
		c.Hostile = append(c.Hostile, h)
		c.Base.Actions = acts
	case 6: // malformed pods / pod groups in a queue of their own
		c.Scenario = "hostile-pods"
		c.Compare = false
		c.Extra = append(c.Extra, HQ{ID: 11, Parent: deptID, Deserved: float64(r.Intn(2)), OverQuota: 1})
		np := r.Range(1, 3)
		h := pend("h1", 11, np, int32(u.Pick(r, []int{-2147483648, -1, 0, 1, 2, 2147483647})))
		h.PodAnn = map[string]map[string]string{}
		for _, p := range h.Job.Pods {
			if r.Chance(2, 3) {
				h.PodAnn[p.Name] = u.Pick(r, hostileAnn)
			}
		}
		switch r.Intn(5) {
		case 0: // duplicate names
			h.Sub = []SubGroupSpec{{Name: "a", MinMember: 1}, {Name: "a", MinMember: 1}}
		case 1: // cyclic parents
			h.Sub = []SubGroupSpec{{Name: "a", Parent: str("b"), MinMember: 1}, {Name: "b", Parent: str("a"), MinMember: 1}, {Name: "c", Parent: str("a"), MinMember: 0}}
		case 2: // missing parent
			h.Sub = []SubGroupSpec{{Name: "a", Parent: str("zz"), MinMember: 1}}
		case 3: // non-positive minimums, valid tree
			h.Sub = []SubGroupSpec{{Name: "a", MinMember: 0}, {Name: "b", MinMember: -7}}
		default:
		}
		for i := range h.Job.Pods {
			h.Job.Pods[i].SubGroup = u.Pick(r, []string{"", "a", "b", "c", "nope"})
		}
		c.Hostile = append(c.Hostile, h)
	default: // nodes without labels / without capacity
		c.Scenario = "hostile-nodes"
		for i, n := 0, r.Range(1, 2); i < n; i++ {
			ns := core.NodeSpec{Name: fmt.Sprintf("nz%d", i)}
			switch r.Intn(3) {
			case 0: // nothing allocatable at all
			case 1: // GPUs but no cpu / memory / pod slots
				ns.Gpus = 4
			default: // capacity but no pod slots
				ns.Cpu, ns.Mem, ns.Gpus = 4000, 8<<30, 2
			}
			if ns.Gpus > 0 || ns.Cpu > 0 {
				// a Ready node's allocatable counts towards the cluster total the fair shares are
				// computed from, whether or not a pod fits on it: the healthy queues may legitimately
				// be given more
				c.Compare = false
			}
			c.Nodes = append(c.Nodes, ns)
			c.NoLabel[ns.Name] = r.Chance(2, 3)
		}
	}
	return c
}

// corpus: the model's refutation witnesses as whole clusters
func cycleCorpus() []*CycleCase {
	one := func(name string, q string, st pod_status.PodStatus, node string, gpus int64) cycle.Job {
		return cycle.Job{Name: name, Queue: q, Priority: 50, MinMember: 1, AgeMinutes: 10, StartedMins: 30,
			Pods: []core.PodSpec{{Name: name + "-0", Cpu: 1000, Mem: 1 << 30, Gpus: gpus, Status: st, Node: node}}}
	}
	base := func() cycle.Cluster {
		return cycle.Cluster{
			Nodes:   []core.NodeSpec{{Name: "n1", Cpu: 8000, Mem: 16 << 30, Gpus: 2, Pods: 110}},
			Queues:  []cycle.Queue{{Name: "q1", Deserved: 1, OverQuota: 1, Priority: 100}},
			Jobs:    []cycle.Job{one("j1", "q1", pod_status.Pending, "", 1)},
			Actions: []string{"allocate", "consolidation", "reclaim", "preempt", "stalegangeviction"},
		}
	}
	hj := func(q int) HostileJob {
		return HostileJob{Queue: q, Job: cycle.Job{Name: "h1", Priority: 50, MinMember: 1, AgeMinutes: 5, StartedMins: 5,
			Pods: []core.PodSpec{hostilePod("h1-0", 100)}}}
	}
	var out []*CycleCase
	// queue a { parent: a } with one pending job in it
	// the healthy cluster alone
	out = append(out, &CycleCase{Scenario: "clean", Base: base(), Compare: true, Expect: "j1:1", NoLabel: map[string]bool{}})
	out = append(out, &CycleCase{Scenario: "queue-cycle", Base: base(), Compare: true, Expect: "j1:1", NoLabel: map[string]bool{},
		Extra: []HQ{{ID: 11, Parent: 11, Deserved: 1, OverQuota: 1}}, Hostile: []HostileJob{hj(11)}})
	// a <-> b
	out = append(out, &CycleCase{Scenario: "queue-cycle", Base: base(), Compare: true, NoLabel: map[string]bool{},
		Extra: []HQ{{ID: 11, Parent: 12, Deserved: 1, OverQuota: 1}, {ID: 12, Parent: 11, Deserved: 1, OverQuota: 1}}, Hostile: []HostileJob{hj(11)}})
	// leaf under a 3-cycle
	out = append(out, &CycleCase{Scenario: "queue-cycle", Base: base(), Compare: true, NoLabel: map[string]bool{},
		Extra: []HQ{{ID: 11, Parent: 12, Deserved: 1, OverQuota: 1}, {ID: 12, Parent: 13, Deserved: 1, OverQuota: 1},
			{ID: 13, Parent: 11, Deserved: 1, OverQuota: 1}, {ID: 15, Parent: 11, Deserved: 1, OverQuota: 1}}, Hostile: []HostileJob{hj(15)}})
	// missing parent
	out = append(out, &CycleCase{Scenario: "orphan-queue", Base: base(), Compare: true, Expect: "j1:1", NoLabel: map[string]bool{},
		Extra: []HQ{{ID: 11, Parent: 95, Deserved: 1, OverQuota: 1}}, Hostile: []HostileJob{hj(11)}})
	// stale gang whose queue was deleted
	st := hj(80)
	st.Job.MinMember = 2
	st.Job.Pods = []core.PodSpec{{Name: "h1-0", Cpu: 100, Mem: 1 << 20, Status: pod_status.Running, Node: "nx"}, hostilePod("h1-1", 100)}
	out = append(out, &CycleCase{Scenario: "stale-gang-in-missing-queue", Base: base(), Compare: true, Expect: "j1:1", NoLabel: map[string]bool{},
		Nodes: []core.NodeSpec{{Name: "nx", Cpu: 100, Mem: 1 << 20, Pods: 1}}, Hostile: []HostileJob{st}})
	// top-level leaf queue reclaims from a nested queue: node full with an over-quota job of q1 (quota 0)
	tl := base()
	tl.Nodes = []core.NodeSpec{{Name: "n1", Cpu: 8000, Mem: 16 << 30, Gpus: 1, Pods: 110}}
	tl.Queues = []cycle.Queue{{Name: "q1", Deserved: 0, OverQuota: 1, Priority: 100}}
	tl.Jobs = []cycle.Job{one("j1", "q1", pod_status.Running, "n1", 1)}
	h := hj(11)
	h.Job.Pods[0].Gpus = 1
	h.Job.Priority = 50
	out = append(out, &CycleCase{Scenario: "top-level-leaf-queue", Base: tl, Compare: false, NoLabel: map[string]bool{},
		Extra: []HQ{{ID: 11, Parent: 0, Deserved: 1, OverQuota: 1}}, Hostile: []HostileJob{h}})
	// every malformed annotation set, alone in a queue with quota on a cluster with free GPUs (whole-GPU request
	// beside it or not), so that the pod gets as far into the allocation path as the code lets it
	for i, ann := range hostileAnn {
		for g := int64(0); g < 2; g++ {
			h := hj(11)
			h.Job.Pods[0].Gpus = g
			h.PodAnn = map[string]map[string]string{"h1-0": ann}
			b := base()
			b.Nodes[0].Gpus = 4
			_ = i
			out = append(out, &CycleCase{Scenario: "hostile-pods", Base: b, Compare: false, Expect: "j1:1", NoLabel: map[string]bool{},
				Extra: []HQ{{ID: 11, Parent: deptID, Deserved: 2, OverQuota: 1}}, Hostile: []HostileJob{h}})
		}
	}
	return out
}
