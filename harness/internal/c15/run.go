package c15

import (
	"fmt"
	"sort"
	"strings"

	"github.com/NVIDIA/KAI-scheduler/pkg/scheduler/api/common_info"
)

// Share is what the session exposes for one queue when it opens (GPU dimension).
// NOTE: the exported getters go through resource_info.NewResourceRequirements,
// which truncates values >= 1 to whole GPUs; Exact* are recomputed (shares.go).
type Share struct {
	Queue                     string
	Deserved, Fair, Allocated float64
}

type CycleRec struct {
	Before     string // canonical state the session was built from
	Calls      []Call
	After      string
	Evictions  int
	Shares     []Share
	Panic      string
	Complaints int
	Sizes      []SizeObs // gate size vs charged size of every job placed in the cycle (world.go RunActions)
	Partial    int       // jobs of which only some of the pods the scheduler meant to place next were placed
	Sats       []SatObs  // the saturation rule on every committed reclaim eviction (satgate.go)
}

type Trace struct {
	Cycles         []CycleRec
	LassoFrom      int // index i of the earlier state (state before cycle i), -1 = none
	LassoTo        int // state after cycle LassoTo equals state before cycle LassoFrom
	EvictingCycles int
}

// Run plays up to maxCycles cycles of the real scheduler on the closed world.
// It stops early at a fixpoint (a cycle without any decision).
func Run(w *World, maxCycles int) *Trace {
	tr := &Trace{LassoFrom: -1, LassoTo: -1}
	type seen struct {
		at    int // state before cycle `at`
		evict int // number of evictions applied before that state
	}
	first := map[string]seen{}
	totalEv := 0
	first[w.Canon()] = seen{0, 0}
	for c := 0; c < maxCycles; c++ {
		rec := CycleRec{Before: w.Canon()}
		b := Build(w)
		rec.Shares = readShares(b, w)
		rec.Panic = RunActions(b, w.Cfg.Actions)
		rec.Calls = b.Rec.calls
		rec.Complaints = len(b.Rep.msgs)
		rec.Sizes, rec.Partial = b.Sizes, b.PartialPlacements
		rec.Sats = satObservations(w, b, rec.Calls)
		rec.Evictions = w.Apply(rec.Calls)
		rec.After = w.Canon()
		totalEv += rec.Evictions
		if rec.Evictions > 0 {
			tr.EvictingCycles++
		}
		tr.Cycles = append(tr.Cycles, rec)
		if s, ok := first[rec.After]; ok {
			if totalEv > s.evict && tr.LassoFrom < 0 {
				tr.LassoFrom, tr.LassoTo = s.at, c
				break
			}
		} else {
			first[rec.After] = seen{c + 1, totalEv}
		}
		if len(rec.Calls) == 0 {
			break
		}
	}
	return tr
}

func readShares(b *Built, w *World) []Share {
	var out []Share
	var ids []string
	for id := range b.Queues {
		ids = append(ids, string(id))
	}
	sort.Strings(ids)
	for _, id := range ids {
		qi := b.Queues[common_info.QueueID(id)]
		out = append(out, Share{Queue: id,
			Deserved:  b.Ssn.QueueDeservedResources(qi).GetGpusQuota(),
			Fair:      b.Ssn.QueueFairShare(qi).GetGpusQuota(),
			Allocated: b.Ssn.QueueAllocatedResources(qi).GetGpusQuota()})
	}
	return out
}

func callsDesc(cs []Call) string {
	var d []string
	for _, cl := range cs {
		switch cl.Kind {
		case "bind":
			d = append(d, fmt.Sprintf("bind(%s->%s%s)", cl.Pod, cl.Node, groupsDesc(cl.Groups)))
		case "pipe":
			d = append(d, fmt.Sprintf("pipe(%s->%s%s)", cl.Pod, cl.Node, groupsDesc(cl.Groups)))
		case "evict":
			if len(cl.Replaced) > 0 {
				d = append(d, fmt.Sprintf("evict(%s,%s;sim-replaced:%s)", cl.Pod, cl.Action, strings.Join(cl.Replaced, "+")))
			} else {
				d = append(d, fmt.Sprintf("evict(%s,%s)", cl.Pod, cl.Action))
			}
		}
	}
	return strings.Join(d, " ")
}

// SizeTolerance: a shared device's portion is rounded up to 1/100 GPU when it is charged (node_info
// getGpuMemoryFractionalOnNode: ceil(100*memory/deviceMemory)/100), the gate counts the exact quotient
const sizeEps = 1e-5

// Undercounted: the gate counted the job by less than it is charged (beyond the rounding of the charged portions).
func (o SizeObs) Undercounted() bool { return o.Charged > o.Gate+0.01*float64(o.Devices)+sizeEps }

// Overcounted: ... by more, although every pod sits on a device of the memory the gate divides by.
func (o SizeObs) Overcounted() bool { return o.Homogeneous && o.Gate > o.Charged+sizeEps }

func sizesDesc(os []SizeObs) string {
	var d []string
	for _, o := range os {
		tag := ""
		if o.Undercounted() {
			tag = " UNDERCOUNTED"
		} else if o.Overcounted() {
			tag = " OVERCOUNTED"
		}
		ev := ""
		if o.Evicting {
			ev = ",evicting"
		}
		d = append(d, fmt.Sprintf("%s(%s%s,%s): gate %g charged %g%s", o.Job, o.Action, ev, o.Kind, o.Gate, o.Charged, tag))
	}
	return strings.Join(d, "; ")
}

func groupsDesc(gs []string) string {
	if len(gs) == 0 {
		return ""
	}
	return fmt.Sprintf("[%dg]", len(gs))
}

// Describe renders the closed world compactly.
func Describe(w *World) string {
	var sb strings.Builder
	sb.WriteString("nodes[")
	for i, n := range w.Nodes {
		if i > 0 {
			sb.WriteString(" ")
		}
		fmt.Fprintf(&sb, "%s:gpu%d,cpu%d", n.Name, n.Gpus, n.Cpu)
		if n.GpuMem > 0 {
			fmt.Fprintf(&sb, ",gpumem%d", n.GpuMem)
		}
	}
	sb.WriteString("] depts[")
	for i, d := range w.Depts {
		if i > 0 {
			sb.WriteString(" ")
		}
		fmt.Fprintf(&sb, "%s:q%g,l%g", d.Name, d.Deserved, d.Limit)
	}
	sb.WriteString("] queues[")
	for i, q := range w.Queues {
		if i > 0 {
			sb.WriteString(" ")
		}
		fmt.Fprintf(&sb, "%s<%s:q%g,l%g,w%g,p%d", q.Name, q.Parent, q.Deserved, q.Limit, q.OverQuota, q.Priority)
	}
	sb.WriteString("] jobs[")
	for i, j := range w.Jobs {
		if i > 0 {
			sb.WriteString(" ")
		}
		fmt.Fprintf(&sb, "%s(q=%s,pri=%d,min=%d,age=%d:", j.Name, j.Queue, j.Priority, j.MinMember, j.AgeMinutes)
		for k, p := range j.Pods {
			if k > 0 {
				sb.WriteString(",")
			}
			req := fmt.Sprintf("g%d", p.Gpus)
			if p.Fraction != "" {
				req = "f" + p.Fraction
			}
			if p.GpuMemory > 0 {
				req = fmt.Sprintf("m%d", p.GpuMemory)
			}
			if p.NumDev > 0 {
				req += fmt.Sprintf("x%d", p.NumDev)
			}
			if p.Cpu > 0 {
				req += fmt.Sprintf("c%d", p.Cpu)
			}
			fmt.Fprintf(&sb, "%s", req)
		}
		sb.WriteString(")")
	}
	fmt.Fprintf(&sb, "] cfg[actions=%s consreclaim=%v maxcons=%d mult=%q]", strings.Join(w.Cfg.Actions, ","), w.Cfg.ConsolidatingReclaim, w.Cfg.MaxConsolidation, w.Cfg.Multiplier)
	return sb.String()
}

// Dump prints a trace cycle by cycle (used in findings and by C15_DEBUG).
func (tr *Trace) Dump() string {
	var sb strings.Builder
	for i, c := range tr.Cycles {
		fmt.Fprintf(&sb, "  cycle %d: state{%s}\n", i, c.Before)
		var sh []string
		for _, s := range c.Shares {
			sh = append(sh, fmt.Sprintf("%s:des=%g,fair=%g,alloc=%g", s.Queue, s.Deserved, s.Fair, s.Allocated))
		}
		fmt.Fprintf(&sb, "           shares{%s}\n", strings.Join(sh, " "))
		fmt.Fprintf(&sb, "           decisions: %s\n", callsDesc(c.Calls))
		if len(c.Sizes) > 0 {
			fmt.Fprintf(&sb, "           sizes: %s\n", sizesDesc(c.Sizes))
		}
		for _, o := range c.Sats {
			fmt.Fprintf(&sb, "           saturation: %s\n", o)
		}
		if c.Panic != "" {
			fmt.Fprintf(&sb, "           PANIC %s\n", strings.SplitN(c.Panic, "\n", 2)[0])
		}
	}
	if n := len(tr.Cycles); n > 0 {
		fmt.Fprintf(&sb, "  final:   state{%s}\n", tr.Cycles[n-1].After)
	}
	if tr.LassoFrom >= 0 {
		fmt.Fprintf(&sb, "  LASSO: state after cycle %d = state before cycle %d, with evictions in between\n", tr.LassoTo, tr.LassoFrom)
	}
	return sb.String()
}
