package c15

import (
	"fmt"
	"strings"

	"github.com/NVIDIA/KAI-scheduler/pkg/scheduler/api/pod_status"

	"kaiverif/internal/core"
	u "kaiverif/internal/util"
)

// Hierarchical corpus (stream "hier"): two-level queue hierarchies with department quotas
// and limits, leaf quotas that may over-subscribe the department's quota, and single-pod jobs
// of different sizes.  The worlds are built around ONE question: does the solver's simulated
// allocation (common.GetJobsToAllocate -> JobsOrderByQueues) order the departments like the
// next cycle's allocate action does?  A department is ranked through the first job of its
// best leaf queue, so a pending job that is never the preemptor nor a victim (a big,
// unschedulable job of a SIBLING leaf queue) still decides the order between departments.

// hierBase: one node of 4 GPUs shared by departments d1 and d2 (quota 2 each).  d2 (queue b)
// holds 3 GPUs (1 above its fair share), d1 holds 1 GPU (queue a2).  Queue a1 of d1 waits
// for 1 GPU and is entitled to reclaim it from b.
func hierBase(jobs ...Job) *World {
	return &World{
		Nodes: []core.NodeSpec{gnode("node0", 4, 64000)},
		Depts: []Dept{{Name: "d1", Deserved: 2}, {Name: "d2", Deserved: 2}},
		Queues: []Queue{{Name: "a1", Parent: "d1", Deserved: 1, OverQuota: 1, Priority: 100},
			// the leaf quotas of d1 over-subscribe the quota of d1; a2 is the more important queue of d1
			{Name: "a2", Parent: "d1", Deserved: 4, OverQuota: 1, Priority: 200},
			{Name: "b", Parent: "d2", Deserved: 2, OverQuota: 1, Priority: 100}},
		Jobs: jobs,
		Cfg:  Config{Actions: defaultActions, ConsolidatingReclaim: true, MaxConsolidation: -1},
	}
}

// the hierarchical worlds of a seed are drawn from their own PRNG root
const hierSalt = 0x68696572

var hierCorpus = []string{"hier-sibling-big-first", "hier-no-sibling-big", "hier-big-in-victim-dept", "hier-three-depts", "hier-big-schedulable",
	"hier-dept-limit",
	// the world of seeded/C15-4/README.md under the saturation multipliers 1, 1.5, 2 and 3 (all valid: m >= 1)
	"hier-saturation-m1", "hier-saturation-m1.5", "hier-saturation-m2", "hier-saturation-m3"}

// hierSaturation is the world of seeded/C15-4/README.md: 7 GPUs on two nodes of different sizes, two departments whose
// project quotas over-subscribe the department (dept-a 3 < 2 + 2, dept-b 4 < 3 + 2).  dept-a holds 2 of its fair share
// 3, dept-b 5 of its fair share 4; a-new-train (2 GPUs, pending) is within the fair share of its own queue
// (CanReclaimResources passes) and taking b-small-train's 2 GPUs would merely swap the over-use: dept-a 4/3, dept-b 3/4.
// Only the saturation rule of reclaimable.isFairShareSaturationLowerPerResource stands in the way: it refuses when
// ratio(reclaimer's department) * m >= ratio(sibling department), here 4/3 * m >= 3/4 - for EVERY m >= 1.  Unchanged
// tree: no eviction under any of the four multipliers.  With the multiplier on the sibling's side (seeded change
// C15-4: 4/3 >= m * 3/4 refuses) m = 2 and m = 3 let the reclaim through, and because consolidating reclaim also
// evicts and re-places a-old's pods on the victim's node the simulation places the reclaimer first: b-small-train is
// bound by allocate and evicted again by reclaim in every cycle (period-1 lasso from cycle 1 on).
func hierSaturation(mult string) *World {
	return &World{
		Nodes: []core.NodeSpec{gnode("node-0", 3, 64000), gnode("node-1", 4, 64000)},
		Depts: []Dept{{Name: "dept-a", Deserved: 3}, {Name: "dept-b", Deserved: 4}},
		Queues: []Queue{{Name: "a-new", Parent: "dept-a", Deserved: 2, OverQuota: 1, Priority: 100},
			{Name: "a-old", Parent: "dept-a", Deserved: 2, OverQuota: 1, Priority: 100},
			{Name: "b-big", Parent: "dept-b", Deserved: 3, OverQuota: 1, Priority: 100},
			{Name: "b-small", Parent: "dept-b", Deserved: 2, OverQuota: 1, Priority: 100}},
		// creation order as in the demonstration (jobs_fake: earlier in the list = older)
		Jobs: []Job{sizedJob("a-old-1", "a-old", 50, 5, 1, "node-1"), sizedJob("b-small-train", "b-small", 50, 4, 2, "node-1"),
			sizedJob("a-old-2", "a-old", 50, 3, 1, "node-1"), sizedJob("a-new-train", "a-new", 50, 2, 2, ""),
			sizedJob("b-big-train", "b-big", 50, 1, 3, "node-0")},
		Cfg: Config{Actions: defaultActions, ConsolidatingReclaim: true, MaxConsolidation: -1, Multiplier: mult},
	}
}

func hierScenario(name string) *World {
	var k int
	if n, _ := fmt.Sscanf(name, "satfam:%d", &k); n == 1 {
		if fam := satFamily(); k >= 0 && k < len(fam) {
			return fam[k]
		}
		return nil
	}
	if n, _ := fmt.Sscanf(name, "hierfam:%d", &k); n == 1 {
		if fam := hierFamily(); k >= 0 && k < len(fam) {
			return fam[k]
		}
		return nil
	}
	if strings.HasPrefix(name, "hier-saturation-m") {
		if m := strings.TrimPrefix(name, "hier-saturation-m"); multKnown(m) {
			return hierSaturation(m)
		}
		return nil
	}
	switch name {
	case "hier-sibling-big-first":
		// the world of seeded/C15-2/README.md: a2-big (3 GPUs, pending, queue a2) is the first job of d1, can
		// never start (d1 would exceed its quota and nobody is above fair share enough to give 3 GPUs) and
		// ranks d1 BEHIND d2.  The unchanged solver sees that order in its simulation, re-places the victim
		// first, a1-small does not fit: no eviction at all.
		return hierBase(sizedJob("a2-run", "a2", 50, 100, 1, "node0"), sizedJob("b-run0", "b", 50, 99, 1, "node0"),
			sizedJob("b-run1", "b", 50, 98, 1, "node0"), sizedJob("b-run2", "b", 50, 97, 1, "node0"),
			sizedJob("a2-big", "a2", 50, 96, 3, ""), sizedJob("a1-small", "a1", 50, 95, 1, ""))
	case "hier-no-sibling-big":
		// control: without a2-big one eviction, a1-small runs in the next cycle, settled
		return hierBase(sizedJob("a2-run", "a2", 50, 100, 1, "node0"), sizedJob("b-run0", "b", 50, 99, 1, "node0"),
			sizedJob("b-run1", "b", 50, 98, 1, "node0"), sizedJob("b-run2", "b", 50, 97, 1, "node0"),
			sizedJob("a1-small", "a1", 50, 95, 1, ""))
	case "hier-big-in-victim-dept":
		// the big unschedulable pending job sits in a sibling leaf queue of the VICTIM's department:
		// d2 = {b, b2}; b2-big (3 GPUs) is the first job of d2
		w := hierBase(sizedJob("a2-run", "a2", 50, 100, 1, "node0"), sizedJob("b-run0", "b", 50, 99, 1, "node0"),
			sizedJob("b-run1", "b", 50, 98, 1, "node0"), sizedJob("b-run2", "b", 50, 97, 1, "node0"),
			sizedJob("b2-big", "b2", 50, 96, 3, ""), sizedJob("a1-small", "a1", 50, 95, 1, ""))
		w.Queues = append(w.Queues, Queue{Name: "b2", Parent: "d2", Deserved: 4, OverQuota: 1, Priority: 200})
		return w
	case "hier-three-depts":
		// three departments on 6 GPUs (quota 2 each): d2 and d3 hold 3 and 2, d1 holds 1 and has the
		// big pending job in front of its reclaimer
		return &World{
			Nodes: []core.NodeSpec{gnode("node0", 6, 64000)},
			Depts: []Dept{{Name: "d1", Deserved: 2}, {Name: "d2", Deserved: 2}, {Name: "d3", Deserved: 2}},
			Queues: []Queue{{Name: "a1", Parent: "d1", Deserved: 1, OverQuota: 1, Priority: 100},
				{Name: "a2", Parent: "d1", Deserved: 4, OverQuota: 1, Priority: 200},
				{Name: "b", Parent: "d2", Deserved: 2, OverQuota: 1, Priority: 100},
				{Name: "c", Parent: "d3", Deserved: 2, OverQuota: 1, Priority: 100}},
			Jobs: []Job{sizedJob("a2-run", "a2", 50, 100, 1, "node0"), sizedJob("b-run0", "b", 50, 99, 1, "node0"),
				sizedJob("b-run1", "b", 50, 98, 1, "node0"), sizedJob("b-run2", "b", 50, 97, 1, "node0"),
				sizedJob("c-run0", "c", 50, 96, 1, "node0"), sizedJob("c-run1", "c", 50, 95, 1, "node0"),
				sizedJob("a2-big", "a2", 50, 94, 3, ""), sizedJob("a1-small", "a1", 50, 93, 1, "")},
			Cfg: Config{Actions: defaultActions, ConsolidatingReclaim: true, MaxConsolidation: -1},
		}
	case "hier-big-schedulable":
		// the big job of the sibling queue is schedulable: d1 deserves 3 of 5 GPUs, a2-big (2 GPUs) may
		// reclaim both over-quota GPUs of b
		return &World{
			Nodes: []core.NodeSpec{gnode("node0", 5, 64000)},
			Depts: []Dept{{Name: "d1", Deserved: 3}, {Name: "d2", Deserved: 2}},
			Queues: []Queue{{Name: "a1", Parent: "d1", Deserved: 1, OverQuota: 1, Priority: 100},
				{Name: "a2", Parent: "d1", Deserved: 3, OverQuota: 1, Priority: 200},
				{Name: "b", Parent: "d2", Deserved: 2, OverQuota: 1, Priority: 100}},
			Jobs: []Job{sizedJob("a2-run", "a2", 50, 100, 1, "node0"), sizedJob("b-run0", "b", 50, 99, 1, "node0"),
				sizedJob("b-run1", "b", 50, 98, 1, "node0"), sizedJob("b-run2", "b", 50, 97, 1, "node0"),
				sizedJob("b-run3", "b", 50, 96, 1, "node0"),
				sizedJob("a2-big", "a2", 50, 95, 2, ""), sizedJob("a1-small", "a1", 50, 94, 1, "")},
			Cfg: Config{Actions: defaultActions, ConsolidatingReclaim: true, MaxConsolidation: -1},
		}
	case "hier-finding-replaced-own-dept":
		// PROPOSED FINDING C15-sim-replaced-victims-reorder (.work/C15-known.json), NOT part of the corpus: the world
		// of seeded/C15-2 with priority 60 on a2-big.  On the UNCHANGED tree: the solver's 4th scenario for a1-small
		// also evicts a2-run (the reclaimer's own department), d1 stands at 0 allocated GPUs inside the simulation,
		// a2-big (now in front of a2-run in queue a2) ties d1 with d2 and is popped and skipped, a2-run is re-placed,
		// a1-small is placed, b-run2 does not fit: eviction committed.  The next allocate sees d1 with its real
		// allocation (1 GPU), a2-big ranks d1 behind d2, b-run2 is bound again and evicted again: period-1 lasso.
		return hierBase(sizedJob("a2-run", "a2", 50, 100, 1, "node0"), sizedJob("b-run0", "b", 50, 99, 1, "node0"),
			sizedJob("b-run1", "b", 50, 98, 1, "node0"), sizedJob("b-run2", "b", 50, 97, 1, "node0"),
			sizedJob("a2-big", "a2", 60, 96, 3, ""), sizedJob("a1-small", "a1", 50, 95, 1, ""))
	case "hier-finding-unstable-order":
		// PROPOSED FINDING C15-job-order-depends-on-map-iteration (.work/C15-known.json), NOT part of the corpus
		// (minimised from random hierarchical world seed 1 #3451): the same initial state gives at least four
		// different runs (no decision / evict j2 and settle / evict j2, bind j2 again and evict it again for ever):
		// utils.JobsOrderByQueues selects d1->q1 or d2->q3 first depending on the order in which the pending jobs
		// were pushed (Go map iteration over the session's PodGroupInfos).
		w := &World{
			Nodes: []core.NodeSpec{gnode("n1", 4, 64000)},
			Depts: []Dept{{Name: "d1", Deserved: 3}, {Name: "d2", Deserved: 2}},
			Queues: []Queue{{Name: "q1", Parent: "d1", Deserved: 1, OverQuota: 1, Priority: 100}, {Name: "q2", Parent: "d1", Deserved: 3, OverQuota: 1, Priority: 200},
				{Name: "q3", Parent: "d2", Deserved: 2, OverQuota: 1, Priority: 100}, {Name: "q4", Parent: "d2", Deserved: 2, OverQuota: 1, Priority: 100}},
			Jobs: []Job{sizedJob("j1", "q2", 50, 199, 1, "n1"), sizedJob("j2", "q3", 50, 198, 2, "n1"), sizedJob("j3", "q4", 50, 197, 1, "n1"),
				sizedJob("j4", "q2", 50, 196, 4, ""), sizedJob("j5", "q1", 50, 195, 1, ""), sizedJob("j6", "q2", 50, 194, 2, "")},
			Cfg: Config{Actions: []string{"allocate", "reclaim"}, ConsolidatingReclaim: true, MaxConsolidation: -1},
		}
		return w
	case "hier-dept-limit":
		// the sibling's big job is unschedulable because of the department's LIMIT (3), not its quota
		w := hierBase(sizedJob("a2-run", "a2", 50, 100, 1, "node0"), sizedJob("b-run0", "b", 50, 99, 1, "node0"),
			sizedJob("b-run1", "b", 50, 98, 1, "node0"), sizedJob("b-run2", "b", 50, 97, 1, "node0"),
			sizedJob("a2-big", "a2", 50, 96, 3, ""), sizedJob("a1-small", "a1", 50, 95, 1, ""))
		w.Depts[0].Limit = 3
		return w
	}
	return nil
}

// GenHier draws a hierarchical world (stream "hier"): 2-3 departments with 1-3 leaf queues
// each, department quotas and (sometimes) limits, leaf quotas that may over-subscribe the
// department's quota, over-quota weights, queue priorities, single-pod preemptible jobs of
// 1-4 whole GPUs with varied priorities and creation times.  GPU is the only contended
// resource and (mostly) there is one node, so neither gangs nor fractions nor CPU nor
// fragmentation are in play: what is explored is the interplay of the reclaim gate, the
// solver's simulated allocation and the allocate action's queue order on two levels.
// Half of the worlds are "trigger-shaped": a department that is below its quota has a small
// pending job in one leaf queue and a big pending job in a sibling leaf queue of higher
// priority (first in the department's order), another department is above its quota.
func GenHier(r *u.Rng) *World {
	// 2 of 5 hierarchical worlds are saturation-shaped (genHierSat); decided on a forked PRNG
	if r.Fork(0x736174).Intn(5) < 2 {
		return genHierSat(r.Fork(0x73617475))
	}
	w := &World{}
	nn := u.Pick(r, []int{1, 1, 1, 2})
	total := int64(0)
	free := map[string]*[2]int64{}
	for i := 0; i < nn; i++ {
		g := int64(u.Pick(r, []int{4, 4, 5, 6, 8}))
		if nn == 2 {
			g = int64(u.Pick(r, []int{2, 3, 4}))
		}
		ns := gnode(fmt.Sprintf("n%d", i+1), g, 64000)
		w.Nodes = append(w.Nodes, ns)
		free[ns.Name] = &[2]int64{g, ns.Cpu}
		total += g
	}
	nd := u.Pick(r, []int{2, 2, 3})
	trigger := r.Chance(1, 2)
	// department quotas: around total/nd, sometimes over- or under-subscribed
	for i := 0; i < nd; i++ {
		d := Dept{Name: fmt.Sprintf("d%d", i+1)}
		base := int(total) / nd
		d.Deserved = float64(u.Pick(r, []int{base, base, base + 1, max(base-1, 0), int(total) / 2}))
		if r.Chance(1, 8) {
			d.Deserved += 0.5
		}
		if r.Chance(1, 4) {
			d.Limit = d.Deserved + float64(r.Range(0, 2))
			if d.Limit == 0 {
				d.Limit = 1
			}
		}
		if r.Chance(1, 6) {
			d.Priority = 200
		}
		w.Depts = append(w.Depts, d)
	}
	qi := 0
	leaves := map[string][]string{}
	for i, d := range w.Depts {
		nl := r.Range(1, 3)
		if trigger && i == 0 && nl < 2 {
			nl = 2
		}
		for k := 0; k < nl; k++ {
			qi++
			q := Queue{Name: fmt.Sprintf("q%d", qi), Parent: d.Name, OverQuota: float64(u.Pick(r, []int{0, 1, 1, 1, 2, 3})),
				Priority: u.Pick(r, []int{100, 100, 100, 200})}
			// leaf quota: a share of the department's quota, or (over-subscription) up to the whole cluster
			switch r.Intn(4) {
			case 0:
				q.Deserved = float64(r.Intn(int(total) + 1))
			case 1:
				q.Deserved = d.Deserved
			default:
				q.Deserved = float64(r.Intn(int(d.Deserved) + 1))
			}
			if r.Chance(1, 6) {
				q.Limit = float64(r.Range(1, int(total)))
			}
			w.Queues = append(w.Queues, q)
			leaves[d.Name] = append(leaves[d.Name], q.Name)
		}
	}
	age := 200
	add := func(queue string, prio int32, gpus int64, run bool) {
		age--
		j := sizedJob(fmt.Sprintf("j%d", len(w.Jobs)+1), queue, prio, age, gpus, "")
		if run {
			if node, ok := placeWhole(r, free, w.Nodes, gpus, 0); ok {
				j.Pods[0].Status, j.Pods[0].Node = pod_status.Running, node
			}
		}
		w.Jobs = append(w.Jobs, j)
	}
	prios := []int{50, 50, 50, 60, 75}
	if trigger {
		// d1: small running job(s) in the "important" sibling leaf; the other departments fill the cluster
		small, big := leaves["d1"][0], leaves["d1"][1]
		for i := range w.Queues {
			if w.Queues[i].Name == big {
				w.Queues[i].Priority = 200
				w.Queues[i].Deserved = float64(u.Pick(r, []int{int(total), int(w.Depts[0].Deserved) + 1, int(w.Depts[0].Deserved)}))
			}
			if w.Queues[i].Name == small {
				w.Queues[i].Priority = 100
				if w.Queues[i].Deserved < 1 {
					w.Queues[i].Deserved = 1
				}
			}
		}
		if r.Chance(2, 3) {
			add(big, 50, 1, true)
		}
		// fill the rest with 1-2 GPU jobs of the other departments
		for k := 0; k < 12 && free[w.Nodes[0].Name][0]+func() int64 {
			if nn == 2 {
				return free[w.Nodes[1].Name][0]
			}
			return 0
		}() > 0; k++ {
			d := w.Depts[1+r.Intn(nd-1)]
			add(u.Pick(r, leaves[d.Name]), int32(u.Pick(r, prios)), int64(u.Pick(r, []int{1, 1, 1, 2})), true)
		}
		bigSize := int64(u.Pick(r, []int{2, 3, 3, 4}))
		if r.Chance(1, 2) {
			add(big, int32(u.Pick(r, prios)), bigSize, false)
			add(small, int32(u.Pick(r, prios)), 1, false)
		} else {
			add(small, int32(u.Pick(r, prios)), 1, false)
			add(big, int32(u.Pick(r, prios)), bigSize, false)
		}
		// a few extra jobs anywhere
		for k := r.Intn(3); k > 0; k-- {
			add(u.Pick(r, w.Queues).Name, int32(u.Pick(r, prios)), int64(u.Pick(r, []int{1, 1, 2, 3})), false)
		}
	} else {
		nj := r.Range(4, 9)
		for i := 0; i < nj; i++ {
			q := u.Pick(r, w.Queues).Name
			if r.Chance(1, 3) {
				q = w.Queues[len(w.Queues)-1].Name // crowd one queue so that somebody is over its share
			}
			add(q, int32(u.Pick(r, prios)), int64(u.Pick(r, []int{1, 1, 1, 2, 2, 3, 4})), r.Chance(3, 5))
		}
	}
	w.Cfg = genConfig(r, hierMultipliers)
	return w
}

// saturation multipliers of the hierarchical streams: absent (= 1) and the VALID settings 1, 1.2, 1.5, 2, 3, 5
// (values below 1 are replaced by 1 when the plugin starts: the class stream and the corpus world pingpong-m0.4
// exercise that clamp)
var hierMultipliers = []string{"", "", "1.0", "1.2", "1.5", "2", "3", "5"}
var satMultipliers = []string{"", "1.0", "1.2", "1.2", "1.5", "1.5", "2", "2", "3", "3", "5", "5"}

// genHierSat draws a SATURATION-SHAPED hierarchical world - the neighbourhood of seeded/C15-4/README.md: 2-3 nodes of
// DIFFERENT sizes, 2-3 departments whose quotas add up to about the cluster, 1-3 project queues per department whose
// quotas OVER-SUBSCRIBE the department (each between half and all of the department's quota), so that a project can be
// within its own fair share while its department ends above its fair share and only the saturation rule of
// reclaimable.isFairShareSaturationLowerPerResource decides; the cluster is (nearly) full, one department holds more
// than its quota, another less; the department below its quota has a pending job of 1-3 GPUs in one project and
// small running jobs of a sibling project spread over the nodes (what a consolidating reclaim evicts and re-places);
// multipliers from satMultipliers, consolidating reclaim on in 3 of 4 worlds.
func genHierSat(r *u.Rng) *World {
	w := &World{}
	nn := u.Pick(r, []int{2, 2, 2, 3})
	total := int64(0)
	free := map[string]*[2]int64{}
	sizes := []int{2, 3, 4, 5}
	u.Shuffle(r, sizes)
	for i := 0; i < nn; i++ {
		g := int64(sizes[i]) // different sizes
		ns := gnode(fmt.Sprintf("n%d", i+1), g, 64000)
		w.Nodes = append(w.Nodes, ns)
		free[ns.Name] = &[2]int64{g, ns.Cpu}
		total += g
	}
	nd := u.Pick(r, []int{2, 2, 2, 3})
	// department quotas: a split of the cluster, sometimes one GPU more or less in total
	rest := int(total) + u.Pick(r, []int{0, 0, 0, -1, 1})
	for i := 0; i < nd; i++ {
		d := Dept{Name: fmt.Sprintf("d%d", i+1)}
		share := rest / (nd - i)
		if i < nd-1 && share > 1 {
			share += r.Range(-1, 1)
		}
		if share < 1 {
			share = 1
		}
		d.Deserved = float64(share)
		rest -= share
		if r.Chance(1, 10) {
			d.Deserved += 0.5
		}
		w.Depts = append(w.Depts, d)
	}
	qi := 0
	leaves := map[string][]string{}
	for i, d := range w.Depts {
		nl := u.Pick(r, []int{2, 2, 2, 1, 3})
		if i == 0 && nl < 2 {
			nl = 2
		}
		dq := int(d.Deserved)
		for k := 0; k < nl; k++ {
			qi++
			// between half and all of the department's quota: two of them over-subscribe it
			lo := (dq + 1) / 2
			if lo < 1 {
				lo = 1
			}
			q := Queue{Name: fmt.Sprintf("q%d", qi), Parent: d.Name, Deserved: float64(r.Range(lo, max(dq, lo))), OverQuota: float64(u.Pick(r, []int{1, 1, 1, 1, 0, 2})),
				Priority: u.Pick(r, []int{100, 100, 100, 100, 200})}
			w.Queues = append(w.Queues, q)
			leaves[d.Name] = append(leaves[d.Name], q.Name)
		}
	}
	age := 200
	add := func(queue string, prio int32, gpus int64, run bool) bool {
		age--
		j := sizedJob(fmt.Sprintf("j%d", len(w.Jobs)+1), queue, prio, age, gpus, "")
		placed := false
		if run {
			if node, ok := placeWhole(r, free, w.Nodes, gpus, 0); ok {
				j.Pods[0].Status, j.Pods[0].Node = pod_status.Running, node
				placed = true
			} else {
				age++
				return false // a job meant to run that does not fit is left out
			}
		}
		w.Jobs = append(w.Jobs, j)
		return placed
	}
	prios := []int{50, 50, 50, 50, 60}
	// d1 is the department below its quota: it runs quota - short GPUs as small jobs of its SECOND project
	short := r.Range(1, 2)
	runA := int(w.Depts[0].Deserved) - short
	old := leaves["d1"][1]
	for runA > 0 {
		g := int64(u.Pick(r, []int{1, 1, 1, 2}))
		if int(g) > runA {
			g = int64(runA)
		}
		add(old, int32(u.Pick(r, prios)), g, true)
		runA -= int(g)
	}
	// the other departments fill the rest of the cluster (so at least one of them is above its quota)
	for k := 0; k < 16; k++ {
		left := int64(0)
		for _, f := range free {
			left += f[0]
		}
		if left == 0 || (left == 1 && r.Chance(1, 4)) {
			break
		}
		d := w.Depts[1+r.Intn(nd-1)]
		add(u.Pick(r, leaves[d.Name]), int32(u.Pick(r, prios)), int64(u.Pick(r, []int{1, 2, 2, 3})), true)
	}
	// the pending job of d1's first project, sometimes a second pending job somewhere
	add(leaves["d1"][0], int32(u.Pick(r, prios)), int64(u.Pick(r, []int{1, 2, 2, 3})), false)
	for k := r.Intn(3); k > 0; k-- {
		add(u.Pick(r, w.Queues).Name, int32(u.Pick(r, prios)), int64(u.Pick(r, []int{1, 1, 2})), false)
	}
	w.Cfg = genConfig(r, satMultipliers)
	if r.Chance(1, 2) {
		w.Cfg.ConsolidatingReclaim = true
	}
	if r.Chance(1, 2) {
		w.Cfg.Actions = defaultActions
	}
	return w
}

// satFamily enumerates the neighbourhood of the world of seeded/C15-4/README.md (deterministic, no PRNG): the six valid
// multipliers x the node layout (3 + 4 as in the README, one node of 7, 4 + 3 with the departments swapped over the
// nodes, 2 + 5) x a-old as two 1-GPU jobs or one 2-GPU job x consolidating reclaim on / off x the reclaimer's size
// (2 GPUs as in the README, or 1 GPU: dept-a ends AT its fair share and the saturation rule does not apply).
// Names: satfam:<k>.
func satFamily() []*World {
	var out []*World
	for _, mult := range []string{"1.0", "1.2", "1.5", "2", "3", "5"} {
		for _, layout := range []string{"3+4", "7", "4+3", "2+5"} {
			for _, aold := range []string{"1+1", "2"} {
				for _, cons := range []bool{true, false} {
					for _, rsize := range []int64{2, 1} {
						out = append(out, satFamilyWorld(mult, layout, aold, cons, rsize))
					}
				}
			}
		}
	}
	return out
}

func satFamilyWorld(mult, layout, aold string, cons bool, rsize int64) *World {
	w := hierSaturation(mult)
	w.Cfg.ConsolidatingReclaim = cons
	bigNode, smallNode := "node-0", "node-1" // b-big-train (3 GPUs) / everything else (4 GPUs)
	switch layout {
	case "7":
		w.Nodes = []core.NodeSpec{gnode("node-0", 7, 64000)}
		smallNode = "node-0"
	case "4+3":
		// b-big-train shares the 4-GPU node with a-old-1; b-small-train and a-old-2 fill the 3-GPU node
		w.Nodes = []core.NodeSpec{gnode("node-0", 4, 64000), gnode("node-1", 3, 64000)}
	case "2+5":
		// b-small-train alone on the 2-GPU node
		w.Nodes = []core.NodeSpec{gnode("node-0", 2, 64000), gnode("node-1", 5, 64000)}
		bigNode, smallNode = "node-1", "node-1"
	}
	var jobs []Job
	for _, j := range w.Jobs {
		switch j.Name {
		case "b-big-train":
			j.Pods[0].Node = bigNode
		case "a-new-train":
			j.Pods[0].Gpus = rsize
		case "b-small-train":
			j.Pods[0].Node = smallNode
			if layout == "2+5" {
				j.Pods[0].Node = "node-0"
			}
		case "a-old-1":
			j.Pods[0].Node = smallNode
			if layout == "4+3" {
				j.Pods[0].Node = "node-0"
			}
			if aold == "2" {
				j.Pods[0].Gpus = 2
				if layout == "4+3" {
					// 2 GPUs do not fit next to b-big-train on the 4-GPU node: swap the roles of the nodes
					j.Pods[0].Node = "node-0"
				}
			}
		case "a-old-2":
			if aold == "2" {
				continue
			}
			j.Pods[0].Node = smallNode
		}
		jobs = append(jobs, j)
	}
	if layout == "4+3" && aold == "2" {
		// node-0 (4): a-old-1 (2) + b-small-train (2); node-1 (3): b-big-train (3)
		for i := range jobs {
			switch jobs[i].Name {
			case "b-big-train":
				jobs[i].Pods[0].Node = "node-1"
			case "b-small-train", "a-old-1":
				jobs[i].Pods[0].Node = "node-0"
			}
		}
	}
	w.Jobs = jobs
	return w
}

// hierFamily enumerates the neighbourhood of the world of seeded/C15-2 (deterministic, no PRNG): where the big
// pending job sits, its size, whether the reclaimer's department already runs something, how the big job gets in
// front (queue priority or age), the victim department's overshoot, a limit on the reclaimer's department, the
// size of the reclaimer, three departments, consolidating reclaim on/off.  Names: hierfam:<k>.
func hierFamily() []*World {
	var out []*World
	for _, where := range []string{"reclaimer-sibling", "victim-sibling", "reclaimer-queue"} {
		for _, bigSize := range []int64{2, 3, 4} {
			for _, ownRun := range []bool{true, false} {
				for _, front := range []string{"queue-priority", "age"} {
					for _, over := range []int{1, 2} {
						for _, variant := range []string{"plain", "dept-limit", "three-depts", "reclaimer-2gpu", "no-consreclaim"} {
							out = append(out, hierFamilyWorld(where, bigSize, ownRun, front, over, variant))
						}
					}
				}
			}
		}
	}
	return out
}

func hierFamilyWorld(where string, bigSize int64, ownRun bool, front string, over int, variant string) *World {
	// d2 deserves 2 and holds 2+over; d1 deserves 2 and holds 1 (ownRun) or 0
	gpus := int64(2 + over)
	if ownRun {
		gpus++
	}
	small := int64(1)
	if variant == "reclaimer-2gpu" {
		small = 2
		if over < 2 {
			over = 2
			gpus++
		}
	}
	w := &World{
		Depts: []Dept{{Name: "d1", Deserved: 2}, {Name: "d2", Deserved: 2}},
		Queues: []Queue{{Name: "a1", Parent: "d1", Deserved: 1, OverQuota: 1, Priority: 100},
			{Name: "a2", Parent: "d1", Deserved: 4, OverQuota: 1, Priority: 100},
			{Name: "b", Parent: "d2", Deserved: 2, OverQuota: 1, Priority: 100},
			{Name: "b2", Parent: "d2", Deserved: 4, OverQuota: 1, Priority: 100}},
		Cfg: Config{Actions: defaultActions, ConsolidatingReclaim: variant != "no-consreclaim", MaxConsolidation: -1},
	}
	if small == 2 {
		w.Queues[0].Deserved = 2
	}
	age := 100
	add := func(name, queue string, g int64, run bool) {
		node := ""
		if run {
			node = "node0"
		}
		w.Jobs = append(w.Jobs, sizedJob(name, queue, 50, age, g, node))
		age--
	}
	if ownRun {
		add("a2-run", "a2", 1, true)
	}
	for i := 0; i < 2+over; i++ {
		add(fmt.Sprintf("b-run%d", i), "b", 1, true)
	}
	if variant == "three-depts" {
		w.Depts = append(w.Depts, Dept{Name: "d3", Deserved: 2})
		w.Queues = append(w.Queues, Queue{Name: "c", Parent: "d3", Deserved: 2, OverQuota: 1, Priority: 100})
		add("c-run0", "c", 1, true)
		add("c-run1", "c", 1, true)
		gpus += 2
	}
	if variant == "dept-limit" {
		w.Depts[0].Limit = 3
	}
	bigQueue := map[string]string{"reclaimer-sibling": "a2", "victim-sibling": "b2", "reclaimer-queue": "a1"}[where]
	if front == "queue-priority" {
		for i := range w.Queues {
			if w.Queues[i].Name == bigQueue {
				w.Queues[i].Priority = 200
			}
		}
		add("big", bigQueue, bigSize, false)
		add("small", "a1", small, false)
	} else {
		// the big job is older than the small one (and than nothing else that is pending)
		add("big", bigQueue, bigSize, false)
		add("small", "a1", small, false)
	}
	if front == "age" && where == "reclaimer-queue" {
		// same queue: the older big job is simply first in the queue's FIFO order
		w.Queues[0].Deserved = 4
	}
	w.Nodes = []core.NodeSpec{gnode("node0", gpus, 64000)}
	return w
}
