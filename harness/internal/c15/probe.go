package c15

import (
	"encoding/json"
	"fmt"
	"os"
	"sort"
	"strings"
	"sync"

	"github.com/NVIDIA/KAI-scheduler/pkg/scheduler/log"

	"github.com/NVIDIA/KAI-scheduler/pkg/scheduler/api/pod_status"

	"kaiverif/internal/core"
	u "kaiverif/internal/util"
)

func unit(name string, node string) core.PodSpec {
	p := core.PodSpec{Name: name, Gpus: 1, Status: pod_status.Pending}
	if node != "" {
		p.Status, p.Node = pod_status.Running, node
	}
	return p
}

func unitJob(name, queue string, prio int32, age int, node string) Job {
	return Job{Name: name, Queue: queue, Priority: prio, MinMember: 1, AgeMinutes: age, Pods: []core.PodSpec{unit(name+"-0", node)}}
}

// sizedJob is a single-pod job asking for `gpus` whole GPUs.
func sizedJob(name, queue string, prio int32, age int, gpus int64, node string) Job {
	p := core.PodSpec{Name: name + "-0", Gpus: gpus, Status: pod_status.Pending}
	if node != "" {
		p.Status, p.Node = pod_status.Running, node
	}
	return Job{Name: name, Queue: queue, Priority: prio, MinMember: 1, AgeMinutes: age, Pods: []core.PodSpec{p}}
}

var defaultActions = []string{"allocate", "consolidation", "reclaim", "preempt", "stalegangeviction"}

// fixed corpus, run before the generated worlds
var corpusNames = []string{"drf-tie", "pingpong-m0.4", "pingpong-m1", "pingpong-rev-m0.4", "pingpong-rev-m1.5", "preempt-equal-priority", "preempt-equal-priority-older-pending", "gate-at-fair-share", "preempt-chain", "reclaim-unevicted-victim", "oversub-preempt",
	"lasso-consolidating-reclaim", "lasso-order-vs-gate"}
var corpusStream = map[string]string{"drf-tie": "class", "pingpong-m0.4": "class", "pingpong-m1": "class", "pingpong-rev-m0.4": "class", "pingpong-rev-m1.5": "class",
	"preempt-equal-priority": "class", "preempt-equal-priority-older-pending": "class", "gate-at-fair-share": "class",
	"preempt-chain": "class", "reclaim-unevicted-victim": "class", "oversub-preempt": "general",
	"lasso-consolidating-reclaim": "general", "lasso-order-vs-gate": "general"}

func gnode(name string, gpus, cpu int64) core.NodeSpec {
	return core.NodeSpec{Name: name, Cpu: cpu, Mem: 256 << 30, Gpus: gpus, Pods: 110}
}

// gpods builds n pods of a job; nodes[i] != "" makes pod i Running there.
func gpods(job string, n int, proto core.PodSpec, nodes ...string) []core.PodSpec {
	var ps []core.PodSpec
	for i := 0; i < n; i++ {
		p := proto
		p.Name = fmt.Sprintf("%s-%d", job, i)
		p.Status = pod_status.Pending
		if i < len(nodes) && nodes[i] != "" {
			p.Status, p.Node = pod_status.Running, nodes[i]
		}
		ps = append(ps, p)
	}
	return ps
}

// pingpongRev is pingpong with the pending job in the OLDER department d1 (the real solver
// re-places the victim before the reclaimer when the victim's department is ordered first,
// so only this orientation lets the eviction through when the multiplier is not clamped).
func pingpongRev(mult string) *World {
	w := pingpong(mult)
	w.Jobs = []Job{unitJob("ja1", "a1", 50, 10, "n1"), unitJob("jb1", "b1", 50, 9, ""), unitJob("ja2", "a2", 50, 8, "n1"), unitJob("jb2", "b2", 50, 7, "n1")}
	return w
}

func pingpong(mult string) *World {
	// the world of Proofs/ClosedSystem.v pp_params: two departments with fair share 1.5 each on 3 GPUs,
	// every leaf queue entitled to one job; with an (unclamped) multiplier 0.4 the pending job of the
	// department holding one GPU may take a GPU from the department holding two, and vice versa.
	return &World{
		Nodes: []core.NodeSpec{{Name: "n1", Cpu: 64000, Mem: 256 << 30, Gpus: 3, Pods: 110}},
		Depts: []Dept{{Name: "d1", Deserved: 1.5}, {Name: "d2", Deserved: 1.5}},
		Queues: []Queue{{Name: "a1", Parent: "d1", Deserved: 1, OverQuota: 1, Priority: 100}, {Name: "b1", Parent: "d1", Deserved: 1, OverQuota: 1, Priority: 100},
			{Name: "a2", Parent: "d2", Deserved: 1, OverQuota: 1, Priority: 100}, {Name: "b2", Parent: "d2", Deserved: 1, OverQuota: 1, Priority: 100}},
		Jobs: []Job{unitJob("ja1", "a1", 50, 10, "n1"), unitJob("jb1", "b1", 50, 9, "n1"), unitJob("ja2", "a2", 50, 8, "n1"), unitJob("jb2", "b2", 50, 7, "")},
		Cfg:  Config{Actions: defaultActions, ConsolidatingReclaim: true, MaxConsolidation: -1, Multiplier: mult},
	}
}

func scenario(name string) *World {
	if w := hierScenario(name); w != nil {
		return w
	}
	if w := sizedScenario(name); w != nil {
		return w
	}
	switch name {
	case "lasso-consolidating-reclaim":
		// KNOWN FINDING C15-rebound-pod-evicted-again, shape I (found by exploration, seed 7 general case 589):
		// reclaim for j3 evicts j1-0 from n2 and re-pipelines it to n1; the next allocate binds the recreated
		// pod to n2 again and it is evicted again, every cycle.
		return &World{
			Nodes: []core.NodeSpec{gnode("n1", 4, 4000), gnode("n2", 1, 4000)},
			Depts: []Dept{{Name: "d1", Deserved: 5}, {Name: "d2", Deserved: 2}},
			Queues: []Queue{{Name: "q1", Parent: "d1", Deserved: 0.5, OverQuota: 0, Priority: 200}, {Name: "q2", Parent: "d2", Deserved: 2, Limit: 4, OverQuota: 1, Priority: 100},
				{Name: "q3", Parent: "d1", Deserved: 1.5, Limit: 3, OverQuota: 1, Priority: 100}},
			Jobs: []Job{{Name: "j1", Queue: "q1", Priority: 60, MinMember: 2, AgeMinutes: 100, Pods: gpods("j1", 2, core.PodSpec{Gpus: 1}, "n2", "n1")},
				{Name: "j2", Queue: "q3", Priority: 60, MinMember: 1, AgeMinutes: 99, Pods: gpods("j2", 1, core.PodSpec{Gpus: 1, Cpu: 1000}, "n1")},
				{Name: "j3", Queue: "q3", Priority: 50, MinMember: 1, AgeMinutes: 98, Pods: gpods("j3", 1, core.PodSpec{Gpus: 1, Cpu: 4000})}},
			Cfg: Config{Actions: []string{"allocate", "reclaim", "preempt"}, ConsolidatingReclaim: true, MaxConsolidation: 0},
		}
	case "lasso-order-vs-gate":
		// KNOWN FINDING C15-rebound-pod-evicted-again, shape II (found by exploration, seed 1 generated case 222):
		// allocate serves q2 first and takes it above its fair share with j5-1; j1 (q1, within fair share)
		// reclaims j5-1; next cycle the same.
		return &World{
			Nodes:  []core.NodeSpec{gnode("n1", 1, 8000), gnode("n2", 2, 64000), gnode("n3", 4, 8000)},
			Depts:  []Dept{{Name: "d1", Deserved: -1}},
			Queues: []Queue{{Name: "q1", Parent: "d1", Deserved: 1.5, OverQuota: 0, Priority: 100}, {Name: "q2", Parent: "d1", Deserved: 0, OverQuota: 1, Priority: 100}},
			Jobs: []Job{{Name: "j1", Queue: "q1", Priority: 50, MinMember: 1, AgeMinutes: 100, Pods: gpods("j1", 1, core.PodSpec{Fraction: "0.5"})},
				{Name: "j2", Queue: "q1", Priority: 60, MinMember: 1, AgeMinutes: 99, Pods: gpods("j2", 2, core.PodSpec{Gpus: 1, Cpu: 2000})},
				{Name: "j3", Queue: "q1", Priority: 75, MinMember: 3, AgeMinutes: 98, Pods: gpods("j3", 3, core.PodSpec{Cpu: 4000}, "n3", "n2", "n2")},
				{Name: "j4", Queue: "q2", Priority: 60, MinMember: 1, AgeMinutes: 97, Pods: gpods("j4", 1, core.PodSpec{Gpus: 2}, "n3")},
				{Name: "j5", Queue: "q2", Priority: 50, MinMember: 1, AgeMinutes: 96, Pods: gpods("j5", 3, core.PodSpec{Gpus: 1}, "n1", "n3")},
				{Name: "j6", Queue: "q2", Priority: 60, MinMember: 2, AgeMinutes: 95, Pods: gpods("j6", 2, core.PodSpec{Gpus: 1, Cpu: 2000})},
				{Name: "j7", Queue: "q1", Priority: 125, MinMember: 1, AgeMinutes: 94, Pods: gpods("j7", 1, core.PodSpec{Gpus: 1}, "n2")}},
			Cfg: Config{Actions: defaultActions, ConsolidatingReclaim: true, MaxConsolidation: 1, Multiplier: "2"},
		}
	case "pingpong-m0.4":
		return pingpong("0.4")
	case "pingpong-m1":
		return pingpong("1.0")
	case "pingpong-rev-m0.4":
		return pingpongRev("0.4")
	case "pingpong-rev-m1.5":
		return pingpongRev("1.5")
	case "preempt-equal-priority":
		// one queue, one GPU: a running job and a pending job of the SAME priority (no preemption allowed)
		return &World{
			Nodes:  []core.NodeSpec{{Name: "n1", Cpu: 64000, Mem: 256 << 30, Gpus: 1, Pods: 110}},
			Depts:  []Dept{{Name: "d1", Deserved: -1}},
			Queues: []Queue{{Name: "q1", Parent: "d1", Deserved: 1, OverQuota: 1, Priority: 100}},
			Jobs:   []Job{unitJob("a1", "q1", 50, 10, "n1"), unitJob("a2", "q1", 50, 9, "")},
			Cfg:    Config{Actions: defaultActions, ConsolidatingReclaim: true, MaxConsolidation: -1},
		}
	case "preempt-equal-priority-older-pending":
		// as above, but the OLDER job is the pending one (it is first in the queue's FIFO order, so a
		// preempt filter that lets equal priorities through evicts the younger running job)
		return &World{
			Nodes:  []core.NodeSpec{{Name: "n1", Cpu: 64000, Mem: 256 << 30, Gpus: 1, Pods: 110}},
			Depts:  []Dept{{Name: "d1", Deserved: -1}},
			Queues: []Queue{{Name: "q1", Parent: "d1", Deserved: 1, OverQuota: 1, Priority: 100}},
			Jobs:   []Job{unitJob("a1", "q1", 50, 10, ""), unitJob("a2", "q1", 50, 9, "n1")},
			Cfg:    Config{Actions: defaultActions, ConsolidatingReclaim: true, MaxConsolidation: -1},
		}
	case "gate-at-fair-share":
		// q1 is AT its fair share (1 of 1) with a pending job, q2 is far above its fair share (4 of 1):
		// CanReclaimResources must refuse (q1 would exceed its fair share) although both strategies and
		// the saturation rule (2/1 < 3/1) would let the eviction through
		return &World{
			Nodes:  []core.NodeSpec{{Name: "n1", Cpu: 64000, Mem: 256 << 30, Gpus: 5, Pods: 110}},
			Depts:  []Dept{{Name: "d1", Deserved: -1}},
			Queues: []Queue{{Name: "q1", Parent: "d1", Deserved: 1, OverQuota: 0, Priority: 100}, {Name: "q2", Parent: "d1", Deserved: 1, OverQuota: 0, Priority: 100}},
			Jobs: []Job{unitJob("a1", "q1", 50, 10, "n1"), unitJob("a2", "q1", 50, 9, ""), unitJob("b1", "q2", 50, 8, "n1"), unitJob("b2", "q2", 50, 7, "n1"),
				unitJob("b3", "q2", 50, 6, "n1"), unitJob("b4", "q2", 50, 5, "n1")},
			Cfg: Config{Actions: defaultActions, ConsolidatingReclaim: true, MaxConsolidation: -1},
		}
	case "reclaim-unevicted-victim":
		// KNOWN FINDING C15-reclaim-gate-counts-unevicted-victims (found by the refinement replay, seed 1
		// generated case 6661): AllowConsolidatingReclaim=false, multiplier 1.5. j2 (q3 in d1) reclaims j1
		// (q4 in d2) although d1 ends at 3 of fair share 2.5 and d2 at 0 of 0.5 (saturation rule: 1.2*1.5 >= 0
		// refuses). The solver's second scenario also "evicts" j3 (q1 in d1), re-places it on the same node
		// (unevict), and the validator still counts j3 as reclaimed, so d1 looks like 2 of 2.5.
		return &World{
			Nodes: []core.NodeSpec{{Name: "n1", Cpu: 64000, Mem: 256 << 30, Gpus: 3, Pods: 110}},
			Depts: []Dept{{Name: "d1", Deserved: 2.5}, {Name: "d2", Deserved: 0.5}},
			Queues: []Queue{{Name: "q1", Parent: "d1", Deserved: 0.5, OverQuota: 1, Priority: 100}, {Name: "q2", Parent: "d2", Deserved: 1, OverQuota: 3, Priority: 100},
				{Name: "q3", Parent: "d1", Deserved: 0, OverQuota: 3, Priority: 100}, {Name: "q4", Parent: "d2", Deserved: 1, OverQuota: 0, Priority: 100}},
			Jobs: []Job{unitJob("j1", "q4", 50, 100, "n1"), unitJob("j2", "q3", 50, 99, ""), unitJob("j3", "q1", 50, 98, "n1"),
				unitJob("j4", "q1", 75, 97, "n1"), unitJob("j5", "q1", 50, 96, "")},
			Cfg: Config{Actions: []string{"allocate", "reclaim", "preempt"}, ConsolidatingReclaim: false, MaxConsolidation: 0, Multiplier: "1.5"},
		}
	case "preempt-chain":
		// priorities 50 < 60 < 75 in one queue with two GPUs
		return &World{
			Nodes:  []core.NodeSpec{{Name: "n1", Cpu: 64000, Mem: 256 << 30, Gpus: 2, Pods: 110}},
			Depts:  []Dept{{Name: "d1", Deserved: -1}},
			Queues: []Queue{{Name: "q1", Parent: "d1", Deserved: 2, OverQuota: 1, Priority: 100}},
			Jobs: []Job{unitJob("a1", "q1", 50, 10, "n1"), unitJob("a2", "q1", 60, 9, "n1"), unitJob("a3", "q1", 75, 8, ""),
				unitJob("a4", "q1", 75, 7, "")},
			Cfg: Config{Actions: defaultActions, ConsolidatingReclaim: false, MaxConsolidation: 0},
		}
	case "oversub-preempt":
		// over-subscribed deserved quotas: a preemption inside q1 frees a GPU that the next cycle hands to q2
		return &World{
			Nodes:  []core.NodeSpec{{Name: "n1", Cpu: 64000, Mem: 256 << 30, Gpus: 2, Pods: 110}},
			Depts:  []Dept{{Name: "d1", Deserved: -1}},
			Queues: []Queue{{Name: "q1", Parent: "d1", Deserved: 2, OverQuota: 1, Priority: 200}, {Name: "q2", Parent: "d1", Deserved: 2, OverQuota: 0, Priority: 200}},
			Jobs: []Job{unitJob("j1", "q1", 75, 100, "n1"), unitJob("j2", "q1", 50, 99, "n1"), unitJob("j4", "q2", 50, 97, ""),
				unitJob("j6", "q1", 75, 95, ""), unitJob("j7", "q2", 50, 94, "")},
			Cfg: Config{Actions: defaultActions, ConsolidatingReclaim: true, MaxConsolidation: -1},
		}
	case "drf-tie":
		return &World{
			Nodes:  []core.NodeSpec{{Name: "n1", Cpu: 64000, Mem: 256 << 30, Gpus: 4, Pods: 110}},
			Depts:  []Dept{{Name: "d1", Deserved: -1}},
			Queues: []Queue{{Name: "q1", Parent: "d1", OverQuota: 3, Priority: 100}, {Name: "q2", Parent: "d1", OverQuota: 1, Priority: 100}},
			Jobs: []Job{unitJob("a1", "q1", 50, 10, "n1"), unitJob("a2", "q1", 50, 9, "n1"), unitJob("a3", "q1", 50, 8, ""),
				unitJob("b1", "q2", 50, 7, "n1"), unitJob("b2", "q2", 50, 6, "n1")},
			Cfg: Config{Actions: defaultActions, ConsolidatingReclaim: true, MaxConsolidation: -1},
		}
	}
	return nil
}

// GenCase rebuilds the i-th generated world of RunAll for a seed.
func GenCase(seed uint64, i int) (string, *World) {
	r := u.NewRng(seed).Fork(uint64(i))
	switch i % 4 {
	case 2:
		return "general", GenGeneral(r)
	case 3:
		return "general(class-shaped;queue-priorities-or-oversubscribed-quotas)", GenClass(r, false)
	}
	return "class", GenClass(r, true)
}

func Probe(name string) string {
	if v := os.Getenv("C15_LOG"); v != "" {
		lvl := 0
		fmt.Sscan(v, &lvl)
		_ = log.InitLoggers(lvl)
	}
	w := scenario(name)
	var seed uint64
	var idx int
	if n, _ := fmt.Sscanf(name, "gen:%d:%d", &seed, &idx); n == 2 {
		_, w = GenCase(seed, idx)
	}
	if n, _ := fmt.Sscanf(name, "hier:%d:%d", &seed, &idx); n == 2 {
		w = GenHier(u.NewRng(seed ^ hierSalt).Fork(uint64(idx)))
	}
	if n, _ := fmt.Sscanf(name, "sized:%d:%d", &seed, &idx); n == 2 {
		w = GenSized(u.NewRng(seed ^ sizedSalt).Fork(uint64(idx)))
	}
	if strings.HasPrefix(name, "file:") {
		// a world written as JSON (the World struct), e.g. the "world" of an entry of .work/C15-known.json
		data, err := os.ReadFile(strings.TrimPrefix(name, "file:"))
		if err != nil {
			return err.Error() + "\n"
		}
		w = &World{}
		if err := json.Unmarshal(data, w); err != nil {
			return err.Error() + "\n"
		}
	}
	if strings.HasPrefix(name, "dump:") {
		w = scenario(strings.TrimPrefix(name, "dump:"))
	}
	if w == nil {
		return "unknown scenario\n"
	}
	if strings.HasPrefix(name, "dump:") || os.Getenv("C15_DUMP") != "" {
		data, _ := json.MarshalIndent(w, "", " ")
		return string(data) + "\n"
	}
	if v := os.Getenv("C15_REPEAT"); v != "" {
		// run the world several times from its initial state: how often does it end in a lasso?
		k, lassos := 0, 0
		fmt.Sscan(v, &k)
		for i := 0; i < k; i++ {
			if Run(w.Clone(), 12).LassoFrom >= 0 {
				lassos++
			}
		}
		return fmt.Sprintf("%s\nlasso in %d of %d runs\n", Describe(w), lassos, k)
	}
	w0 := w.Clone()
	tr := Run(w, 12)
	if os.Getenv("C15_ORDER") != "" {
		// the pop sequences of the pending jobs over the push orders, at the state before every cycle
		wi := w0.Clone()
		for c := range tr.Cycles {
			fmt.Printf("  order c%d: %v\n", c, popSequences(Build(wi)))
			wi.Apply(tr.Cycles[c].Calls)
		}
	}
	out := fmt.Sprintf("%s\n%s", Describe(w), tr.Dump())
	if tr.LassoFrom >= 0 {
		out += fmt.Sprintf("  push-order dependence of JobsOrderByQueues in the loop: %q\n  lasso shape: %s\n", orderDependence(w0, tr), lassoShape(tr))
	}
	return out
}

// Explore runs n random worlds of a stream (concurrently) and prints summary statistics (debug aid).
func Explore(stream string, seed uint64, n int, verbose bool) string {
	root := u.NewRng(seed)
	if stream == "hier" || stream == "hiersat" {
		root = u.NewRng(seed ^ hierSalt)
	}
	if stream == "sized" {
		root = u.NewRng(seed ^ sizedSalt)
	}
	type res struct {
		out string
		st  map[string]int
	}
	var fam []*World
	if stream == "hierfam" {
		fam = hierFamily()
		n = len(fam)
	}
	if stream == "satfam" {
		for _, name := range hierCorpus {
			if strings.HasPrefix(name, "hier-saturation") {
				fam = append(fam, scenario(name))
			}
		}
		fam = append(fam, satFamily()...)
		n = len(fam)
	}
	if stream == "sizedfam" {
		for _, name := range sizedCorpus {
			fam = append(fam, scenario(name))
		}
		fam = append(fam, sizedFamily()...)
		n = len(fam)
	}
	results := make([]res, n)
	var wg sync.WaitGroup
	sem := make(chan struct{}, workers())
	for i := 0; i < n; i++ {
		wg.Add(1)
		sem <- struct{}{}
		go func(i int) {
			defer wg.Done()
			defer func() { <-sem }()
			results[i] = func() res {
				out := ""
				st := map[string]int{}
				r := root.Fork(uint64(i))
				var w *World
				if stream == "hierfam" || stream == "sizedfam" || stream == "satfam" {
					w = fam[i]
				} else if stream == "sized" {
					w = GenSized(r)
				} else if stream == "class" {
					w = GenClass(r, true)
				} else if stream == "class-shaped" {
					w = GenClass(r, false)
				} else if stream == "hier" {
					w = GenHier(r)
				} else if stream == "hiersat" {
					w = genHierSat(r)
				} else {
					w = GenGeneral(r)
				}
				w0 := w.Clone()
				tr := Run(w, 12)
				st[fmt.Sprintf("evicting-cycles=%d", tr.EvictingCycles)]++
				st[fmt.Sprintf("cycles=%d", len(tr.Cycles))]++
				st["multiplier m="+multName(w0.Cfg.Multiplier)]++
				for _, c := range tr.Cycles {
					for _, o := range c.Sats {
						if o.GateDisagrees() {
							st["saturation:REAL-GATE-ADMITS-WHAT-THE-RULE-REFUSES"]++
						} else if o.Exact {
							st[fmt.Sprintf("saturation:m=%s:rule-admits=%v:real-gate-admits=%v", multName(o.Mult), o.RefAdmits, o.RealAdmits)]++
							if verbose && !o.RealAdmits {
								out += fmt.Sprintf("REAL-GATE-RECALL-REFUSES case %d: %s\n%s", i, Describe(w0), tr.Dump())
							}
						} else {
							st["saturation:not-compared"]++
						}
					}
				}
				if tr.LassoFrom >= 0 {
					st["LASSO"]++
					tags := lassoTags(w0, tr) + " " + lassoShape(tr)
					st["LASSO"+tags]++
					out += fmt.Sprintf("LASSO case %d:%s %s\n%s", i, tags, Describe(w0), tr.Dump())
				}
				// pipelined in cycle c but not bound in cycle c+1
				notHonoured := false
				for c := 0; c+1 < len(tr.Cycles); c++ {
					bound := map[string]bool{}
					for _, cl := range tr.Cycles[c+1].Calls {
						if cl.Kind == "bind" {
							bound[cl.Pod] = true
						}
					}
					for _, cl := range tr.Cycles[c].Calls {
						if cl.Kind == "pipe" && !bound[cl.Pod] {
							notHonoured = true
						}
					}
				}
				for _, c := range tr.Cycles {
					if c.Panic != "" {
						st["PANIC"]++
					}
					st["size:partial-placement"] += c.Partial
					for _, o := range c.Sizes {
						tag := "consistent"
						if o.Undercounted() {
							tag = "UNDERCOUNTED"
							out += fmt.Sprintf("UNDERCOUNTED case %d: %s\n  %s\n", i, Describe(w0), sizesDesc([]SizeObs{o}))
						} else if o.Overcounted() {
							tag = "OVERCOUNTED"
							out += fmt.Sprintf("OVERCOUNTED case %d: %s\n  %s\n", i, Describe(w0), sizesDesc([]SizeObs{o}))
						} else if !o.Homogeneous {
							tag = "not-undercounted(other-device-memory)"
						}
						ev := ""
						if o.Evicting {
							ev = ":evicting"
						}
						st["size:"+o.Kind+":"+o.Action+ev+":"+tag]++
					}
					for _, cl := range c.Calls {
						st["call:"+cl.Kind+":"+cl.Action]++
					}
				}
				if notHonoured {
					st["pipelined-not-bound-next-cycle"]++
					if verbose {
						out += fmt.Sprintf("NOT-HONOURED case %d: %s\n%s", i, Describe(w0), tr.Dump())
					}
				}
				return res{out, st}
			}()
		}(i)
	}
	wg.Wait()
	out := ""
	st := map[string]int{}
	for _, r := range results {
		out += r.out
		for k, v := range r.st {
			st[k] += v
		}
	}
	keys := []string{}
	for k := range st {
		keys = append(keys, k)
	}
	sort.Strings(keys)
	for _, k := range keys {
		out += fmt.Sprintf("%-40s %d\n", k, st[k])
	}
	return out
}

// lassoShape names the form of a lasso from the committed calls inside the loop (exploration aid for classifying lassos
// against known finding C15-rebound-pod-evicted-again): REBOUND-SAME-CYCLE = a pod is bound by allocate and evicted
// again in the same cycle (the period-1 form of the finding); MOVED-BACK = a pod is evicted and pipelined (moved) in
// one cycle and bound again in a later cycle of the loop (the period-2 form); OTHER = neither.
func lassoShape(tr *Trace) string {
	same, moved := false, false
	evictedEarlier := map[string]bool{}
	for c := tr.LassoFrom; c <= tr.LassoTo && c < len(tr.Cycles); c++ {
		bound := map[string]bool{}
		for _, cl := range tr.Cycles[c].Calls {
			switch cl.Kind {
			case "bind":
				bound[cl.Pod] = true
				if evictedEarlier[cl.Pod] {
					moved = true
				}
			case "evict":
				if bound[cl.Pod] {
					same = true
				}
			}
		}
		for _, cl := range tr.Cycles[c].Calls {
			if cl.Kind == "evict" {
				evictedEarlier[cl.Pod] = true
			}
		}
	}
	switch {
	case same:
		return "REBOUND-SAME-CYCLE"
	case moved:
		return "MOVED-BACK"
	}
	return "OTHER"
}
