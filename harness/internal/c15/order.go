package c15

import (
	"fmt"
	"sort"
	"strings"

	"github.com/NVIDIA/KAI-scheduler/pkg/scheduler/actions/utils"
	"github.com/NVIDIA/KAI-scheduler/pkg/scheduler/api/pod_status"
	"github.com/NVIDIA/KAI-scheduler/pkg/scheduler/api/podgroup_info"
	"github.com/NVIDIA/KAI-scheduler/pkg/scheduler/scheduler_util"

	"kaiverif/internal/core"
	u "kaiverif/internal/util"
)

// Push-order dependence of the REAL utils.JobsOrderByQueues (the mechanism of known finding
// C15-job-order-depends-on-map-iteration), decided on the mechanism itself instead of on a sample of runs:
// InitializeWithJobs ranges over a Go map and calls the exported PushJob for every job; the harness builds the
// structure itself on a real session of the state in question, pushes the SAME pending jobs through PushJob in
// several different orders (every job first once, the reverses, fixed pseudo-random shuffles - the orders are a
// function of the job names only) and pops the structure empty.  If two push orders give different pop sequences the
// state is order dependent: what allocate / a simulation does from this state depends on Go map iteration order.
// The pops are made without allocating anything in between (the queue shares stay those of the state), so the
// sequences compare the order function, not the effect of allocations.

func pushOrders(names []string) [][]string {
	sort.Strings(names)
	var out [][]string
	n := len(names)
	for i := 0; i < n; i++ {
		o := []string{names[i]}
		for k, x := range names {
			if k != i {
				o = append(o, x)
			}
		}
		out = append(out, o)
		r := make([]string, n)
		for k := range o {
			r[n-1-k] = o[k]
		}
		out = append(out, r)
	}
	rng := u.NewRng(0x6f72646572)
	for s := 0; s < 24; s++ {
		o := append([]string{}, names...)
		u.Shuffle(rng.Fork(uint64(s)), o)
		out = append(out, o)
	}
	return out
}

// popSequences returns the distinct pop sequences of the pending jobs of the session's state over the push orders.
func popSequences(b *Built) []string {
	var names []string
	byName := map[string]*podgroup_info.PodGroupInfo{}
	for _, j := range b.Jobs {
		if len(j.PodStatusIndex[pod_status.Pending]) == 0 || !j.IsReadyForScheduling() {
			continue
		}
		names = append(names, j.Name)
		byName[j.Name] = j
	}
	if len(names) < 2 {
		return nil
	}
	seen := map[string]bool{}
	var seqs []string
	for _, o := range pushOrders(names) {
		jo := utils.NewJobsOrderByQueues(b.Ssn, utils.JobsOrderInitOptions{FilterNonPending: true, FilterUnready: true,
			MaxJobsQueueDepth: scheduler_util.QueueCapacityInfinite})
		for _, n := range o {
			jo.PushJob(byName[n])
		}
		var pops []string
		for guard := 0; !jo.IsEmpty() && guard < 4*len(names); guard++ {
			j := jo.PopNextJob()
			if j == nil {
				break
			}
			pops = append(pops, j.Name)
		}
		s := strings.Join(pops, ">")
		if !seen[s] {
			seen[s] = true
			seqs = append(seqs, s)
		}
	}
	sort.Strings(seqs)
	return seqs
}

// orderDependence examines the states of the lasso loop: the state before every cycle of the loop AND the state
// after every committed eviction inside those cycles (what the solver's simulation looked at: binds and nominations
// so far count as allocated, the victims are pending).  "" when the pop order of the pending jobs is the same for
// all push orders in all of them, else a description of the first order-dependent state.
func orderDependence(w0 *World, tr *Trace) string {
	if tr.LassoFrom < 0 {
		return ""
	}
	w := w0.Clone()
	for c := 0; c <= tr.LassoTo && c < len(tr.Cycles); c++ {
		if c >= tr.LassoFrom {
			if seqs := popSequences(Build(w)); len(seqs) > 1 {
				return fmt.Sprintf("c%d: %d pop orders, e.g. %s | %s", c, len(seqs), seqs[0], seqs[1])
			}
			wi := w.Clone()
			idx := map[string]*podSpecRef{}
			for ji := range wi.Jobs {
				for pi := range wi.Jobs[ji].Pods {
					idx[wi.Jobs[ji].Pods[pi].Name] = &podSpecRef{&wi.Jobs[ji].Pods[pi]}
				}
			}
			calls := tr.Cycles[c].Calls
			for k, cl := range calls {
				p := idx[cl.Pod]
				if p == nil {
					continue
				}
				switch cl.Kind {
				case "bind", "pipe":
					p.p.Status, p.p.Node, p.p.Groups = pod_status.Running, cl.Node, append([]string{}, cl.Groups...)
				case "evict":
					p.p.Status, p.p.Node, p.p.Groups = pod_status.Pending, "", nil
					if k+1 < len(calls) && calls[k+1].Kind == "evict" && calls[k+1].Preemptor == cl.Preemptor {
						continue // the same commit goes on evicting
					}
					if seqs := popSequences(Build(wi)); len(seqs) > 1 {
						return fmt.Sprintf("c%d after evict(%s): %d pop orders, e.g. %s | %s", c, cl.Pod, len(seqs), seqs[0], seqs[1])
					}
				}
			}
		}
		w.Apply(tr.Cycles[c].Calls)
	}
	return ""
}

type podSpecRef struct{ p *core.PodSpec }

// wholeOnly: every pod asks for whole GPUs / cpu only (exactShares is valid for such worlds).
func wholeOnly(w *World) bool {
	for _, j := range w.Jobs {
		for _, p := range j.Pods {
			if p.Fraction != "" || p.GpuMemory > 0 || p.Mig > 0 {
				return false
			}
		}
	}
	return true
}

// fairShareVariants calls the REAL resource_division.SetResourcesShare (through exactShares) `times` times on the same
// queue attributes and returns the distinct GPU fair-share vectors.  The function is pure except for the order in
// which it ranges over its queue map: calcShareWeights sums the normalised weights in map order (a float64 sum that
// is 1 or 1-ulp depending on the order), a queue's share of the round is weight/sum * amount, and the test
// `requested < fairShare` that decides whether another round is run flips on that ulp; the extra round hands the
// rounded-down remainder to ANOTHER queue.  More than one vector = the fair shares of this state are not reproducible.
func fairShareVariants(w *World, b *Built, times int) []string {
	seen := map[string]bool{}
	var out []string
	for i := 0; i < times; i++ {
		ex := exactShares(w, b)
		var ks []string
		for q := range ex {
			ks = append(ks, q)
		}
		sort.Strings(ks)
		var parts []string
		for _, q := range ks {
			parts = append(parts, fmt.Sprintf("%s=%g", q, ex[q].Fair))
		}
		s := strings.Join(parts, ",")
		if !seen[s] {
			seen[s] = true
			out = append(out, s)
		}
	}
	sort.Strings(out)
	return out
}

const fairShareSamples = 32

// fairShareDependence: "" or the first state of the lasso loop whose fair shares are not reproducible.
func fairShareDependence(w0 *World, tr *Trace) string {
	if tr.LassoFrom < 0 || !wholeOnly(w0) {
		return ""
	}
	w := w0.Clone()
	for c := 0; c <= tr.LassoTo && c < len(tr.Cycles); c++ {
		if c >= tr.LassoFrom {
			if v := fairShareVariants(w, Build(w), fairShareSamples); len(v) > 1 {
				return fmt.Sprintf("c%d: %s | %s", c, v[0], v[1])
			}
		}
		w.Apply(tr.Cycles[c].Calls)
	}
	return ""
}
