package c15

import (
	"math"

	"github.com/NVIDIA/KAI-scheduler/pkg/scheduler/api/common_info"
	"github.com/NVIDIA/KAI-scheduler/pkg/scheduler/api/pod_status"
	"github.com/NVIDIA/KAI-scheduler/pkg/scheduler/api/resource_info"
	"github.com/NVIDIA/KAI-scheduler/pkg/scheduler/plugins/proportion/reclaimable"
	"github.com/NVIDIA/KAI-scheduler/pkg/scheduler/plugins/proportion/resource_division"
	rs "github.com/NVIDIA/KAI-scheduler/pkg/scheduler/plugins/proportion/resource_share"
)

// ExactShare is one queue's GPU share as the proportion plugin holds it (float64, not
// truncated). The session getters (Session.QueueFairShare / QueueDeservedResources)
// go through resource_info.NewResourceRequirements, which truncates values >= 1 to
// whole GPUs, so the exact values are recomputed here with the REAL
// resource_division.SetResourcesShare on queue attributes built the way
// proportion.createQueueResourceAttrs / updateQueuesCurrentResourceUsage /
// setFairShareForQueues build them (those are unexported), and cross-checked
// against the truncated session values on every cycle.
type ExactShare struct {
	Deserved, Fair, Request, Allocated float64
}

// exactShares recomputes the GPU shares of every queue for the world's current state.
// Only valid for worlds whose pods request whole GPUs or nothing else that counts
// (class stream): request of a pod = its GPU count.
func exactShares(w *World, b *Built) map[string]ExactShare {
	ex, _ := exactSharesAttrs(w, b)
	return ex
}

// exactSharesAttrs also returns the queue attributes themselves (fair shares set, allocated =
// the world's running pods), for replaying the real validator on them.
func exactSharesAttrs(w *World, b *Built) (map[string]ExactShare, map[common_info.QueueID]*rs.QueueAttributes) {
	attrs := map[common_info.QueueID]*rs.QueueAttributes{}
	for id, qi := range b.Queues {
		qa := &rs.QueueAttributes{UID: qi.UID, Name: qi.Name, ParentQueue: qi.ParentQueue, ChildQueues: qi.ChildQueues,
			CreationTimestamp: qi.CreationTimestamp, Priority: qi.Priority}
		qa.SetQuotaResources(rs.CpuResource, qi.Resources.CPU.Quota, qi.Resources.CPU.Limit, qi.Resources.CPU.OverQuotaWeight)
		qa.SetQuotaResources(rs.MemoryResource, qi.Resources.Memory.Quota, qi.Resources.Memory.Limit, qi.Resources.Memory.OverQuotaWeight)
		qa.SetQuotaResources(rs.GpuResource, qi.Resources.GPU.Quota, qi.Resources.GPU.Limit, qi.Resources.GPU.OverQuotaWeight)
		attrs[id] = qa
	}
	total := rs.EmptyResourceQuantities()
	for _, n := range w.Nodes {
		total.Add(rs.NewResourceQuantities(float64(n.Cpu), float64(n.Mem), float64(n.Gpus)))
	}
	for _, j := range w.Jobs {
		for _, p := range j.Pods {
			req := rs.NewResourceQuantities(float64(p.Cpu), float64(p.Mem), float64(p.Gpus))
			alloc := pod_status.AllocatedStatus(p.Status)
			if !alloc && p.Status != pod_status.Pending {
				continue
			}
			for qa, ok := attrs[common_info.QueueID(j.Queue)]; ok; qa, ok = attrs[qa.ParentQueue] {
				for _, r := range rs.AllResources {
					sh := qa.ResourceShare(r)
					sh.Request += req[r]
					if alloc {
						sh.Allocated += req[r]
					}
				}
			}
		}
	}
	var divide func(tot rs.ResourceQuantities, qs map[common_info.QueueID]*rs.QueueAttributes)
	divide = func(tot rs.ResourceQuantities, qs map[common_info.QueueID]*rs.QueueAttributes) {
		if len(qs) == 0 {
			return
		}
		resource_division.SetResourcesShare(tot, 1.0, qs)
		for _, q := range qs {
			ch := map[common_info.QueueID]*rs.QueueAttributes{}
			for _, c := range q.ChildQueues {
				if a, ok := attrs[c]; ok {
					ch[c] = a
				}
			}
			divide(q.GetFairShare(), ch)
		}
	}
	top := map[common_info.QueueID]*rs.QueueAttributes{}
	for id, q := range attrs {
		if q.ParentQueue == "" {
			top[id] = q
		}
	}
	divide(total, top)
	out := map[string]ExactShare{}
	for id, q := range attrs {
		out[string(id)] = ExactShare{Deserved: q.GPU.Deserved, Fair: q.GPU.FairShare, Request: q.GPU.Request, Allocated: q.GPU.Allocated}
	}
	return out, attrs
}

// gateOnActualVictims replays the reclaim decisions of one cycle (class stream: one-GPU pods)
// through the REAL gate - reclaimable.New(m).CanReclaimResources and .Reclaimable - with the
// victims the action actually evicted, on the queue attributes as they stand at that moment
// (binds and pipelines of the cycle counted as allocated). It returns the number of committed
// reclaim evictions that the real gate refuses for the actual victim set.
func gateOnActualVictims(attrs map[common_info.QueueID]*rs.QueueAttributes, jobQueue map[string]string, podJob map[string]string,
	mult float64, calls []Call) (refused int) {
	add := func(queue string, d float64) {
		for qa, ok := attrs[common_info.QueueID(queue)]; ok; qa, ok = attrs[qa.ParentQueue] {
			qa.GPU.Allocated += d
		}
	}
	if mult < 1 {
		mult = 1 // proportion.New
	}
	r := reclaimable.New(mult)
	for _, c := range calls {
		q := jobQueue[podJob[c.Pod]]
		switch c.Kind {
		case "bind", "pipe":
			add(q, 1)
		case "evict":
			if c.Action == "reclaim" {
				info := &reclaimable.ReclaimerInfo{Name: c.Preemptor, Namespace: "ns", Queue: common_info.QueueID(jobQueue[c.Preemptor]),
					RequiredResources: resource_info.NewResource(0, 0, 1), IsPreemptable: true}
				victims := map[common_info.QueueID][]*resource_info.Resource{common_info.QueueID(q): {resource_info.NewResource(0, 0, 1)}}
				sim := map[common_info.QueueID]*rs.QueueAttributes{}
				for id, qa := range attrs {
					sim[id] = qa.Clone()
				}
				if !r.CanReclaimResources(sim, info) || !r.Reclaimable(sim, info, victims) {
					refused++
				}
			}
			add(q, -1)
		}
	}
	return refused
}

// truncated is what resource_info.NewResourceRequirements does to a GPU quantity.
func truncated(v float64) float64 {
	if v >= 1 {
		return float64(int64(v))
	}
	return v
}

// sharesConsistent compares the recomputed shares with what the session exposes.
func sharesConsistent(ex map[string]ExactShare, ss []Share) bool {
	for _, s := range ss {
		e, ok := ex[s.Queue]
		if !ok {
			return false
		}
		if truncated(e.Fair) != s.Fair || truncated(e.Allocated) != s.Allocated {
			return false
		}
		if e.Deserved >= 0 && truncated(e.Deserved) != s.Deserved {
			return false
		}
	}
	return true
}

// scaleOf returns the smallest k <= 20 such that every value times 2^k is an integer; ok=false if none.
func scaleOf(vals []float64) (k int, ok bool) {
	for k = 0; k <= 20; k++ {
		f := math.Ldexp(1, k)
		all := true
		for _, v := range vals {
			x := v * f
			if x != math.Trunc(x) || math.Abs(x) > 1e15 {
				all = false
				break
			}
		}
		if all {
			return k, true
		}
	}
	return 0, false
}
