package c15

import (
	"fmt"
	"strconv"

	"github.com/NVIDIA/KAI-scheduler/pkg/scheduler/api/pod_status"

	"kaiverif/internal/core"
	u "kaiverif/internal/util"
)

// Sized worlds (stream "sized"): jobs whose SIZE is not a number of whole GPUs - gpu-memory requests (on devices
// of the default memory 100 and of realistic memories), gpu-fraction requests, both with gpu-fraction-num-devices
// 2-3 - against ELASTIC running jobs (minAvailable < pods: the reclaim simulation re-places only minAvailable pods
// of a victim job), in queues with deserved quota / over-quota weight 0 / fair share at the boundary.  The question
// these worlds ask: is the size by which the scheduler COUNTS a pending job (podgroup_info.
// GetTasksToAllocateInitResource: reclaim gate, strategies, saturation, queue order) the size the job is CHARGED once
// it runs (AcceptedResource)?  Model: coq/Model/ClosedSystem.v size_consistent / never_undercounted.
//
// All pods are built through core.PodSpec -> the real pod_info.NewTaskInfo (annotations gpu-memory, gpu-fraction,
// gpu-fraction-num-devices), running shared pods carry their GPU groups.

// floor100 is node_info.getNodeGpuMemory's rounding of the nvidia.com/gpu.memory label.
func floor100(v int64) int64 { return v - v%100 }

// defaultMem: the device memory test_utils' fake nodes report (nodes_fake: label nvidia.com/gpu.memory = node_info.DefaultGpuMemory).
// A node WITHOUT the label cannot take gpu-memory requests at all (predicate "the gpu memory count on the node was not synced yet").
const defaultMem = 100

func devMemory(label int64) int64 {
	if label <= 0 {
		return defaultMem
	}
	return floor100(label)
}

func memLabel(label int64) int64 {
	if label <= 0 {
		return defaultMem
	}
	return label
}

// sharedPod: a pod asking for pct/100 of each of dev devices, as a gpu-memory request ("mem": pct percent of a device of
// memory devMem) or as a gpu-fraction request ("frac").
func sharedPod(kind string, pct, dev, devMem int64) core.PodSpec {
	p := core.PodSpec{}
	if kind == "mem" {
		p.GpuMemory = pct * devMem / 100
	} else {
		p.Fraction = strconv.FormatFloat(float64(pct)/100, 'f', -1, 64)
	}
	if dev > 1 {
		p.NumDev = dev
	}
	return p
}

type sizedSpec struct {
	kind               string // mem | frac
	dev                int64  // devices per pod = GPUs of the node
	elastic, reclaimer int64  // percent of a device, per device
	elasticPods        int
	desA, desB         float64
	gpuMem             int64 // node label nvidia.com/gpu.memory, 0 = none
	reclaimerOlder     bool
	minB               int32 // minAvailable of the elastic job
}

// sizedElastic is the world of seeded/C15-3/README.md: node0 with `dev` GPUs; queue-b (deserved desB, over-quota weight
// 0) runs qb_elastic (minAvailable 1): elasticPods pods, each `elastic` percent of each of the dev devices, all on the
// same devices; queue-a (deserved desA, takes the over-quota) has qa_job pending: one pod of `reclaimer` percent of
// each of the dev devices.
func sizedElastic(s sizedSpec) *World {
	dm := devMemory(s.gpuMem)
	var groups []string
	for d := int64(0); d < s.dev; d++ {
		groups = append(groups, fmt.Sprintf("node0-g%d", d))
	}
	proto := sharedPod(s.kind, s.elastic, s.dev, dm)
	var nodes []string
	for i := 0; i < s.elasticPods; i++ {
		nodes = append(nodes, "node0")
	}
	eps := gpods("qb_elastic", s.elasticPods, proto, nodes...)
	for i := range eps {
		eps[i].Groups = append([]string{}, groups...)
	}
	ageA, ageB := 90, 100
	if s.reclaimerOlder {
		ageA, ageB = 100, 90
	}
	minB := s.minB
	if minB == 0 {
		minB = 1
	}
	return &World{
		Nodes: []core.NodeSpec{{Name: "node0", Cpu: 64000, Mem: 256 << 30, Gpus: s.dev, Pods: 110, GpuMem: memLabel(s.gpuMem)}},
		Depts: []Dept{{Name: "default", Deserved: -1}},
		Queues: []Queue{{Name: "queue-a", Parent: "default", Deserved: s.desA, OverQuota: 1, Priority: 100},
			{Name: "queue-b", Parent: "default", Deserved: s.desB, OverQuota: 0, Priority: 100}},
		Jobs: []Job{{Name: "qa_job", Queue: "queue-a", Priority: 50, MinMember: 1, AgeMinutes: ageA,
			Pods: gpods("qa_job", 1, sharedPod(s.kind, s.reclaimer, s.dev, dm))},
			{Name: "qb_elastic", Queue: "queue-b", Priority: 50, MinMember: minB, AgeMinutes: ageB, Pods: eps}},
		Cfg: Config{Actions: defaultActions, ConsolidatingReclaim: true, MaxConsolidation: -1},
	}
}

var sizedCorpus = []string{"sized-elastic-gpumem-2dev", "sized-elastic-gpumem-1dev", "sized-elastic-gpumem-3dev",
	"sized-elastic-fraction-2dev", "sized-elastic-fraction-1dev", "sized-elastic-gpumem-2dev-realmem",
	"sized-gang-gpumem-2dev", "sized-elastic-gpumem-2dev-reclaimer-fits-share", "sized-kinds"}

func sizedScenario(name string) *World {
	var k int
	if n, _ := fmt.Sscanf(name, "sizedfam:%d", &k); n == 1 {
		if fam := sizedFamily(); k >= 0 && k < len(fam) {
			return fam[k]
		}
		return nil
	}
	switch name {
	case "sized-elastic-gpumem-2dev":
		// seeded/C15-3/README.md exactly: 2 GPUs of 100; queue-a deserved 0.5 (+ over-quota: fair share 1.0), queue-b
		// deserved 1 weight 0 (fair share 1.0); qb_elastic 2 x (30 on each of 2 devices) = 1.2 running; qa_job 60 on each of
		// 2 devices = 1.2 pending.  Unchanged code: queue-a would end at 1.2 > 1.0, CanReclaimResources refuses, nothing
		// is ever evicted.  With GetTasksToAllocateInitResource counting qa_job as 0.6: qa_job and qb_elastic-1 evict
		// each other for ever.
		return sizedElastic(sizedSpec{kind: "mem", dev: 2, elastic: 30, reclaimer: 60, elasticPods: 2, desA: 0.5, desB: 1})
	case "sized-elastic-gpumem-1dev":
		// the one-device control of the README: 1 GPU, 30 / 60 on one device, quotas halved
		return sizedElastic(sizedSpec{kind: "mem", dev: 1, elastic: 30, reclaimer: 60, elasticPods: 2, desA: 0.25, desB: 0.5})
	case "sized-elastic-gpumem-3dev":
		return sizedElastic(sizedSpec{kind: "mem", dev: 3, elastic: 30, reclaimer: 60, elasticPods: 2, desA: 0.75, desB: 1.5})
	case "sized-elastic-fraction-2dev":
		// the same sizes as gpu-fraction requests (0.3 / 0.6 of each of 2 devices)
		return sizedElastic(sizedSpec{kind: "frac", dev: 2, elastic: 30, reclaimer: 60, elasticPods: 2, desA: 0.5, desB: 1})
	case "sized-elastic-fraction-1dev":
		return sizedElastic(sizedSpec{kind: "frac", dev: 1, elastic: 30, reclaimer: 60, elasticPods: 2, desA: 0.25, desB: 0.5})
	case "sized-elastic-gpumem-2dev-realmem":
		// devices of 16 GiB (label 16384 -> 16300 MiB): 4890 / 9780 MiB on each of 2 devices
		return sizedElastic(sizedSpec{kind: "mem", dev: 2, elastic: 30, reclaimer: 60, elasticPods: 2, desA: 0.5, desB: 1, gpuMem: 16384})
	case "sized-gang-gpumem-2dev":
		// the victim job is a gang (minAvailable 2): the simulation re-places both pods or none
		return sizedElastic(sizedSpec{kind: "mem", dev: 2, elastic: 30, reclaimer: 60, elasticPods: 2, desA: 0.5, desB: 1, minB: 2})
	case "sized-elastic-gpumem-2dev-reclaimer-fits-share":
		// qa_job really fits queue-a's fair share (40 on each of 2 devices = 0.8 <= 1.0): one legitimate eviction, then quiet
		return sizedElastic(sizedSpec{kind: "mem", dev: 2, elastic: 30, reclaimer: 40, elasticPods: 3, desA: 0.5, desB: 1})
	case "sized-kinds":
		// one pending job of every kind on an empty cluster: whole, multi-GPU, fraction, multi-fraction, gpu-memory,
		// multi-device gpu-memory, a gang mixing kinds, cpu only - for the size observations (gate = charged)
		one := func(name string, age int, p core.PodSpec) Job {
			return Job{Name: name, Queue: "q1", Priority: 50, MinMember: 1, AgeMinutes: age, Pods: gpods(name, 1, p)}
		}
		mixed := Job{Name: "mixed", Queue: "q2", Priority: 50, MinMember: 3, AgeMinutes: 80}
		mixed.Pods = []core.PodSpec{{Name: "mixed-0", Gpus: 1, Status: pod_status.Pending}, {Name: "mixed-1", Fraction: "0.5", NumDev: 2, Status: pod_status.Pending},
			{Name: "mixed-2", GpuMemory: 20, NumDev: 3, Status: pod_status.Pending}}
		return &World{
			Nodes: []core.NodeSpec{{Name: "n1", Cpu: 64000, Mem: 256 << 30, Gpus: 8, Pods: 110, GpuMem: defaultMem},
				{Name: "n2", Cpu: 64000, Mem: 256 << 30, Gpus: 8, Pods: 110, GpuMem: defaultMem}},
			Depts:  []Dept{{Name: "default", Deserved: -1}},
			Queues: []Queue{{Name: "q1", Parent: "default", Deserved: 8, OverQuota: 1, Priority: 100}, {Name: "q2", Parent: "default", Deserved: 8, OverQuota: 1, Priority: 100}},
			Jobs: []Job{one("whole", 100, core.PodSpec{Gpus: 1}), one("whole2", 99, core.PodSpec{Gpus: 2}), one("frac", 98, core.PodSpec{Fraction: "0.25"}),
				one("mfrac", 97, core.PodSpec{Fraction: "0.4", NumDev: 3}), one("gmem", 96, core.PodSpec{GpuMemory: 35}),
				one("mgmem", 95, core.PodSpec{GpuMemory: 45, NumDev: 2}), one("cpu", 94, core.PodSpec{Cpu: 2000}), mixed},
			Cfg: Config{Actions: defaultActions, ConsolidatingReclaim: true, MaxConsolidation: -1},
		}
	}
	return nil
}

// sizedFamily enumerates the neighbourhood of the README world (deterministic; -probe sizedfam:<k>): request kind x
// devices per pod x sizes of the elastic pods and of the reclaimer x quotas (queue-a at / below / above the boundary
// where the reclaimer fits its fair share) x which job is older x 2 or 3 elastic pods.
func sizedFamily() []*World {
	var out []*World
	type sz struct{ e, r int64 }
	type qt struct{ a, b float64 } // per device
	for _, kind := range []string{"mem", "frac"} {
		for _, dev := range []int64{1, 2, 3} {
			for _, s := range []sz{{30, 60}, {20, 70}, {40, 50}, {25, 50}} {
				for _, q := range []qt{{0.25, 0.5}, {0.5, 0.5}, {0.3, 0.6}} {
					for _, older := range []bool{false, true} {
						pods := 2
						if s.e*3+s.r > 100 && s.e*2+s.r <= 100 && older {
							pods = 3 // the reclaimer fits next to two of three elastic pods
						}
						out = append(out, sizedElastic(sizedSpec{kind: kind, dev: dev, elastic: s.e, reclaimer: s.r, elasticPods: pods,
							desA: q.a * float64(dev), desB: q.b * float64(dev), reclaimerOlder: older}))
					}
				}
			}
		}
	}
	return out
}

// randomSizedStream labels the random sized worlds (GenSized).
const randomSizedStream = "general(sized)"

// the random sized worlds of a seed are drawn from their own PRNG root
const sizedSalt = 0x73697a65

type gpuUse struct {
	used  int64 // percent of the device held by shared pods
	whole bool
}

// placeShared finds dev devices of one node with pct percent free each (shared devices first) and returns the node
// and the GPU groups.
func placeShared(r *u.Rng, use map[string][]gpuUse, nodes []core.NodeSpec, pct, dev int64) (string, []string, bool) {
	o := r.Intn(len(nodes))
	for i := range nodes {
		n := nodes[(i+o)%len(nodes)]
		gs := use[n.Name]
		var pick []int
		for pass := 0; pass < 2 && int64(len(pick)) < dev; pass++ {
			for g := range gs {
				if int64(len(pick)) == dev {
					break
				}
				shared := gs[g].used > 0
				if gs[g].whole || gs[g].used+pct > 100 || (pass == 0) != shared {
					continue
				}
				pick = append(pick, g)
			}
		}
		if int64(len(pick)) < dev {
			continue
		}
		var groups []string
		for _, g := range pick {
			gs[g].used += pct
			groups = append(groups, fmt.Sprintf("%s-g%d", n.Name, g))
		}
		return n.Name, groups, true
	}
	return "", nil, false
}

func placeWholeGpus(r *u.Rng, use map[string][]gpuUse, nodes []core.NodeSpec, gpus int64) (string, bool) {
	o := r.Intn(len(nodes))
	for i := range nodes {
		n := nodes[(i+o)%len(nodes)]
		gs := use[n.Name]
		var pick []int
		for g := range gs {
			if !gs[g].whole && gs[g].used == 0 && int64(len(pick)) < gpus {
				pick = append(pick, g)
			}
		}
		if int64(len(pick)) < gpus {
			continue
		}
		for _, g := range pick {
			gs[g].whole = true
		}
		return n.Name, true
	}
	return "", false
}

// GenSized draws a random sized world: 1-2 nodes of 2-4 GPUs (default device memory, sometimes 16 / 40 GiB devices,
// sometimes different on the two nodes), flat queues (sometimes two departments with quotas) with deserved quotas on
// and off the 0.1 grid, over-quota weights 0-2; 3-7 jobs of every kind (whole, fraction, gpu-memory, with 1-3 devices
// per pod, cpu only), 1-3 pods each, gangs and ELASTIC jobs (minAvailable < pods), most of them running (shared pods
// with their GPU groups), one queue crowded.
func GenSized(r *u.Rng) *World {
	w := &World{}
	nn := r.Range(1, 2)
	use := map[string][]gpuUse{}
	total := int64(0)
	label := int64(defaultMem)
	if r.Chance(1, 4) {
		label = int64(u.Pick(r, []int{16384, 40960}))
	}
	for i := 0; i < nn; i++ {
		g := int64(u.Pick(r, []int{2, 2, 3, 4}))
		ns := core.NodeSpec{Name: fmt.Sprintf("n%d", i+1), Cpu: 64000, Mem: 256 << 30, Gpus: g, Pods: 110, GpuMem: label}
		if i == 1 && label > defaultMem && r.Chance(1, 3) {
			ns.GpuMem = int64(u.Pick(r, []int{0, defaultMem, 81920})) // the second node reports no / another device memory
		}
		w.Nodes = append(w.Nodes, ns)
		use[ns.Name] = make([]gpuUse, g)
		total += g
	}
	nd := u.Pick(r, []int{1, 1, 2})
	for i := 0; i < nd; i++ {
		d := Dept{Name: fmt.Sprintf("d%d", i+1), Deserved: -1}
		if nd == 2 {
			d.Deserved = float64(r.Intn(int(total) + 1))
		}
		w.Depts = append(w.Depts, d)
	}
	nq := r.Range(2, 3)
	for i := 0; i < nq; i++ {
		q := Queue{Name: fmt.Sprintf("q%d", i+1), Parent: w.Depts[i%nd].Name, OverQuota: float64(u.Pick(r, []int{0, 0, 1, 1, 2})), Priority: 100,
			Deserved: u.Pick(r, []float64{0, 0.25, 0.5, 0.6, 0.75, 1, 1.2, 1.5, 2})}
		if r.Chance(1, 6) {
			q.Priority = 200
		}
		w.Queues = append(w.Queues, q)
	}
	nj := r.Range(3, 7)
	for i := 0; i < nj; i++ {
		q := u.Pick(r, w.Queues).Name
		if r.Chance(1, 3) {
			q = w.Queues[0].Name
		}
		j := Job{Name: fmt.Sprintf("j%d", i+1), Queue: q, Priority: int32(u.Pick(r, []int{50, 50, 50, 60, 75, 100})), AgeMinutes: 100 - i}
		np := u.Pick(r, []int{1, 1, 2, 2, 3})
		j.MinMember = int32(r.Range(1, np))
		if np > 1 && r.Chance(1, 2) {
			j.MinMember = 1 // elastic
		}
		pct, dev := int64(u.Pick(r, []int{20, 25, 30, 40, 50, 60, 70})), int64(u.Pick(r, []int{1, 1, 2, 2, 3}))
		var proto core.PodSpec
		kind := r.Intn(8)
		switch kind {
		case 0:
			proto.Gpus = int64(r.Range(1, 2))
		case 1, 2:
			proto = sharedPod("frac", pct, dev, 100)
		case 3, 4, 5, 6:
			// the device memory the request is written against: the first node's
			proto = sharedPod("mem", pct, dev, devMemory(w.Nodes[0].GpuMem))
			if label > defaultMem && r.Chance(1, 4) {
				proto.GpuMemory = int64(u.Pick(r, []int{2048, 4096, 8000})) // a round number of MiB, not of percent
				pct = (proto.GpuMemory*100 + floor100(label) - 1) / floor100(label)
			}
		default:
			proto.Cpu = int64(u.Pick(r, []int{1000, 2000}))
		}
		run := r.Chance(3, 4)
		for k := 0; k < np; k++ {
			p := proto
			p.Name = fmt.Sprintf("%s-%d", j.Name, k)
			p.Status = pod_status.Pending
			if run && (int32(k) < j.MinMember || r.Chance(2, 3)) {
				switch {
				case p.Fraction != "" || p.GpuMemory > 0:
					// on a node with another device memory the percentage differs: only place where it is the one assumed
					if node, groups, ok := placeShared(r, use, sameMemNodes(w.Nodes, w.Nodes[0].GpuMem, p.GpuMemory > 0), pct, dev); ok {
						p.Status, p.Node, p.Groups = pod_status.Running, node, groups
					}
				case p.Gpus > 0:
					if node, ok := placeWholeGpus(r, use, w.Nodes, p.Gpus); ok {
						p.Status, p.Node = pod_status.Running, node
					}
				default:
					p.Status, p.Node = pod_status.Running, u.Pick(r, w.Nodes).Name
				}
			}
			j.Pods = append(j.Pods, p)
		}
		// a gang that is only partly running is not a state the scheduler produces
		runningN := int32(0)
		for _, p := range j.Pods {
			if p.Status == pod_status.Running {
				runningN++
			}
		}
		if runningN > 0 && runningN < j.MinMember {
			j.MinMember = runningN
		}
		w.Jobs = append(w.Jobs, j)
	}
	w.Cfg = genConfig(r, []string{"", "", "1.0", "2"})
	return w
}

func sameMemNodes(nodes []core.NodeSpec, label int64, memoryRequest bool) []core.NodeSpec {
	if !memoryRequest {
		return nodes
	}
	var out []core.NodeSpec
	for _, n := range nodes {
		if devMemory(n.GpuMem) == devMemory(label) {
			out = append(out, n)
		}
	}
	return out
}
