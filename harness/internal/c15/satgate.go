package c15

import (
	"fmt"
	"math"
	"math/big"
	"sort"
	"strings"

	"github.com/NVIDIA/KAI-scheduler/pkg/scheduler/api/common_info"
	"github.com/NVIDIA/KAI-scheduler/pkg/scheduler/api/resource_info"
	"github.com/NVIDIA/KAI-scheduler/pkg/scheduler/plugins/proportion/reclaimable"
	rs "github.com/NVIDIA/KAI-scheduler/pkg/scheduler/plugins/proportion/resource_share"
)

// SATURATION OBSERVATIONS (streams class and hier: single-pod jobs asking for whole GPUs).
//
// For every reclaim eviction the real action COMMITTED, the harness rebuilds what the plugin's scenario validator
// (proportion.reclaimableFn) was handed - the queue attributes of the committed state at that moment (exactSharesAttrs
// + the binds / nominations / evictions of the cycle so far), the reclaimer and the victims (with consolidating
// reclaim: the pods that stay evicted; without it: every pod the scenario evicted, re-placed ones included) - and
//   (1) calls the REAL reclaimable.New(m).Reclaimable on it                                       -> RealAdmits
//   (2) evaluates the DOCUMENTED saturation rule itself, for every pair of queues the real
//       reclaimingQueuesRemainWithinBoundaries compares (the reclaimer's queue and each of its ancestors against the
//       victims' queues / ancestors with the same parent):
//           refuse iff  x/Fr > 1  and  Fe > 0  and  (x/Fr) * m >= y/Fe
//       x = allocated(reclaimer side) - victims + request, y = allocated(sibling) - victims, m = the clamped
//       relcaimerSaturationMultiplier ON THE RECLAIMER'S RATIO (docs/fairness/README.md "Reclaim Sensitivity": a larger
//       value is more conservative; values below 1 are rejected)                                  -> RefAdmits
// Both go into the Coq case (Run/C15.v satobs): the model's saturation_ok (Model/ClosedSystem.v) must give RefAdmits
// on the same numbers, and must admit whenever the real gate admitted (function-level correspondence of
// isFairShareSaturationLowerPerResource through the exported Reclaimable, multiplier on the same side).
//
// Lasso tags: an eviction inside a lasso loop that the REAL gate admits while the documented rule refuses it ON THE
// SAME INPUTS is the cause of that lasso whatever else is seen (tag GATE-ADMITS-WHAT-THE-SATURATION-RULE-REFUSES); the
// mechanism tags SIM-REPLACED* explain a lasso only when every eviction of the loop is one the documented gate admits
// (known finding C15-sim-replaced-victims-reorder is about legitimate evictions undone by a different job order).

type SatObs struct {
	Preemptor string
	Victims   []string // what the validator was handed
	Reclaimer string   // the reclaimer-side queue of the compared pair
	Sibling   string
	X, Fr     float64 // reclaimer side: allocated after the reclaim, fair share (GPUs)
	Y, Fe     float64 // sibling: remaining allocation, fair share
	Mult      string  // configured multiplier
	RefAdmits bool    // the documented rule, evaluated exactly
	// RealAdmits: the real Reclaimable (strategies + saturation rule + non-preemptible quota) admitted reclaimer and
	// victims on the rebuilt attributes
	RealAdmits bool
	// Exact: all four figures are non-negative dyadic values and the float64 evaluation of the documented rule (as the
	// real function computes it: two divisions, one multiplication) gives the verdict of the exact evaluation; only
	// such observations are compared (the model cross-multiplies exactly; float rounding is not modelled)
	Exact bool
}

func (o SatObs) String() string {
	v := "admits"
	if !o.RefAdmits {
		v = "REFUSES"
	}
	rv := "admitted"
	if !o.RealAdmits {
		rv = "refused"
	}
	return fmt.Sprintf("evict(%s) for %s: %s %g/%g x m=%s vs %s %g/%g: documented rule %s, real gate %s", strings.Join(o.Victims, "+"),
		o.Preemptor, o.Reclaimer, o.X, o.Fr, multName(o.Mult), o.Sibling, o.Y, o.Fe, v, rv)
}

func multName(m string) string {
	if m == "" {
		return "default(1)"
	}
	return m
}

// GateDisagrees: on the same inputs the real gate admitted what the documented saturation rule refuses.
func (o SatObs) GateDisagrees() bool { return o.Exact && o.RealAdmits && !o.RefAdmits }

// clampedMult: proportion.New replaces a multiplier below 1 by 1.
func clampedMult(s string) (float64, [2]int64, bool) {
	f, ok := multFrac[s]
	if !ok {
		return 1, [2]int64{1, 1}, false
	}
	if f[0] < f[1] {
		f = [2]int64{1, 1}
	}
	return float64(f[0]) / float64(f[1]), f, true
}

// refSaturation evaluates the documented rule exactly (rationals) and the way the real function computes it (float64).
func refSaturation(x, fr, y, fe float64, m [2]int64) (admitsExact, admitsFloat bool) {
	ratio := func(a, f float64) float64 {
		if f == 0 {
			if a > 0 {
				return math.Inf(1)
			}
			return 0
		}
		if f < 0 { // unlimited
			return 0
		}
		return a / f
	}
	rr, rsib := ratio(x, fr), ratio(y, fe)
	admitsFloat = !(rr > 1 && fe > 0 && rr*(float64(m[0])/float64(m[1])) >= rsib)
	// exact: x/fr > 1 and fe > 0 and x/fr * m >= y/fe, cross-multiplied (fr, fe > 0)
	switch {
	case fe <= 0 || fr < 0:
		admitsExact = true
	case fr == 0:
		admitsExact = !(x > 0)
	default:
		X, FR, Y, FE := new(big.Rat).SetFloat64(x), new(big.Rat).SetFloat64(fr), new(big.Rat).SetFloat64(y), new(big.Rat).SetFloat64(fe)
		if X == nil || FR == nil || Y == nil || FE == nil {
			return admitsFloat, admitsFloat
		}
		over := X.Cmp(FR) > 0
		lhs := new(big.Rat).Mul(new(big.Rat).Mul(X, big.NewRat(m[0], 1)), FE) // x * mn * Fe
		rhs := new(big.Rat).Mul(new(big.Rat).Mul(Y, FR), big.NewRat(m[1], 1)) // y * Fr * md
		admitsExact = !(over && lhs.Cmp(rhs) >= 0)
	}
	return admitsExact, admitsFloat
}

// singlePodWhole: every job is one pod asking for whole GPUs (or nothing): the worlds exactSharesAttrs is valid for
// and in which a victim job is one resource entry of the validator's map.
func singlePodWhole(w *World) bool {
	if !wholeOnly(w) {
		return false
	}
	for _, j := range w.Jobs {
		if len(j.Pods) != 1 {
			return false
		}
	}
	return true
}

// satObservations: see the comment at the top.  w is the world BEFORE the cycle's calls are applied, b the session the
// calls were recorded on.
func satObservations(w *World, b *Built, calls []Call) []SatObs {
	if !singlePodWhole(w) {
		return nil
	}
	_, attrs := exactSharesAttrs(w, b)
	podQueue, podGpus, jobPod := map[string]string{}, map[string]float64{}, map[string]string{}
	for _, j := range w.Jobs {
		podQueue[j.Pods[0].Name] = j.Queue
		podGpus[j.Pods[0].Name] = float64(j.Pods[0].Gpus)
		jobPod[j.Name] = j.Pods[0].Name
	}
	add := func(queue string, d float64) {
		for qa, ok := attrs[common_info.QueueID(queue)]; ok; qa, ok = attrs[qa.ParentQueue] {
			qa.GPU.Allocated += d
		}
	}
	mf, frac, known := clampedMult(w.Cfg.Multiplier)
	if !known {
		return nil
	}
	real := reclaimable.New(mf)
	var out []SatObs
	for i := 0; i < len(calls); i++ {
		c := calls[i]
		switch c.Kind {
		case "bind", "pipe":
			add(podQueue[c.Pod], podGpus[c.Pod])
		case "evict":
			first := i == 0 || calls[i-1].Kind != "evict" || calls[i-1].Preemptor != c.Preemptor || calls[i-1].Action != c.Action
			if first && c.Action == "reclaim" && jobPod[c.Preemptor] != "" {
				// the commit: the run of evictions for this reclaimer, then its nominations
				j := i
				evicted := map[string]bool{}
				for ; j < len(calls) && calls[j].Kind == "evict" && calls[j].Preemptor == c.Preemptor && calls[j].Action == c.Action; j++ {
					evicted[calls[j].Pod] = true
				}
				moved := map[string]bool{}
				for ; j < len(calls) && calls[j].Kind == "pipe"; j++ {
					if evicted[calls[j].Pod] {
						moved[calls[j].Pod] = true
					}
				}
				victims := map[string]bool{}
				if w.Cfg.ConsolidatingReclaim {
					// getResources(ignoreReallocatedTasks = true): re-placed pods do not count
					for p := range evicted {
						if !moved[p] {
							victims[p] = true
						}
					}
				} else {
					for p := range evicted {
						victims[p] = true
					}
					for _, p := range c.Replaced {
						victims[p] = true
					}
				}
				out = append(out, satCommit(attrs, real, frac, w.Cfg.Multiplier, c.Preemptor, podQueue[jobPod[c.Preemptor]], podGpus[jobPod[c.Preemptor]],
					victims, podQueue, podGpus)...)
			}
			add(podQueue[c.Pod], -podGpus[c.Pod])
		}
	}
	return out
}

func satCommit(attrs map[common_info.QueueID]*rs.QueueAttributes, real *reclaimable.Reclaimable, frac [2]int64, mult, preemptor, rqueue string, request float64,
	victims map[string]bool, podQueue map[string]string, podGpus map[string]float64) []SatObs {
	var vnames []string
	for p := range victims {
		vnames = append(vnames, p)
	}
	sort.Strings(vnames)
	if len(vnames) == 0 {
		return nil
	}
	// (1) the real gate
	vmap := map[common_info.QueueID][]*resource_info.Resource{}
	for _, p := range vnames {
		q := common_info.QueueID(podQueue[p])
		vmap[q] = append(vmap[q], resource_info.NewResource(0, 0, podGpus[p]))
	}
	sim := map[common_info.QueueID]*rs.QueueAttributes{}
	for id, qa := range attrs {
		sim[id] = qa.Clone()
	}
	info := &reclaimable.ReclaimerInfo{Name: preemptor, Namespace: "ns", Queue: common_info.QueueID(rqueue),
		RequiredResources: resource_info.NewResource(0, 0, request), IsPreemptable: true}
	realAdmits := real.Reclaimable(sim, info, vmap)
	// (2) the documented rule on the pairs reclaimingQueuesRemainWithinBoundaries compares
	remaining := map[common_info.QueueID]float64{}
	for _, p := range vnames {
		for qa, ok := attrs[common_info.QueueID(podQueue[p])]; ok; qa, ok = attrs[qa.ParentQueue] {
			if _, found := remaining[qa.UID]; !found {
				remaining[qa.UID] = qa.GPU.Allocated
			}
			remaining[qa.UID] -= podGpus[p]
		}
	}
	var sibs []string
	for id := range remaining {
		sibs = append(sibs, string(id))
	}
	sort.Strings(sibs)
	var out []SatObs
	for rq, ok := attrs[common_info.QueueID(rqueue)]; ok; rq, ok = attrs[rq.ParentQueue] {
		x, found := remaining[rq.UID]
		if !found {
			x = rq.GPU.Allocated
		}
		x += request
		for _, sid := range sibs {
			sib := attrs[common_info.QueueID(sid)]
			if sib.ParentQueue != rq.ParentQueue || sib.UID == rq.UID {
				continue
			}
			y, fr, fe := remaining[sib.UID], rq.GPU.FairShare, sib.GPU.FairShare
			exact, fl := refSaturation(x, fr, y, fe, frac)
			_, dyadic := scaleOf([]float64{x, fr, y, fe})
			out = append(out, SatObs{Preemptor: preemptor, Victims: vnames, Reclaimer: rq.Name, Sibling: sib.Name, X: x, Fr: fr, Y: y, Fe: fe, Mult: mult,
				RefAdmits: exact, RealAdmits: realAdmits, Exact: exact == fl && dyadic && x >= 0 && fr >= 0 && y >= 0 && fe >= 0})
		}
	}
	return out
}

// gateDisagreement: the first eviction inside the lasso loop that the real gate admitted although the documented
// saturation rule refuses it on the same inputs; "" if there is none.
func gateDisagreement(tr *Trace) string {
	if tr.LassoFrom < 0 {
		return ""
	}
	for c := tr.LassoFrom; c <= tr.LassoTo && c < len(tr.Cycles); c++ {
		for _, o := range tr.Cycles[c].Sats {
			if o.GateDisagrees() {
				return fmt.Sprintf("c%d %s", c, o)
			}
		}
	}
	return ""
}
