package c15

import (
	"fmt"

	"github.com/NVIDIA/KAI-scheduler/pkg/scheduler/api/pod_status"

	"kaiverif/internal/core"
	u "kaiverif/internal/util"
)

func genConfig(r *u.Rng, mults []string) Config {
	cfg := Config{Actions: []string{"allocate"}, ConsolidatingReclaim: r.Bool(), MaxConsolidation: u.Pick(r, []int{-1, -1, 0, 1})}
	if r.Chance(3, 4) {
		cfg.Actions = append(cfg.Actions, "consolidation")
	}
	cfg.Actions = append(cfg.Actions, "reclaim", "preempt")
	if r.Chance(1, 2) {
		cfg.Actions = append(cfg.Actions, "stalegangeviction")
	}
	cfg.Multiplier = u.Pick(r, mults)
	return cfg
}

// place puts a pod on the first node (random start) with room; whole GPUs / cpu only.
func placeWhole(r *u.Rng, free map[string]*[2]int64, nodes []core.NodeSpec, gpus, cpu int64) (string, bool) {
	o := r.Intn(len(nodes))
	for i := range nodes {
		n := nodes[(i+o)%len(nodes)]
		f := free[n.Name]
		if f[0] >= gpus && f[1] >= cpu {
			f[0] -= gpus
			f[1] -= cpu
			return n.Name, true
		}
	}
	return "", false
}

// GenClass draws a world of the class of theorem C15_rank_decreases: GPU is the only
// contended resource, every job is one pod asking for one whole GPU, queues are flat
// (one department) or two-level (two departments), no limits, preemptible jobs only
// (priority < 100), integer or half-integer deserved quotas.
// strict: additionally all leaf queues have the same queue priority and the deserved
// quotas are not over-subscribed (sum over leaf queues and sum over departments <=
// capacity). Only strict worlds are refinement-checked against Model/ClosedSystem.v:
// with different queue priorities or over-subscribed quotas the real allocate action may
// hand a GPU freed by an eviction to another job than the one it was evicted for
// (the model lets the job the eviction was made for keep the slot).
func GenClass(r *u.Rng, strict bool) *World {
	w := &World{}
	nn := r.Range(1, 4)
	total := int64(0)
	free := map[string]*[2]int64{}
	for i := 0; i < nn; i++ {
		g := int64(u.Pick(r, []int{1, 2, 2, 3, 4}))
		ns := core.NodeSpec{Name: fmt.Sprintf("n%d", i+1), Cpu: 64000, Mem: 256 << 30, Gpus: g, Pods: 110}
		w.Nodes = append(w.Nodes, ns)
		free[ns.Name] = &[2]int64{g, ns.Cpu}
		total += g
	}
	nd := u.Pick(r, []int{1, 1, 2})
	budgetD := float64(total)
	for i := 0; i < nd; i++ {
		d := Dept{Name: fmt.Sprintf("d%d", i+1), Deserved: -1}
		if nd == 2 {
			d.Deserved = float64(r.Intn(int(total) + 1))
			if r.Chance(1, 5) {
				d.Deserved += 0.5
			}
			if strict && d.Deserved > budgetD {
				d.Deserved = budgetD
			}
			budgetD -= d.Deserved
		}
		w.Depts = append(w.Depts, d)
	}
	nq := r.Range(2, 3)
	if nd == 2 && r.Chance(1, 2) {
		nq = 4
	}
	budgetQ := float64(total)
	for i := 0; i < nq; i++ {
		q := Queue{Name: fmt.Sprintf("q%d", i+1), Parent: w.Depts[i%nd].Name, OverQuota: float64(u.Pick(r, []int{0, 1, 1, 2, 3})),
			Priority: 100}
		if !strict {
			q.Priority = u.Pick(r, []int{100, 100, 200})
		}
		q.Deserved = float64(r.Intn(int(total)/2 + 2))
		if r.Chance(1, 5) {
			q.Deserved += 0.5
		}
		if strict {
			if q.Deserved > budgetQ {
				q.Deserved = budgetQ
			}
			budgetQ -= q.Deserved
		}
		w.Queues = append(w.Queues, q)
	}
	nj := r.Range(3, 8)
	for i := 0; i < nj; i++ {
		q := u.Pick(r, w.Queues).Name
		if r.Chance(1, 3) {
			q = w.Queues[0].Name // crowd one queue so that somebody is over its share
		}
		j := Job{Name: fmt.Sprintf("j%d", i+1), Queue: q, Priority: int32(u.Pick(r, []int{50, 50, 50, 60, 75})), MinMember: 1, AgeMinutes: 100 - i}
		p := core.PodSpec{Name: j.Name + "-0", Gpus: 1, Status: pod_status.Pending}
		if r.Chance(2, 3) {
			if node, ok := placeWhole(r, free, w.Nodes, 1, 0); ok {
				p.Status, p.Node = pod_status.Running, node
			}
		}
		j.Pods = []core.PodSpec{p}
		w.Jobs = append(w.Jobs, j)
	}
	w.Cfg = genConfig(r, []string{"", "", "1.0", "1.5", "3", "0.5", "0.4"})
	return w
}

// GenGeneral draws a world outside the class: gangs, fractional pods, CPU as a second
// contended resource, limits, non-preemptible jobs.
func GenGeneral(r *u.Rng) *World {
	w := &World{}
	nn := r.Range(1, 4)
	total := int64(0)
	free := map[string]*[2]int64{}
	for i := 0; i < nn; i++ {
		g := int64(u.Pick(r, []int{1, 2, 2, 4}))
		ns := core.NodeSpec{Name: fmt.Sprintf("n%d", i+1), Cpu: int64(u.Pick(r, []int{4000, 8000, 64000})), Mem: 256 << 30, Gpus: g, Pods: 110}
		w.Nodes = append(w.Nodes, ns)
		free[ns.Name] = &[2]int64{g, ns.Cpu}
		total += g
	}
	nd := u.Pick(r, []int{1, 2})
	for i := 0; i < nd; i++ {
		d := Dept{Name: fmt.Sprintf("d%d", i+1), Deserved: -1}
		if nd == 2 && r.Chance(3, 4) {
			d.Deserved = float64(r.Intn(int(total) + 1))
		}
		w.Depts = append(w.Depts, d)
	}
	nq := r.Range(2, 3)
	for i := 0; i < nq; i++ {
		q := Queue{Name: fmt.Sprintf("q%d", i+1), Parent: w.Depts[i%nd].Name, OverQuota: float64(u.Pick(r, []int{0, 1, 1, 2})),
			Priority: u.Pick(r, []int{100, 100, 200}), Deserved: float64(r.Intn(int(total)/2+2)) / float64(u.Pick(r, []int{1, 1, 2}))}
		if r.Chance(1, 5) {
			q.Limit = float64(r.Range(1, int(total)))
		}
		w.Queues = append(w.Queues, q)
	}
	nj := r.Range(3, 8)
	for i := 0; i < nj; i++ {
		q := u.Pick(r, w.Queues).Name
		if r.Chance(1, 3) {
			q = w.Queues[0].Name
		}
		j := Job{Name: fmt.Sprintf("j%d", i+1), Queue: q, Priority: int32(u.Pick(r, []int{50, 50, 60, 75, 100, 125})), AgeMinutes: 100 - i}
		np := u.Pick(r, []int{1, 1, 2, 3})
		j.MinMember = int32(r.Range(1, np))
		proto := core.PodSpec{}
		switch r.Intn(6) {
		case 0, 1:
			proto.Gpus = int64(r.Range(1, 2))
		case 2:
			proto.Gpus = 1
			proto.Cpu = int64(u.Pick(r, []int{1000, 2000, 4000}))
		case 3:
			proto.Fraction = u.Pick(r, []string{"0.5", "0.25"})
		case 4:
			proto.Cpu = int64(u.Pick(r, []int{1000, 2000, 4000}))
		default:
			proto.Gpus = 1
		}
		run := r.Chance(2, 3)
		for k := 0; k < np; k++ {
			p := proto
			p.Name = fmt.Sprintf("%s-%d", j.Name, k)
			p.Status = pod_status.Pending
			// only whole-GPU / cpu pods start as running (fractional pods get their groups from the scheduler itself)
			if run && p.Fraction == "" && int32(k) < j.MinMember+1 {
				if node, ok := placeWhole(r, free, w.Nodes, p.Gpus, p.Cpu); ok {
					p.Status, p.Node = pod_status.Running, node
				}
			}
			j.Pods = append(j.Pods, p)
		}
		w.Jobs = append(w.Jobs, j)
	}
	w.Cfg = genConfig(r, []string{"", "", "1.0", "2"})
	return w
}
