// Package c15 runs the REAL scheduler actions repeatedly on a closed world
// (fixed nodes, queues and workloads; evicted pods are recreated as pending;
// binds complete) and looks for a lasso: a world state seen before with at
// least one eviction in between (property C15). Exploration, not proof; the
// theorems of coq/Properties/C15.v cover all runs of the stated class.
//
// The session is assembled like harness/internal/cycle.Build does (real
// constructors, default plugin tiers, recording cache); this copy exists
// because C15 needs several departments, proportion-plugin arguments
// (relcaimerSaturationMultiplier) and the session overrides
// (AllowConsolidatingReclaim, MaxNumberConsolidationPreemptees) to be set
// BEFORE the plugins open.
package c15

import (
	"fmt"
	"runtime/debug"
	"sort"
	"strings"
	"time"

	"go.uber.org/mock/gomock"
	v1 "k8s.io/api/core/v1"
	metav1 "k8s.io/apimachinery/pkg/apis/meta/v1"
	"k8s.io/apimachinery/pkg/types"

	enginev2alpha2 "github.com/NVIDIA/KAI-scheduler/pkg/apis/scheduling/v2alpha2"
	pg "github.com/NVIDIA/KAI-scheduler/pkg/common/podgroup"
	"github.com/NVIDIA/KAI-scheduler/pkg/scheduler/actions"
	"github.com/NVIDIA/KAI-scheduler/pkg/scheduler/api/common_info"
	"github.com/NVIDIA/KAI-scheduler/pkg/scheduler/api/eviction_info"
	"github.com/NVIDIA/KAI-scheduler/pkg/scheduler/api/node_info"
	"github.com/NVIDIA/KAI-scheduler/pkg/scheduler/api/pod_info"
	"github.com/NVIDIA/KAI-scheduler/pkg/scheduler/api/pod_status"
	"github.com/NVIDIA/KAI-scheduler/pkg/scheduler/api/podgroup_info"
	"github.com/NVIDIA/KAI-scheduler/pkg/scheduler/api/queue_info"
	"github.com/NVIDIA/KAI-scheduler/pkg/scheduler/api/resource_info"
	"github.com/NVIDIA/KAI-scheduler/pkg/scheduler/cache"
	"github.com/NVIDIA/KAI-scheduler/pkg/scheduler/cache/cluster_info"
	"github.com/NVIDIA/KAI-scheduler/pkg/scheduler/conf"
	"github.com/NVIDIA/KAI-scheduler/pkg/scheduler/conf_util"
	"github.com/NVIDIA/KAI-scheduler/pkg/scheduler/framework"
	"github.com/NVIDIA/KAI-scheduler/pkg/scheduler/plugins"
	putils "github.com/NVIDIA/KAI-scheduler/pkg/scheduler/plugins/proportion/utils"
	rs "github.com/NVIDIA/KAI-scheduler/pkg/scheduler/plugins/proportion/resource_share"
	"github.com/NVIDIA/KAI-scheduler/pkg/scheduler/test_utils"

	"kaiverif/internal/core"
)

type SubGroup struct {
	Name      string
	MinMember int32
}

// Pod is the mutable part of the world: status / node / groups change from cycle to cycle.
type Pod struct {
	core.PodSpec
}

type Job struct {
	Name       string
	Queue      string
	Priority   int32
	MinMember  int32
	SubGroups  []SubGroup
	AgeMinutes int
	Pods       []core.PodSpec
}

type Dept struct {
	Name     string
	Deserved float64 // GPUs; -1 = unlimited
	Limit    float64 // 0 = none
	Priority int
}

type Queue struct {
	Name, Parent               string
	Deserved, Limit, OverQuota float64 // GPUs
	Priority                   int
}

type Config struct {
	Actions              []string
	ConsolidatingReclaim bool
	MaxConsolidation     int    // -1 = no restriction, 0 = consolidation disabled
	Multiplier           string // proportion plugin argument relcaimerSaturationMultiplier; "" = absent
}

type World struct {
	Nodes  []core.NodeSpec
	Depts  []Dept
	Queues []Queue
	Jobs   []Job
	Cfg    Config
}

type Call struct {
	Kind      string // bind | evict | pipe
	Pod, Node string
	Groups    []string
	Action    string
	Preemptor string
	// evict only: the running pods that the solver's statement evicted AND re-placed in the simulation that
	// led to this committed eviction (scenario victims that were "unevicted" / re-pipelined), see simTrack
	Replaced []string
}

type recorder struct {
	cache.Cache
	calls []Call
	sim   simTrack
}

// simTrack follows the session's statements through framework.EventHandler (an exported API: the plugins use it
// to keep queue shares up to date).  AllocateFunc fires on Statement.Allocate / Pipeline / unevict, DeallocateFunc
// on Statement.Evict / unallocate / unpipeline - for simulated operations too.  Tracked: the pods whose simulated
// status deviates from the committed one (evicted: running pod evicted in the statement; placed: pending pod
// placed in the statement) and, since the last moment without any deviation, the running pods that were evicted
// and placed again (replaced).  A failed scenario is discarded (all deviations undone), so at a commit `replaced`
// holds the re-placed pods of the statement that is being committed.
// What is NOT observable this way: jobs the simulation popped and skipped or failed to place (no statement
// operation), i.e. the pop order of JobsOrderByQueues itself.
type simTrack struct {
	evicted, placed, replaced, victims map[string]bool
}

func (t *simTrack) settle() {
	if t.evicted == nil {
		t.evicted, t.placed, t.replaced, t.victims = map[string]bool{}, map[string]bool{}, map[string]bool{}, map[string]bool{}
	}
	if len(t.evicted) == 0 && len(t.placed) == 0 {
		for k := range t.replaced {
			delete(t.replaced, k)
		}
		for k := range t.victims {
			delete(t.victims, k)
		}
	}
}

func (t *simTrack) onAllocate(pod string) {
	t.settle()
	if t.evicted[pod] {
		delete(t.evicted, pod)
		t.replaced[pod] = true
		return
	}
	t.placed[pod] = true
}

func (t *simTrack) onDeallocate(pod string) {
	t.settle()
	if t.placed[pod] {
		delete(t.placed, pod)
		return
	}
	t.evicted[pod] = true
}

func (t *simTrack) replacedNow() []string {
	var out []string
	for p := range t.replaced {
		if !t.evicted[p] && !t.victims[p] {
			out = append(out, p)
		}
	}
	sort.Strings(out)
	return out
}

func (r *recorder) Bind(p *pod_info.PodInfo, hostname string, ann map[string]string) error {
	r.sim.settle()
	delete(r.sim.placed, p.Name)
	r.calls = append(r.calls, Call{Kind: "bind", Pod: p.Name, Node: hostname, Groups: append([]string{}, p.GPUGroups...)})
	return nil
}

func (r *recorder) Evict(pod *v1.Pod, job *podgroup_info.PodGroupInfo, md eviction_info.EvictionMetadata, msg string) error {
	r.sim.settle()
	c := Call{Kind: "evict", Pod: pod.Name, Action: md.Action, Replaced: r.sim.replacedNow()}
	delete(r.sim.evicted, pod.Name)
	r.sim.victims[pod.Name] = true
	if md.Preemptor != nil {
		c.Preemptor = md.Preemptor.Name
	}
	r.calls = append(r.calls, c)
	return nil
}

func (r *recorder) TaskPipelined(t *pod_info.PodInfo, msg string) {
	r.sim.settle()
	delete(r.sim.placed, t.Name)
	r.calls = append(r.calls, Call{Kind: "pipe", Pod: t.Name, Node: t.NodeName, Groups: append([]string{}, t.GPUGroups...)})
}

type reporter struct{ msgs []string }

func (r *reporter) Errorf(format string, args ...any) { r.msgs = append(r.msgs, fmt.Sprintf(format, args...)) }
func (r *reporter) Fatalf(format string, args ...any) { r.msgs = append(r.msgs, fmt.Sprintf(format, args...)) }

var initOnce bool

type Built struct {
	Ssn    *framework.Session
	Rec    *recorder
	Nodes  map[string]*node_info.NodeInfo
	Jobs   map[common_info.PodGroupID]*podgroup_info.PodGroupInfo
	Queues map[common_info.QueueID]*queue_info.QueueInfo
	Rep    *reporter
	// size observations of the cycle (RunActions)
	Sizes             []SizeObs
	PartialPlacements int
}

// startedAgo: every running job looks as if it started this long ago (beyond any
// min-runtime protection); time is not part of the closed system's state.
const startedAgo = 6 * time.Hour

func tiers(cfg Config) []conf.Tier {
	c, err := conf_util.ResolveConfigurationFromFile("")
	if err != nil {
		panic(err)
	}
	out := make([]conf.Tier, len(c.Tiers))
	for i, t := range c.Tiers {
		nt := conf.Tier{Plugins: make([]conf.PluginOption, len(t.Plugins))}
		copy(nt.Plugins, t.Plugins)
		for k := range nt.Plugins {
			if nt.Plugins[k].Name == "proportion" && cfg.Multiplier != "" {
				args := map[string]string{}
				for a, b := range nt.Plugins[k].Arguments {
					args[a] = b
				}
				args["relcaimerSaturationMultiplier"] = cfg.Multiplier
				nt.Plugins[k].Arguments = args
			}
		}
		out[i] = nt
	}
	return out
}

// Build assembles a real session from the current world state.
func Build(w *World) *Built {
	if !initOnce {
		actions.InitDefaultActions()
		plugins.InitDefaultPlugins()
		initOnce = true
	}
	vm := resource_info.NewResourceVectorMap()
	cpai := cache.NewK8sClusterPodAffinityInfo()
	b := &Built{Nodes: map[string]*node_info.NodeInfo{}, Jobs: map[common_info.PodGroupID]*podgroup_info.PodGroupInfo{}, Rep: &reporter{}}
	for _, ns := range w.Nodes {
		vm.AddResourceList(ns.K8s().Status.Allocatable)
	}
	for _, ns := range w.Nodes {
		n := ns.K8s()
		b.Nodes[ns.Name] = node_info.NewNodeInfo(n, cluster_info.NewK8sNodePodAffinityInfo(n, cpai), vm)
	}
	base := time.Date(2025, 1, 1, 0, 0, 0, 0, time.UTC)
	now := time.Now()
	tasks := map[string]*pod_info.PodInfo{}
	for _, j := range w.Jobs {
		uid := common_info.PodGroupID(j.Name)
		job := podgroup_info.NewPodGroupInfoWithVectorMap(uid, vm)
		crd := &enginev2alpha2.PodGroup{
			ObjectMeta: metav1.ObjectMeta{Name: j.Name, Namespace: "ns", UID: types.UID(j.Name),
				CreationTimestamp: metav1.Time{Time: base.Add(-time.Duration(j.AgeMinutes) * time.Minute)}},
			Spec: enginev2alpha2.PodGroupSpec{Queue: j.Queue, MinMember: j.MinMember},
		}
		for _, sg := range j.SubGroups {
			crd.Spec.SubGroups = append(crd.Spec.SubGroups, enginev2alpha2.SubGroup{Name: sg.Name, MinMember: sg.MinMember})
		}
		job.SetPodGroup(crd)
		job.Priority = j.Priority
		job.Preemptibility = pg.CalculatePreemptibility("", j.Priority)
		running := false
		for _, ps := range j.Pods {
			ps.Job = j.Name
			t := mkPod(ps, vm)
			tasks[ps.Name] = t
			job.AddTaskInfo(t)
			if pod_status.AllocatedStatus(t.Status) {
				running = true
			}
		}
		if running {
			st := now.Add(-startedAgo)
			job.LastStartTimestamp = &st
		}
		b.Jobs[uid] = job
	}
	names := make([]string, 0, len(tasks))
	for n := range tasks {
		names = append(names, n)
	}
	sort.Strings(names)
	for _, n := range names {
		t := tasks[n]
		if pod_status.IsActiveUsedStatus(t.Status) && t.NodeName != "" {
			if ni, ok := b.Nodes[t.NodeName]; ok {
				_ = ni.AddTask(t)
			}
		}
	}
	meta := test_utils.TestTopologyBasic{Name: "c15", DisableDefaultDepartment: true,
		Mocks: &test_utils.TestMock{CacheRequirements: &test_utils.CacheMocking{NumberOfCacheBinds: 1 << 20, NumberOfCacheEvictions: 1 << 20, NumberOfPipelineActions: 1 << 20}}}
	for _, d := range w.Depts {
		lim := d.Limit
		meta.Departments = append(meta.Departments, test_utils.TestDepartmentBasic{Name: d.Name, DeservedGPUs: d.Deserved, MaxAllowedGPUs: lim})
	}
	for _, q := range w.Queues {
		prio := q.Priority
		meta.Queues = append(meta.Queues, test_utils.TestQueueBasic{Name: q.Name, ParentQueue: q.Parent, DeservedGPUs: q.Deserved,
			MaxAllowedGPUs: q.Limit, GPUOverQuotaWeight: q.OverQuota, Priority: &prio})
	}
	queues := test_utils.BuildQueueInfoMap(meta)
	for k, v := range test_utils.BuildDepartmentInfoMap(meta) {
		queues[k] = v
	}
	// department over-quota weight / priority: BuildDepartmentInfoMap uses the deserved quota as weight
	for _, d := range w.Depts {
		qi := queues[common_info.QueueID(d.Name)]
		if qi.Resources.GPU.OverQuotaWeight <= 0 {
			qi.Resources.GPU.OverQuotaWeight = 1
		}
		if d.Priority != 0 {
			qi.Priority = d.Priority
		}
	}
	cluster_info.UpdateQueueHierarchy(queues)
	b.Queues = queues
	ctrl := gomock.NewController(b.Rep)
	// session without plugins first, so that the overrides are in place when the plugins open
	b.Ssn = test_utils.CreateFakeSession(nil, b.Nodes, b.Jobs, queues, meta, ctrl, true, nil, cpai)
	b.Ssn.ClusterInfo.MinNodeGPUMemory = minNodeGPUMemory(b.Nodes)
	b.Ssn.OverrideMaxNumberConsolidationPreemptees(w.Cfg.MaxConsolidation)
	b.Ssn.OverrideAllowConsolidatingReclaim(w.Cfg.ConsolidatingReclaim)
	ts := tiers(w.Cfg)
	b.Ssn.Config.Tiers = ts
	for _, tier := range ts {
		for _, plugin := range tier.Plugins {
			pb, found := framework.GetPluginBuilder(plugin.Name)
			if !found {
				continue
			}
			pb(plugin.Arguments).OnSessionOpen(b.Ssn)
		}
	}
	b.Rec = &recorder{Cache: b.Ssn.Cache}
	b.Ssn.Cache = b.Rec
	b.Ssn.AddEventHandler(&framework.EventHandler{
		AllocateFunc:   func(e *framework.Event) { b.Rec.sim.onAllocate(e.Task.Name) },
		DeallocateFunc: func(e *framework.Event) { b.Rec.sim.onDeallocate(e.Task.Name) },
	})
	return b
}

// minNodeGPUMemory is what cache/cluster_info.snapshotNodes hands to the session as ClusterInfo.MinNodeGPUMemory
// (test_utils.CreateFakeSession hard-codes node_info.DefaultGpuMemory): the loop is copied literally. NOTE: it starts
// from DefaultGpuMemory (100) and only takes the minimum with nodes whose memory is ABOVE that, so the value is 100
// whatever the nodes report - with real device memories (label nvidia.com/gpu.memory) a pending gpu-memory request of
// M MiB is therefore counted as M/100 GPUs by GetTasksToAllocateInitResource / updateQueuesCurrentResourceUsage while
// it is charged ceil(M / deviceMemory) once placed (over-counted, never under-counted).
func minNodeGPUMemory(nodes map[string]*node_info.NodeInfo) int64 {
	var minGPUMemory int64 = node_info.DefaultGpuMemory
	for _, n := range nodes {
		nodeGPUMemory := n.MemoryOfEveryGpuOnNode
		if nodeGPUMemory > node_info.DefaultGpuMemory {
			minGPUMemory = min(minGPUMemory, nodeGPUMemory)
		}
	}
	return minGPUMemory
}

// mkPod is core.MkPod plus the scheduler name: without it the proportion plugin
// counts a running pod as "scheduled by a different scheduler" and subtracts its
// resources from the cluster total the fair shares are computed from.
func mkPod(p core.PodSpec, vm *resource_info.ResourceVectorMap) *pod_info.PodInfo {
	pod := p.K8s()
	pod.Spec.SchedulerName = "kai-scheduler"
	ti := pod_info.NewTaskInfo(pod, nil, vm)
	ti.Status = p.Status
	ti.NodeName = p.Node
	ti.GPUGroups = append([]string{}, p.Groups...)
	return ti
}

// SizeObs is one observation of "gate size = charged size" (Model/ClosedSystem.v size_consistent) on the real code:
// right before an action runs, the harness asks the real podgroup_info.GetTasksToAllocate /
// GetTasksToAllocateInitResource for the pods the job would place next and for the request the scheduler counts the
// job by (this is the value proportion.buildReclaimerInfo puts in ReclaimerInfo.RequiredResources, what queue_order
// adds to a queue "with the job" and what the capacity gates read; the calls only fill the job's caches with the
// values the action computes itself with the same arguments).  After the action, if exactly those pods were placed
// (bound or pipelined), Charged is the sum of what the proportion plugin's allocate handler charged the queue for
// them: utils.QuantifyResourceRequirements(task.AcceptedResource).  Units: GPUs.
type SizeObs struct {
	Action, Job   string
	Kind          string  // whole | fraction | multi-fraction | gpu-memory | multi-gpu-memory | cpu | mixed
	Gate, Charged float64 // GPUs
	Devices       int64   // number of shared devices over the placed pods (each rounds its portion up to 1/100 GPU)
	Homogeneous   bool    // every pod was placed on a node whose device memory is the session's MinNodeGPUMemory
	Evicting      bool    // the action committed an eviction with this job as preemptor
}

type pendingGate struct {
	job   *podgroup_info.PodGroupInfo
	pods  []common_info.PodID
	gate  float64
	kinds map[string]bool
}

func podKind(t *pod_info.PodInfo) string {
	n := t.ResReq.GpuResourceRequirement.GetNumOfGpuDevices()
	switch {
	case t.IsMemoryRequest() && n > 1:
		return "multi-gpu-memory"
	case t.IsMemoryRequest():
		return "gpu-memory"
	case t.ResReq.GpuResourceRequirement.IsFractionalRequest() && n > 1:
		return "multi-fraction"
	case t.ResReq.GpuResourceRequirement.IsFractionalRequest():
		return "fraction"
	case t.ResReq.GPUs() > 0:
		return "whole"
	}
	return "cpu"
}

// gatesBefore asks the real code, for every job with pending pods, which pods it would place next and what it counts
// the job by.  isReal as the action itself passes it (allocate: true, every other action: false).
func gatesBefore(b *Built, action string) []pendingGate {
	ssn := b.Ssn
	isReal := action == "allocate"
	var ids []string
	for id := range b.Jobs {
		ids = append(ids, string(id))
	}
	sort.Strings(ids)
	var out []pendingGate
	for _, id := range ids {
		job := b.Jobs[common_info.PodGroupID(id)]
		if len(job.PodStatusIndex[pod_status.Pending]) == 0 {
			continue
		}
		tasks := podgroup_info.GetTasksToAllocate(job, ssn.PodSetOrderFn, ssn.TaskOrderFn, isReal)
		if len(tasks) == 0 {
			continue
		}
		res := podgroup_info.GetTasksToAllocateInitResource(job, ssn.PodSetOrderFn, ssn.TaskOrderFn, isReal, ssn.ClusterInfo.MinNodeGPUMemory)
		g := pendingGate{job: job, gate: putils.QuantifyResource(res)[rs.GpuResource], kinds: map[string]bool{}}
		for _, t := range tasks {
			g.pods = append(g.pods, t.UID)
			g.kinds[podKind(t)] = true
		}
		out = append(out, g)
	}
	return out
}

func (b *Built) sizesAfter(action string, gates []pendingGate, from int) {
	preemptors := map[string]bool{}
	for _, c := range b.Rec.calls[from:] {
		if c.Kind == "evict" && c.Preemptor != "" {
			preemptors[c.Preemptor] = true
		}
	}
	for _, g := range gates {
		placed, charged, devs, homog := 0, 0.0, int64(0), true
		all := g.job.GetAllPodsMap()
		for _, uid := range g.pods {
			t := all[uid] // after a Commit the job's map holds the statement's clone of the task
			if t == nil || t.AcceptedResource == nil ||
				!(t.Status == pod_status.Allocated || t.Status == pod_status.Binding || t.Status == pod_status.Pipelined || t.Status == pod_status.Bound) {
				continue
			}
			placed++
			charged += putils.QuantifyResourceRequirements(t.AcceptedResource)[rs.GpuResource]
			if t.AcceptedResource.GpuResourceRequirement.IsFractionalRequest() {
				devs += t.AcceptedResource.GpuResourceRequirement.GetNumOfGpuDevices()
			}
			if n := b.Nodes[t.NodeName]; n == nil || n.MemoryOfEveryGpuOnNode != b.Ssn.ClusterInfo.MinNodeGPUMemory {
				homog = false
			}
		}
		if placed == 0 {
			continue
		}
		if placed != len(g.pods) {
			b.PartialPlacements++
			continue
		}
		kind := "mixed"
		if len(g.kinds) == 1 {
			for k := range g.kinds {
				kind = k
			}
		}
		b.Sizes = append(b.Sizes, SizeObs{Action: action, Job: g.job.Name, Kind: kind, Gate: g.gate, Charged: charged, Devices: devs,
			Homogeneous: homog, Evicting: preemptors[g.job.Name]})
	}
}

// RunActions executes the configured actions; a panic is returned as text.  Around every action the size
// observations (SizeObs) are collected into b.Sizes.
func RunActions(b *Built, names []string) (panicked string) {
	defer func() {
		if r := recover(); r != nil {
			panicked = fmt.Sprintf("%v\n%s", r, debug.Stack())
		}
	}()
	for _, a := range names {
		act, ok := framework.GetAction(a)
		if !ok {
			panic("unknown action " + a)
		}
		gates := gatesBefore(b, a)
		from := len(b.Rec.calls)
		act.Execute(b.Ssn)
		b.sizesAfter(a, gates, from)
	}
	return ""
}

// Apply plays the environment of a closed system on the world: a Bind completes
// (pod Running on the node with its groups), an evicted pod is deleted and
// recreated as Pending, a pipelined pod stays Pending. Calls are applied in the
// order they were issued. Returns the number of evictions applied.
func (w *World) Apply(calls []Call) (evictions int) {
	idx := map[string]*core.PodSpec{}
	for ji := range w.Jobs {
		for pi := range w.Jobs[ji].Pods {
			p := &w.Jobs[ji].Pods[pi]
			idx[p.Name] = p
		}
	}
	for _, c := range calls {
		p := idx[c.Pod]
		if p == nil {
			continue
		}
		switch c.Kind {
		case "bind":
			p.Status, p.Node, p.Groups = pod_status.Running, c.Node, append([]string{}, c.Groups...)
		case "evict":
			p.Status, p.Node, p.Groups = pod_status.Pending, "", nil
			evictions++
		case "pipe":
			// stays Pending
		}
	}
	return evictions
}

// canonGroups names GPU groups canonically (the scheduler draws random names): a group is identified by its node
// and the SET of pods that hold it; the result maps a pod to the sorted ranks of its groups' identities (two groups
// held by exactly the same pods are interchangeable and get the same rank, the pod then lists it twice).
func canonGroups(ps []*core.PodSpec) map[string][]int {
	members := map[string][]string{}
	for _, p := range ps {
		if p.Status == pod_status.Pending {
			continue
		}
		for _, g := range p.Groups {
			k := p.Node + "/" + g
			members[k] = append(members[k], p.Name)
		}
	}
	ident := map[string]string{}
	var idents []string
	seen := map[string]bool{}
	for k, m := range members {
		sort.Strings(m)
		id := k[:strings.Index(k, "/")] + ":" + strings.Join(m, ",")
		ident[k] = id
		if !seen[id] {
			seen[id] = true
			idents = append(idents, id)
		}
	}
	sort.Strings(idents)
	rank := map[string]int{}
	for i, id := range idents {
		rank[id] = i + 1
	}
	out := map[string][]int{}
	for _, p := range ps {
		if p.Status == pod_status.Pending {
			continue
		}
		var gs []int
		for _, g := range p.Groups {
			gs = append(gs, rank[ident[p.Node+"/"+g]])
		}
		sort.Ints(gs)
		out[p.Name] = gs
	}
	return out
}

func (w *World) podPtrs() []*core.PodSpec {
	var ps []*core.PodSpec
	for ji := range w.Jobs {
		for pi := range w.Jobs[ji].Pods {
			ps = append(ps, &w.Jobs[ji].Pods[pi])
		}
	}
	return ps
}

// Canon is the canonical world state: sorted pod -> status/node/groups, GPU groups named canonically (canonGroups).
func (w *World) Canon() string {
	ps := w.podPtrs()
	sort.Slice(ps, func(i, j int) bool { return ps[i].Name < ps[j].Name })
	cg := canonGroups(ps)
	var sb strings.Builder
	for _, p := range ps {
		var gs []string
		for _, g := range cg[p.Name] {
			gs = append(gs, fmt.Sprintf("G%d", g))
		}
		st := "P"
		if p.Status != pod_status.Pending {
			st = core.StatusTerm(p.Status)[:1] + "@" + p.Node
		}
		fmt.Fprintf(&sb, "%s=%s%s ", p.Name, st, strings.Join(gs, "+"))
	}
	return strings.TrimSpace(sb.String())
}

// Clone deep-copies the world (specs are values; slices are copied).
func (w *World) Clone() *World {
	c := *w
	c.Jobs = make([]Job, len(w.Jobs))
	for i, j := range w.Jobs {
		nj := j
		nj.Pods = make([]core.PodSpec, len(j.Pods))
		for k, p := range j.Pods {
			np := p
			np.Groups = append([]string{}, p.Groups...)
			nj.Pods[k] = np
		}
		c.Jobs[i] = nj
	}
	return &c
}
