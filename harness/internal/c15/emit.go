package c15

import (
	"fmt"
	"math"
	"os"
	"sort"
	"strings"
	"sync"

	"github.com/NVIDIA/KAI-scheduler/pkg/scheduler/api/common_info"
	"github.com/NVIDIA/KAI-scheduler/pkg/scheduler/api/pod_status"
	rs "github.com/NVIDIA/KAI-scheduler/pkg/scheduler/plugins/proportion/resource_share"

	"kaiverif/internal/core"
	u "kaiverif/internal/util"
)

const maxCycles = 12

var multFrac = map[string][2]int64{"": {1, 1}, "1": {1, 1}, "1.0": {1, 1}, "1.5": {3, 2}, "2": {2, 1}, "3": {3, 1},
	"0.5": {1, 2}, "0.4": {2, 5}, "0.25": {1, 4}, "0.9": {9, 10}}

type result struct {
	term, label string
	stats       map[string]int
	nontrivial  bool
	lasso       bool
	dump        string
}

func wstateTerm(w *World, ids *core.Ids) string {
	nodeIx := map[string]int{}
	for i, n := range w.Nodes {
		nodeIx[n.Name] = i + 1
	}
	type pe struct {
		id int
		p  *core.PodSpec
	}
	var ps []pe
	for ji := range w.Jobs {
		for pi := range w.Jobs[ji].Pods {
			p := &w.Jobs[ji].Pods[pi]
			ps = append(ps, pe{ids.Of("p:" + p.Name), p})
		}
	}
	sort.Slice(ps, func(i, j int) bool { return ps[i].id < ps[j].id })
	ren := map[string]int{}
	out := make([]string, len(ps))
	for i, e := range ps {
		loc := 0
		var gs []string
		if e.p.Status != pod_status.Pending {
			loc = nodeIx[e.p.Node]
			for _, g := range e.p.Groups {
				if _, ok := ren[g]; !ok {
					ren[g] = len(ren) + 1
				}
				gs = append(gs, u.N(uint64(ren[g])))
			}
		}
		out[i] = u.Pair(u.Pos(e.id), u.Pair(u.N(uint64(loc)), u.List(gs)))
	}
	return u.List(out)
}

func actionCode(a string) int {
	switch strings.ToLower(a) {
	case "reclaim":
		return 1
	case "preempt":
		return 2
	case "consolidation", "consolidate":
		return 3
	}
	return 0
}

// paramsTerm renders the class parameters from the exact shares of the first cycle.
// Queues and departments without any job are left out (they can neither reclaim nor be
// reclaimed from). why != "" when the hypotheses of the class (Model/ClosedSystem.v
// wf_paramsb) are not met or the shares are not exactly representable.
func paramsTerm(w *World, ids *core.Ids, ex map[string]ExactShare) (term string, why string) {
	dummy := "(mkParams 1 0 [] [] [])"
	var vals []float64
	for _, e := range ex {
		vals = append(vals, e.Fair, e.Request)
		if e.Deserved >= 0 {
			vals = append(vals, e.Deserved)
		}
	}
	k, ok := scaleOf(vals)
	if !ok {
		return dummy, "shares-not-dyadic"
	}
	sc := math.Ldexp(1, k)
	slots := int64(0)
	for _, n := range w.Nodes {
		slots += n.Gpus
	}
	sz := int64(sc)
	// deserved as the gates see it: min(deserved or unlimited, request) - see Model/ClosedSystem.v
	des := func(e ExactShare) int64 {
		d := e.Request
		if e.Deserved >= 0 && e.Deserved < d {
			d = e.Deserved
		}
		return int64(d * sc)
	}
	var qs, ds, js []string
	for _, d := range w.Depts {
		e := ex[d.Name]
		if e.Request == 0 {
			continue
		}
		f, dd := int64(e.Fair*sc), des(e)
		if f <= 0 {
			why = "department-without-fair-share"
		} else if !(dd <= f || sz*slots <= dd) {
			why = "department-deserved-above-fair-share"
		}
		ds = append(ds, fmt.Sprintf("(mkDept %s %s %s)", u.Pos(ids.Of("d:"+d.Name)), u.Z(f), u.Z(dd)))
	}
	for _, q := range w.Queues {
		e := ex[q.Name]
		if e.Request == 0 {
			continue
		}
		qs = append(qs, fmt.Sprintf("(mkQueue %s %s %s %s)", u.Pos(ids.Of("q:"+q.Name)), u.Pos(ids.Of("d:"+q.Parent)), u.Z(int64(e.Fair*sc)), u.Z(des(e))))
	}
	for _, j := range w.Jobs {
		js = append(js, fmt.Sprintf("(mkJob %s %s %s)", u.Pos(ids.Of("p:"+j.Pods[0].Name)), u.Pos(ids.Of("q:"+j.Queue)), u.Z(int64(j.Priority))))
	}
	return fmt.Sprintf("(mkParams %s %s %s %s %s)", u.Z(sz), u.Z(slots), u.List(qs), u.List(ds), u.List(js)), why
}

// runCase plays the world and renders the Coq case.
func runCase(stream string, w *World) result {
	res := result{stats: map[string]int{}}
	w0 := w.Clone()
	ids := core.NewIds()
	firstPod := map[string]string{}
	npods := 0
	for _, j := range w.Jobs {
		for k, p := range j.Pods {
			ids.Of("p:" + p.Name)
			npods++
			if k == 0 {
				firstPod[j.Name] = p.Name
			}
		}
	}
	state0 := wstateTerm(w, ids)
	exact := true
	outside := ""
	params := "(mkParams 1 0 [] [] [])"
	var shares0 map[string]ExactShare

	// the run itself, with per-cycle state terms (Run mutates w)
	tr := &Trace{LassoFrom: -1, LassoTo: -1}
	type seen struct{ at, evict int }
	first := map[string]seen{w.Canon(): {0, 0}}
	totalEv := 0
	var cycTerms, cycDesc []string
	var prevPipes []string
	notHonoured := false
	gateRefused := false
	jobQueue, podJob := map[string]string{}, map[string]string{}
	for _, j := range w.Jobs {
		jobQueue[j.Name] = j.Queue
		for _, p := range j.Pods {
			podJob[p.Name] = j.Name
		}
	}
	for c := 0; c < maxCycles; c++ {
		rec := CycleRec{Before: w.Canon()}
		b := Build(w)
		rec.Shares = readShares(b, w)
		var attrs map[common_info.QueueID]*rs.QueueAttributes
		if stream == "class" {
			var ex map[string]ExactShare
			ex, attrs = exactSharesAttrs(w, b)
			if !sharesConsistent(ex, rec.Shares) {
				exact = false
				res.stats["share-recompute-inconsistent"]++
			}
			if c == 0 {
				shares0 = ex
				var why string
				params, why = paramsTerm(w, ids, ex)
				if why != "" {
					// class-shaped world that does not meet the hypotheses of the theorem: monitor only
					stream = "general"
					outside = "(class-shaped;" + why + ")"
					res.stats["class-shaped-outside-hypotheses:"+why]++
				}
			} else {
				for q, e := range ex {
					if e.Fair != shares0[q].Fair || e.Request != shares0[q].Request {
						exact = false
						res.stats["shares-changed-between-cycles"]++
						break
					}
				}
			}
		}
		rec.Panic = RunActions(b, w.Cfg.Actions)
		rec.Calls = b.Rec.calls
		rec.Complaints = len(b.Rep.msgs)
		if attrs != nil {
			if k := gateOnActualVictims(attrs, jobQueue, podJob, multFloat(w.Cfg.Multiplier), rec.Calls); k > 0 {
				res.stats["class:real-gate-refuses-actual-victims"] += k
				gateRefused = true
			}
		}
		rec.Evictions = w.Apply(rec.Calls)
		rec.After = w.Canon()
		totalEv += rec.Evictions
		if rec.Evictions > 0 {
			tr.EvictingCycles++
		}
		if rec.Panic != "" {
			res.stats["PANIC"]++
			fmt.Fprintf(os.Stderr, "PANIC in actions: %s\n  world: %s\n", strings.SplitN(rec.Panic, "\n", 2)[0], Describe(w0))
		}
		tr.Cycles = append(tr.Cycles, rec)
		var binds, evs, pipes []string
		boundNow := map[string]bool{}
		for _, cl := range rec.Calls {
			if cl.Kind == "bind" {
				boundNow[cl.Pod] = true
			}
		}
		for _, pnd := range prevPipes {
			if !boundNow[pnd] {
				res.stats[stream+":slot-not-honoured"]++
				notHonoured = true
			}
		}
		prevPipes = nil
		for _, cl := range rec.Calls {
			if cl.Kind == "pipe" {
				prevPipes = append(prevPipes, cl.Pod)
			}
		}
		for _, cl := range rec.Calls {
			res.stats["call:"+cl.Kind+":"+cl.Action]++
			switch cl.Kind {
			case "bind":
				binds = append(binds, u.Pos(ids.Of("p:"+cl.Pod)))
			case "pipe":
				pipes = append(pipes, u.Pos(ids.Of("p:"+cl.Pod)))
			case "evict":
				pre := cl.Pod
				if fp, ok := firstPod[cl.Preemptor]; ok {
					pre = fp
				}
				evs = append(evs, u.Tuple(u.Nat(actionCode(cl.Action)), u.Pos(ids.Of("p:"+pre)), u.Pos(ids.Of("p:"+cl.Pod))))
			}
		}
		cycTerms = append(cycTerms, fmt.Sprintf("(mkCy %s %s %s %s)", u.List(binds), u.List(evs), u.List(pipes), wstateTerm(w, ids)))
		cycDesc = append(cycDesc, fmt.Sprintf("c%d: %s", c, callsDesc(rec.Calls)))
		if s, ok := first[rec.After]; ok {
			if totalEv > s.evict && tr.LassoFrom < 0 {
				tr.LassoFrom, tr.LassoTo = s.at, c
				break
			}
		} else {
			first[rec.After] = seen{c + 1, totalEv}
		}
		if len(rec.Calls) == 0 {
			break
		}
	}
	mf, ok := multFrac[w.Cfg.Multiplier]
	if !ok {
		mf = [2]int64{1, 1}
		exact = false
	}
	streamCode := 0
	if stream != "class" {
		streamCode = 1
		if i := strings.Index(stream, "("); i > 0 {
			outside, stream = stream[i:], stream[:i]
		}
	}
	res.term = fmt.Sprintf("(mkCase %s %s %s %s %s %s %s)", u.Nat(streamCode), params, u.Pair(u.Z(mf[0]), u.Z(mf[1])),
		u.Bool(exact), state0, u.List(cycTerms), u.Nat(npods))
	lasso := ""
	if tr.LassoFrom >= 0 {
		lasso = fmt.Sprintf(" LASSO(state after c%d = state before c%d)", tr.LassoTo, tr.LassoFrom)
		res.lasso = true
		res.dump = Describe(w0) + "\n" + tr.Dump()
	}
	if notHonoured {
		lasso += " SLOT-NOT-HONOURED"
	}
	if gateRefused {
		lasso += " REAL-GATE-REFUSES-ACTUAL-VICTIMS"
	}
	res.label = fmt.Sprintf("stream=%s%s %s state0{%s} =>%s  %s", stream, outside, Describe(w0), tr.Cycles[0].Before, lasso, strings.Join(cycDesc, "  |  "))
	res.stats[fmt.Sprintf("%s:cycles=%d", stream, len(tr.Cycles))]++
	res.stats[fmt.Sprintf("%s:evicting-cycles=%d", stream, tr.EvictingCycles)]++
	res.stats[stream+":runs"]++
	if !exact && stream == "class" {
		res.stats["class:inexact"]++
	}
	if tr.LassoFrom >= 0 {
		res.stats[stream+":LASSO"]++
	}
	res.nontrivial = tr.EvictingCycles > 0
	return res
}

// RunAll generates n worlds (2/3 class stream, 1/3 general stream) after the fixed corpus,
// runs them concurrently and writes the cases.
func RunAll(dir string, seed uint64, n int, tier string) error {
	out := u.NewOut(dir, "C15", "KaiV.Run.C15", "case", 25)
	type job struct {
		stream string
		w      *World
	}
	var jobs []job
	for _, name := range corpusNames {
		w := scenario(name)
		jobs = append(jobs, job{corpusStream[name], w})
	}
	for i := 0; i < n; i++ {
		st, w := GenCase(seed, i)
		jobs = append(jobs, job{st, w})
	}
	results := make([]result, len(jobs))
	var wg sync.WaitGroup
	sem := make(chan struct{}, workers())
	for i := range jobs {
		wg.Add(1)
		sem <- struct{}{}
		go func(i int) {
			defer wg.Done()
			defer func() { <-sem }()
			results[i] = runCase(jobs[i].stream, jobs[i].w)
		}(i)
	}
	wg.Wait()
	for _, r := range results {
		out.Add(r.term, r.label)
		for k, v := range r.stats {
			out.CountN(k, v)
		}
		if r.nontrivial {
			out.NonTrivial(r.label)
		}
		out.Sample(r.label)
		if r.lasso {
			fmt.Fprintf(os.Stderr, "LASSO on the real scheduler:\n%s\n", r.dump)
		}
	}
	out.Stats["rule"] = "EXPLORATION: bounded closed-system runs (<= 12 cycles) of the real actions (allocate, consolidation, reclaim, preempt[, stalegangeviction]) on generated worlds (<= 4 nodes, <= 3 queues under 1-2 departments, <= 8 jobs), with AllowConsolidatingReclaim, MaxNumberConsolidationPreemptees and the proportion plugin's relcaimerSaturationMultiplier varied; stream 'class' = single-pod 1-GPU preemptible jobs, no limits (class of theorem C15_rank_decreases, refinement-checked against Model/ClosedSystem.v); stream 'general' = gangs, fractional pods, CPU as second resource, limits, non-preemptible jobs (monitor only). Non-trivial = the run contains at least one evicting cycle; distinct by world and decisions."
	return out.Flush()
}

func multFloat(s string) float64 {
	f, ok := multFrac[s]
	if !ok {
		return 1
	}
	return float64(f[0]) / float64(f[1])
}

func workers() int {
	if v := os.Getenv("C15_WORKERS"); v != "" {
		var k int
		fmt.Sscan(v, &k)
		if k > 0 {
			return k
		}
	}
	return 12
}
