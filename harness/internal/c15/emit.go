package c15

import (
	"fmt"
	"math"
	"os"
	"sort"
	"strings"
	"sync"

	"github.com/NVIDIA/KAI-scheduler/pkg/scheduler/api/common_info"
	"github.com/NVIDIA/KAI-scheduler/pkg/scheduler/api/pod_status"
	rs "github.com/NVIDIA/KAI-scheduler/pkg/scheduler/plugins/proportion/resource_share"

	"kaiverif/internal/core"
	u "kaiverif/internal/util"
)

const maxCycles = 12

var multFrac = map[string][2]int64{"": {1, 1}, "1": {1, 1}, "1.0": {1, 1}, "1.2": {6, 5}, "1.5": {3, 2}, "2": {2, 1}, "3": {3, 1}, "5": {5, 1},
	"0.5": {1, 2}, "0.4": {2, 5}, "0.25": {1, 4}, "0.9": {9, 10}}

func multKnown(m string) bool { _, ok := multFrac[m]; return ok }

type result struct {
	term, label string
	stats       map[string]int
	nontrivial  bool
	lasso       bool
	dump        string
}

func wstateTerm(w *World, ids *core.Ids) string {
	nodeIx := map[string]int{}
	for i, n := range w.Nodes {
		nodeIx[n.Name] = i + 1
	}
	type pe struct {
		id int
		p  *core.PodSpec
	}
	var ps []pe
	for ji := range w.Jobs {
		for pi := range w.Jobs[ji].Pods {
			p := &w.Jobs[ji].Pods[pi]
			ps = append(ps, pe{ids.Of("p:" + p.Name), p})
		}
	}
	sort.Slice(ps, func(i, j int) bool { return ps[i].id < ps[j].id })
	cg := canonGroups(w.podPtrs())
	out := make([]string, len(ps))
	for i, e := range ps {
		loc := 0
		var gs []string
		if e.p.Status != pod_status.Pending {
			loc = nodeIx[e.p.Node]
			for _, g := range cg[e.p.Name] {
				gs = append(gs, u.N(uint64(g)))
			}
		}
		out[i] = u.Pair(u.Pos(e.id), u.Pair(u.N(uint64(loc)), u.List(gs)))
	}
	return u.List(out)
}

// micro: GPUs -> millionths of a GPU (the Coq side compares with the tolerances of Run/C15.v size_ok)
func micro(x float64) int64 { return int64(math.Round(x * 1e6)) }

func sizeActionCode(a string) int {
	if a == "allocate" {
		return 0
	}
	if c := actionCode(a); c > 0 {
		return c
	}
	return 4
}

func actionCode(a string) int {
	switch strings.ToLower(a) {
	case "reclaim":
		return 1
	case "preempt":
		return 2
	case "consolidation", "consolidate":
		return 3
	}
	return 0
}

// paramsTerm renders the class parameters from the exact shares of the first cycle.
// Queues and departments without any job are left out (they can neither reclaim nor be
// reclaimed from). why != "" when the hypotheses of the class (Model/ClosedSystem.v
// wf_paramsb) are not met or the shares are not exactly representable.
func paramsTerm(w *World, ids *core.Ids, ex map[string]ExactShare) (term string, why string) {
	dummy := "(mkParams 1 0 [] [] [])"
	var vals []float64
	for _, e := range ex {
		vals = append(vals, e.Fair, e.Request)
		if e.Deserved >= 0 {
			vals = append(vals, e.Deserved)
		}
	}
	k, ok := scaleOf(vals)
	if !ok {
		return dummy, "shares-not-dyadic"
	}
	sc := math.Ldexp(1, k)
	slots := int64(0)
	for _, n := range w.Nodes {
		slots += n.Gpus
	}
	sz := int64(sc)
	// deserved as the gates see it: min(deserved or unlimited, request) - see Model/ClosedSystem.v
	des := func(e ExactShare) int64 {
		d := e.Request
		if e.Deserved >= 0 && e.Deserved < d {
			d = e.Deserved
		}
		return int64(d * sc)
	}
	var qs, ds, js []string
	for _, d := range w.Depts {
		e := ex[d.Name]
		if e.Request == 0 {
			continue
		}
		f, dd := int64(e.Fair*sc), des(e)
		if f <= 0 {
			why = "department-without-fair-share"
		} else if !(dd <= f || sz*slots <= dd) {
			why = "department-deserved-above-fair-share"
		}
		ds = append(ds, fmt.Sprintf("(mkDept %s %s %s)", u.Pos(ids.Of("d:"+d.Name)), u.Z(f), u.Z(dd)))
	}
	for _, q := range w.Queues {
		e := ex[q.Name]
		if e.Request == 0 {
			continue
		}
		qs = append(qs, fmt.Sprintf("(mkQueue %s %s %s %s)", u.Pos(ids.Of("q:"+q.Name)), u.Pos(ids.Of("d:"+q.Parent)), u.Z(int64(e.Fair*sc)), u.Z(des(e))))
	}
	for _, j := range w.Jobs {
		js = append(js, fmt.Sprintf("(mkJob %s %s %s)", u.Pos(ids.Of("p:"+j.Pods[0].Name)), u.Pos(ids.Of("q:"+j.Queue)), u.Z(int64(j.Priority))))
	}
	return fmt.Sprintf("(mkParams %s %s %s %s %s)", u.Z(sz), u.Z(slots), u.List(qs), u.List(ds), u.List(js)), why
}

// runCase plays the world and renders the Coq case.
func runCase(stream string, w *World) result {
	res := result{stats: map[string]int{}}
	w0 := w.Clone()
	ids := core.NewIds()
	firstPod := map[string]string{}
	npods := 0
	for _, j := range w.Jobs {
		for k, p := range j.Pods {
			ids.Of("p:" + p.Name)
			npods++
			if k == 0 {
				firstPod[j.Name] = p.Name
			}
		}
	}
	state0 := wstateTerm(w, ids)
	exact := true
	outside := ""
	params := "(mkParams 1 0 [] [] [])"
	var shares0 map[string]ExactShare

	// the run itself, with per-cycle state terms (Run mutates w)
	tr := &Trace{LassoFrom: -1, LassoTo: -1}
	type seen struct{ at, evict int }
	first := map[string]seen{w.Canon(): {0, 0}}
	totalEv := 0
	var cycTerms, cycDesc, satTerms []string
	var prevPipes []string
	notHonoured := false
	rebound := false
	var prevEvs [][2]string
	gateRefused := false
	sizeTag := ""
	fairTag := ""
	jobQueue, podJob := map[string]string{}, map[string]string{}
	for _, j := range w.Jobs {
		jobQueue[j.Name] = j.Queue
		for _, p := range j.Pods {
			podJob[p.Name] = j.Name
		}
	}
	for c := 0; c < maxCycles; c++ {
		rec := CycleRec{Before: w.Canon()}
		b := Build(w)
		rec.Shares = readShares(b, w)
		var attrs map[common_info.QueueID]*rs.QueueAttributes
		if stream == "class" {
			var ex map[string]ExactShare
			ex, attrs = exactSharesAttrs(w, b)
			if !sharesConsistent(ex, rec.Shares) {
				exact = false
				res.stats["share-recompute-inconsistent"]++
				if fairTag == "" {
					fairTag = fmt.Sprintf(" FAIR-SHARE-NOT-REPRODUCIBLE(c%d: the session's shares differ from a second computation on the same queue attributes)", c)
				}
				if os.Getenv("C15_DEBUG_EXACT") != "" {
					fmt.Fprintf(os.Stderr, "INEXACT recompute c%d %s\n  state %s\n  ex=%v\n  ssn=%v\n", c, Describe(w0), w.Canon(), ex, rec.Shares)
				}
			}
			if c == 0 {
				if v := fairShareVariants(w, b, fairShareSamples); len(v) > 1 {
					exact = false
					res.stats["fair-share-not-reproducible"]++
					if fairTag == "" {
						fairTag = fmt.Sprintf(" FAIR-SHARE-NOT-REPRODUCIBLE(c0: %s | %s)", v[0], v[1])
					}
				}
				shares0 = ex
				var why string
				params, why = paramsTerm(w, ids, ex)
				if why != "" {
					// class-shaped world that does not meet the hypotheses of the theorem: monitor only
					stream = "general"
					outside = "(class-shaped;" + why + ")"
					res.stats["class-shaped-outside-hypotheses:"+why]++
				}
			} else {
				for q, e := range ex {
					if e.Fair != shares0[q].Fair || e.Request != shares0[q].Request {
						exact = false
						res.stats["shares-changed-between-cycles"]++
						if fairTag == "" {
							fairTag = fmt.Sprintf(" FAIR-SHARE-NOT-REPRODUCIBLE(c%d: %s fair %g request %g, in c0 fair %g request %g)", c, q, e.Fair, e.Request, shares0[q].Fair, shares0[q].Request)
						}
						if os.Getenv("C15_DEBUG_EXACT") != "" {
							fmt.Fprintf(os.Stderr, "INEXACT changed c%d %s\n  state %s\n  queue %s now=%v first=%v\n", c, Describe(w0), w.Canon(), q, e, shares0[q])
						}
						break
					}
				}
			}
		}
		rec.Panic = RunActions(b, w.Cfg.Actions)
		rec.Calls = b.Rec.calls
		rec.Complaints = len(b.Rep.msgs)
		rec.Sizes, rec.Partial = b.Sizes, b.PartialPlacements
		rec.Sats = satObservations(w, b, rec.Calls)
		for _, o := range rec.Sats {
			verdict := "admits"
			if !o.RefAdmits {
				verdict = "refuses"
			}
			switch {
			case !o.Exact:
				res.stats["saturation:not-compared(not dyadic or decided by float rounding)"]++
			case o.GateDisagrees():
				res.stats["saturation:REAL-GATE-ADMITS-WHAT-THE-RULE-REFUSES"]++
			default:
				res.stats[fmt.Sprintf("saturation:%s:m=%s:rule-%s:real-gate-%v", strings.SplitN(stream, "(", 2)[0], multName(o.Mult), verdict, o.RealAdmits)]++
			}
			if o.Exact {
				k, _ := scaleOf([]float64{o.X, o.Fr, o.Y, o.Fe})
				sc := math.Ldexp(1, k)
				satTerms = append(satTerms, fmt.Sprintf("(mkSat %s %s %s %s %s %s %s)", u.Nat(c), u.Z(int64(o.X*sc)), u.Z(int64(o.Fr*sc)),
					u.Z(int64(o.Y*sc)), u.Z(int64(o.Fe*sc)), u.Bool(o.RefAdmits), u.Bool(o.RealAdmits)))
			}
		}
		if attrs != nil {
			if k := gateOnActualVictims(attrs, jobQueue, podJob, multFloat(w.Cfg.Multiplier), rec.Calls); k > 0 {
				res.stats["class:real-gate-refuses-actual-victims"] += k
				gateRefused = true
			}
		}
		rec.Evictions = w.Apply(rec.Calls)
		rec.After = w.Canon()
		totalEv += rec.Evictions
		if rec.Evictions > 0 {
			tr.EvictingCycles++
		}
		if rec.Panic != "" {
			res.stats["PANIC"]++
			fmt.Fprintf(os.Stderr, "PANIC in actions: %s\n  world: %s\n", strings.SplitN(rec.Panic, "\n", 2)[0], Describe(w0))
		}
		tr.Cycles = append(tr.Cycles, rec)
		var binds, evs, pipes []string
		boundNow := map[string]bool{}
		for _, cl := range rec.Calls {
			if cl.Kind == "bind" {
				boundNow[cl.Pod] = true
			}
		}
		for _, pnd := range prevPipes {
			if !boundNow[pnd] {
				res.stats[stream+":slot-not-honoured"]++
				notHonoured = true
			}
		}
		prevPipes = nil
		for _, cl := range rec.Calls {
			if cl.Kind == "pipe" {
				prevPipes = append(prevPipes, cl.Pod)
			}
		}
		// simulation/allocate order: a pod evicted in the previous cycle is bound again by this cycle's allocate
		// although the pod it was evicted for is not bound before it (Run/C15.v order_consistent)
		bindIx := map[string]int{}
		for i, cl := range rec.Calls {
			if cl.Kind == "bind" {
				bindIx[cl.Pod] = i + 1
			}
		}
		for _, ev := range prevEvs {
			if vi := bindIx[ev[1]]; vi > 0 {
				if ji := bindIx[ev[0]]; ji == 0 || ji > vi {
					res.stats[stream+":victim-rebound-before-its-reclaimer"]++
					rebound = true
				}
			}
		}
		prevEvs = nil
		for _, cl := range rec.Calls {
			if cl.Kind == "evict" && (cl.Action == "reclaim" || cl.Action == "preempt") {
				if fp, ok := firstPod[cl.Preemptor]; ok {
					prevEvs = append(prevEvs, [2]string{fp, cl.Pod})
				}
			}
		}
		for _, cl := range rec.Calls {
			res.stats["call:"+cl.Kind+":"+cl.Action]++
			switch cl.Kind {
			case "bind":
				binds = append(binds, u.Pos(ids.Of("p:"+cl.Pod)))
			case "pipe":
				pipes = append(pipes, u.Pos(ids.Of("p:"+cl.Pod)))
			case "evict":
				pre := cl.Pod
				if fp, ok := firstPod[cl.Preemptor]; ok {
					pre = fp
				}
				evs = append(evs, u.Tuple(u.Nat(actionCode(cl.Action)), u.Pos(ids.Of("p:"+pre)), u.Pos(ids.Of("p:"+cl.Pod))))
			}
		}
		var sizes []string
		res.stats["size:partial-placement"] += rec.Partial
		for _, o := range rec.Sizes {
			tag := "consistent"
			if o.Undercounted() {
				tag = "UNDERCOUNTED"
				if sizeTag == "" {
					sizeTag = fmt.Sprintf(" SIZE-UNDERCOUNTED(c%d %s,%s,%s: counted as %g GPUs, charged %g)", c, o.Job, o.Action, o.Kind, o.Gate, o.Charged)
				}
			} else if o.Overcounted() {
				tag = "OVERCOUNTED"
				if sizeTag == "" {
					sizeTag = fmt.Sprintf(" SIZE-OVERCOUNTED(c%d %s,%s,%s: counted as %g GPUs, charged %g)", c, o.Job, o.Action, o.Kind, o.Gate, o.Charged)
				}
			} else if !o.Homogeneous {
				tag = "not-undercounted(other-device-memory)"
			}
			ev := ""
			if o.Evicting {
				ev = ":evicting"
			}
			res.stats["size:"+o.Kind+":"+o.Action+ev+":"+tag]++
			sizes = append(sizes, fmt.Sprintf("(mkSz %s %s %s %s %s %s %s)", u.Nat(sizeActionCode(o.Action)), u.Pos(ids.Of("p:"+firstPod[o.Job])),
				u.Z(micro(o.Gate)), u.Z(micro(o.Charged)), u.Z(o.Devices), u.Bool(o.Homogeneous), u.Bool(o.Evicting)))
		}
		cycTerms = append(cycTerms, fmt.Sprintf("(mkCy %s %s %s %s %s)", u.List(binds), u.List(evs), u.List(pipes), wstateTerm(w, ids), u.List(sizes)))
		d := fmt.Sprintf("c%d: %s", c, callsDesc(rec.Calls))
		if len(rec.Sizes) > 0 && stream == "sized" {
			d += " sizes{" + sizesDesc(rec.Sizes) + "}"
		}
		cycDesc = append(cycDesc, d)
		if s, ok := first[rec.After]; ok {
			if totalEv > s.evict && tr.LassoFrom < 0 {
				tr.LassoFrom, tr.LassoTo = s.at, c
				break
			}
		} else {
			first[rec.After] = seen{c + 1, totalEv}
		}
		if len(rec.Calls) == 0 {
			break
		}
	}
	mf, ok := multFrac[w.Cfg.Multiplier]
	if !ok {
		mf = [2]int64{1, 1}
		exact = false
	}
	streamCode := 0
	notCompared := ""
	if stream == "class" && !exact {
		// the model has ONE constant fair share per queue; for this world the real plugin has no such thing (its fair
		// shares are not reproducible from call to call, or the multiplier is not one of the known fractions): no
		// correspondence is claimed - the case is emitted as monitor-only (stream code 1), the label keeps stream=class
		streamCode = 1
		notCompared = "(inexact, not compared)"
		res.stats["class:inexact-not-compared"]++
	}
	if stream != "class" {
		streamCode = 1
		if stream == "hier" {
			streamCode = 2
		}
		if stream == "sized" {
			streamCode = 3
		}
		if i := strings.Index(stream, "("); i > 0 {
			outside, stream = stream[i:], stream[:i]
		}
	}
	res.term = fmt.Sprintf("(mkCase %s %s %s %s %s %s %s %s)", u.Nat(streamCode), params, u.Pair(u.Z(mf[0]), u.Z(mf[1])),
		u.Bool(exact), state0, u.List(cycTerms), u.Nat(npods), u.List(satTerms))
	lasso := ""
	if tr.LassoFrom >= 0 {
		lasso = fmt.Sprintf(" LASSO(state after c%d = state before c%d)", tr.LassoTo, tr.LassoFrom)
		res.lasso = true
		res.dump = Describe(w0) + "\n" + tr.Dump()
	}
	if tr.LassoFrom >= 0 {
		lasso += lassoTags(w0, tr)
	}
	if notHonoured {
		lasso += " SLOT-NOT-HONOURED"
	}
	if gateRefused {
		lasso += " REAL-GATE-REFUSES-ACTUAL-VICTIMS"
	}
	if rebound {
		lasso += " VICTIM-REBOUND-BEFORE-ITS-RECLAIMER"
	}
	lasso += sizeTag
	if !strings.Contains(lasso, "FAIR-SHARE-NOT-REPRODUCIBLE") {
		lasso += fairTag
	}
	outside += notCompared
	res.label = fmt.Sprintf("stream=%s%s %s state0{%s} =>%s  %s", stream, outside, Describe(w0), tr.Cycles[0].Before, lasso, strings.Join(cycDesc, "  |  "))
	res.stats[fmt.Sprintf("%s:cycles=%d", stream, len(tr.Cycles))]++
	res.stats[fmt.Sprintf("%s:evicting-cycles=%d", stream, tr.EvictingCycles)]++
	res.stats[stream+":runs"]++
	res.stats[fmt.Sprintf("multiplier:%s:m=%s", stream, multName(w.Cfg.Multiplier))]++
	if !exact && stream == "class" {
		res.stats["class:inexact"]++
	} else if stream == "class" {
		res.stats["class:compared"]++
	}
	if tr.LassoFrom >= 0 {
		res.stats[stream+":LASSO"]++
	}
	res.nontrivial = tr.EvictingCycles > 0
	return res
}

// lassoTags describes HOW a lasso came about, from what is observable without hooks:
//
//	SIM-REPLACED-OWN-DEPT  an eviction inside the loop was committed from a solver statement that had evicted and
//	                       re-placed ("unevicted") a pod of the reclaimer's OWN department (simTrack)
//	SIM-REPLACED           ... re-placed some other pod
//	UNSTABLE(k/10)         the same world, run 10 times from its initial state, does not always take the same decisions
//	                       (they depend on Go map iteration order inside the scheduler); k of the 10 runs end in a lasso
func lassoTags(w0 *World, tr *Trace) string {
	jobQueue, podJob, queueDept := map[string]string{}, map[string]string{}, map[string]string{}
	for _, q := range w0.Queues {
		queueDept[q.Name] = q.Parent
	}
	for _, j := range w0.Jobs {
		jobQueue[j.Name] = j.Queue
		for _, p := range j.Pods {
			podJob[p.Name] = j.Name
		}
	}
	own, other := false, false
	for c := tr.LassoFrom; c <= tr.LassoTo && c < len(tr.Cycles); c++ {
		for _, cl := range tr.Cycles[c].Calls {
			if cl.Kind != "evict" {
				continue
			}
			for _, rp := range cl.Replaced {
				if queueDept[jobQueue[podJob[rp]]] == queueDept[jobQueue[cl.Preemptor]] {
					own = true
				} else {
					other = true
				}
			}
		}
	}
	tags := ""
	if gd := gateDisagreement(tr); gd != "" {
		// an eviction of the loop that the real gate admitted although the documented saturation rule refuses it on the
		// same inputs: THAT is what keeps the loop going, whatever the simulation re-placed on the way.  The mechanism
		// tags SIM-REPLACED* (known finding C15-sim-replaced-victims-reorder: legitimate evictions undone by a different
		// job order) are reserved for loops whose evictions the documented gate admits.
		tags += " GATE-ADMITS-WHAT-THE-SATURATION-RULE-REFUSES(" + gd + ")"
		if own {
			tags += " (the committed scenario also re-placed pods of the reclaimer's own department)"
		} else if other {
			tags += " (the committed scenario also re-placed other pods)"
		}
	} else if own {
		tags += " SIM-REPLACED-OWN-DEPT"
	} else if other {
		tags += " SIM-REPLACED"
	}
	// mechanism tags (decided on the mechanism, not on a sample of runs; order.go):
	//   UNSTABLE(push-order ...)          in a state of the loop (or in the state a committed eviction of the loop was
	//                                     simulated on) the pop order of the real utils.JobsOrderByQueues depends on the
	//                                     order in which the same jobs are pushed = on Go map iteration order
	//   FAIR-SHARE-NOT-REPRODUCIBLE(...)  in a state of the loop the real resource_division.SetResourcesShare gives
	//                                     different fair shares for the same queue attributes from call to call
	if od := orderDependence(w0, tr); od != "" {
		tags += " UNSTABLE(push-order " + od + ")"
	}
	if fs := fairShareDependence(w0, tr); fs != "" {
		tags += " FAIR-SHARE-NOT-REPRODUCIBLE(" + fs + ")"
	}
	// the same world again, 9 times: any run whose decisions differ from this one makes the world UNSTABLE
	sig := func(t *Trace) string {
		// per cycle the SET of (decision, pod): neither the order of the evictions of one scenario nor the node
		// chosen counts as a difference
		var d []string
		for _, c := range t.Cycles {
			var e []string
			for _, cl := range c.Calls {
				e = append(e, cl.Kind+":"+cl.Pod)
			}
			sort.Strings(e)
			d = append(d, strings.Join(e, ","))
		}
		return strings.Join(d, "|")
	}
	ref, k, differs := sig(tr), 1, false
	for i := 0; i < 9; i++ {
		t := Run(w0.Clone(), maxCycles)
		if t.LassoFrom >= 0 {
			k++
		}
		if sig(t) != ref {
			differs = true
		}
	}
	if differs || k < 10 {
		tags += fmt.Sprintf(" UNSTABLE(%d/10)", k)
	}
	return tags
}

// RunAll runs the fixed corpus (flat worlds, hierarchical worlds, the enumerated hierarchical family, the sized worlds
// and their enumerated family), then n generated worlds (1/2 class stream, 1/2 general stream), hierN random
// hierarchical worlds and sizedN random sized worlds, concurrently, and writes the cases.
func RunAll(dir string, seed uint64, n int, tier string, hierN, sizedN int) error {
	out := u.NewOut(dir, "C15", "KaiV.Run.C15", "case", 25)
	out.Flags = true
	type job struct {
		stream string
		w      *World
	}
	var jobs []job
	for _, name := range corpusNames {
		w := scenario(name)
		jobs = append(jobs, job{corpusStream[name], w})
	}
	for _, name := range hierCorpus {
		jobs = append(jobs, job{"hier", scenario(name)})
	}
	// the enumerated neighbourhood of the seeded/C15-2 world (deterministic)
	for _, w := range hierFamily() {
		jobs = append(jobs, job{"hier", w})
	}
	// the enumerated neighbourhood of the seeded/C15-4 world: valid saturation multipliers 1 .. 5 x node layouts x ...
	for _, w := range satFamily() {
		jobs = append(jobs, job{"hier", w})
	}
	// the sized worlds: the world of seeded/C15-3/README.md, its one-device control, variations, and the enumerated
	// neighbourhood (deterministic); stream "sized" - no listed finding covers a lasso here
	for _, name := range sizedCorpus {
		jobs = append(jobs, job{"sized", scenario(name)})
	}
	for _, w := range sizedFamily() {
		jobs = append(jobs, job{"sized", w})
	}
	for i := 0; i < n; i++ {
		st, w := GenCase(seed, i)
		jobs = append(jobs, job{st, w})
	}
	// random hierarchical worlds, appended (the index mapping of GenCase stays as it was); -probe hier:<seed>:<k>.
	// Default: thorough tier n/5, quick tier none - on the unchanged tree about 0.4% of them end in a lasso
	// (tags SIM-REPLACED* / UNSTABLE, proposed findings of .work/C15-known.json), some of them only in some runs,
	// so they cannot be part of a check that has to be quiet and reproducible before those findings are listed.
	if hierN < 0 {
		hierN = 0
		if tier == "thorough" {
			hierN = n / 5
		}
	}
	for k := 0; k < hierN; k++ {
		jobs = append(jobs, job{"hier", GenHier(u.NewRng(seed ^ hierSalt).Fork(uint64(k)))})
	}
	// random sized worlds (GenSized), appended; -probe sized:<seed>:<k>
	if sizedN < 0 {
		sizedN = n / 10
		if tier == "thorough" {
			sizedN = n / 5
		}
	}
	for k := 0; k < sizedN; k++ {
		jobs = append(jobs, job{randomSizedStream, GenSized(u.NewRng(seed ^ sizedSalt).Fork(uint64(k)))})
	}
	results := make([]result, len(jobs))
	var wg sync.WaitGroup
	sem := make(chan struct{}, workers())
	for i := range jobs {
		wg.Add(1)
		sem <- struct{}{}
		go func(i int) {
			defer wg.Done()
			defer func() { <-sem }()
			results[i] = runCase(jobs[i].stream, jobs[i].w)
		}(i)
	}
	wg.Wait()
	for _, r := range results {
		out.Add(r.term, r.label)
		for k, v := range r.stats {
			out.CountN(k, v)
		}
		if r.nontrivial {
			out.NonTrivial(r.label)
		}
		out.Sample(r.label)
		if r.lasso {
			fmt.Fprintf(os.Stderr, "LASSO on the real scheduler:\n%s\n", r.dump)
		}
	}
	out.Stats["rule"] = "EXPLORATION: bounded closed-system runs (<= 12 cycles; an evicted pod is pending again, a pipelined (nominated) pod is simply pending again in the next cycle, a bind completes; lasso = a canonical world state seen before with an eviction in between) of the real actions (allocate, consolidation, reclaim, preempt[, stalegangeviction]) with AllowConsolidatingReclaim, MaxNumberConsolidationPreemptees and the proportion plugin's relcaimerSaturationMultiplier varied. World shapes: (1) fixed corpus, run first: 13 flat / two-level worlds (gate ping-pong, equal-priority preemption, the minimal worlds of the known findings) + 6 hierarchical worlds (the world of seeded/C15-2/README.md: two departments, the reclaimer's department with two leaf queues, a 3-GPU pending job of the sibling queue first in the department next to a 1-GPU job entitled to reclaim; variations: no big job, big job in the victim's department, three departments, big job schedulable, department limit instead of quota) + 360 enumerated hierarchical worlds (hierFamily: position / size of the big job x own running job x how it gets in front x overshoot of the victim's department x {plain, department limit, three departments, 2-GPU reclaimer, no consolidating reclaim}) + the SATURATION worlds: hier-saturation-m1 / -m1.5 / -m2 / -m3 = the world of seeded/C15-4/README.md (7 GPUs on nodes of 3 and 4; dept-a quota 3 with projects a-new, a-old of quota 2 each, dept-b quota 4 with b-big quota 3, b-small quota 2: project quotas over-subscribe the departments; a-new-train, 2 GPUs, pending; only the saturation rule refuses its reclaim of b-small-train: dept-a 4/3 x m >= dept-b 3/4 for every valid m) under four multipliers + 192 enumerated neighbours (satFamily: multiplier 1, 1.2, 1.5, 2, 3, 5 x node layout 3+4 / 7 / 4+3 / 2+5 x a-old as 1+1 or 2 GPUs x consolidating reclaim on / off x reclaimer of 2 or 1 GPUs; -probe satfam:<k>), no lasso on the unchanged tree; (2) n generated worlds: stream 'class' (1/2: <= 4 nodes, 2-4 leaf queues under 1-2 departments, <= 8 single-pod 1-GPU preemptible jobs, no limits: the class of theorem C15_rank_decreases, refinement-checked against Model/ClosedSystem.v incl. order consistency), stream 'general' (1/4: gangs, fractional pods, CPU as second resource, limits, non-preemptible jobs; 1/4 class-shaped with queue priorities / over-subscribed quotas; monitor only); (3) stream 'hier' random worlds (2 of 5 from genHierSat: 2-3 nodes of DIFFERENT sizes 2-5, 2-3 departments whose quotas split the cluster, 1-3 project queues per department with quotas between half and all of the department's quota - two of them over-subscribe it -, the first department below its quota with a pending job of 1-3 GPUs and small running jobs of a sibling project spread over the nodes, the others above; multiplier absent / 1 / 1.2 / 1.5 / 2 / 3 / 5 - valid settings only; 3 of 5 from GenHier: 1-2 nodes of 4-8 GPUs, 2-3 departments with quota and sometimes limit and priority, 1-3 leaf queues each with quotas that may over-subscribe the department, limits, over-quota weights 0-3, queue priorities, 4-12 single-pod jobs of 1-4 GPUs with varied priorities / creation times, half of them built around a big pending job of a sibling leaf queue): thorough tier n/5, quick tier none (flag -hier K). (4) SIZED worlds (sized.go): jobs whose size is not a number of whole GPUs - gpu-memory requests (devices of memory 100 as test_utils' fake nodes report it, and 16 / 40 / 80 GiB devices), gpu-fraction requests, both with gpu-fraction-num-devices 1-3 (pods built through core.PodSpec -> the real pod_info.NewTaskInfo) - against ELASTIC running jobs (minAvailable < pods) in queues with deserved quota / over-quota weight 0 / fair share at the boundary: stream 'sized' = 9 fixed worlds (sized-elastic-gpumem-2dev = the world of seeded/C15-3/README.md exactly, sized-elastic-gpumem-1dev = its one-device control, 3 devices, the same sizes as gpu-fraction requests, 16 GiB devices, a gang as victim, a reclaimer that really fits its fair share, sized-kinds = one pending job of every kind) + 144 enumerated neighbours (sizedFamily: kind x devices 1-3 x sizes x quotas x which job is older; -probe sizedfam:<k>), run in every tier, no lasso and no size disagreement on the unchanged tree, identical over 6 repeated runs; no listed finding covers stream 'sized'. Random sized worlds (GenSized: 1-2 nodes of 2-4 GPUs, 2-3 queues, 3-7 jobs of every kind, 1-3 pods, gangs and elastic jobs, most of them running with their GPU groups; -probe sized:<seed>:<k>) extend the general stream and are labelled stream=general(sized): quick tier n/10, thorough tier n/5 (flag -sized K); on the unchanged tree about 0.6% end in a lasso (survey over seeds 1-3: 50 of 8000, the count varies by one or two between runs), every one of the form bind(X) ... evict(X) inside one cycle except one of the period-2 form (evicted and moved, bound back next cycle) - the two forms of known finding C15-rebound-pod-evicted-again -, no size disagreement. SIZE OBSERVATIONS (every stream, every cycle, every action): right before an action the harness asks the real podgroup_info.GetTasksToAllocate / GetTasksToAllocateInitResource (the value proportion.buildReclaimerInfo hands the reclaim gate) for every job with pending pods; after the action, for every job of which exactly those pods were placed, the sum of utils.QuantifyResourceRequirements(AcceptedResource) is what the queue was charged; monitor: charged <= counted + 0.01 GPU per shared device (the charged portion of a device is rounded up to 1/100), and counted <= charged when the pods sit on devices of the memory the session divides by (label tags SIZE-UNDERCOUNTED / SIZE-OVERCOUNTED; counts size:<kind>:<action>[:evicting]:<outcome>). Lassos on the unchanged tree: corpus and enumerated hierarchical worlds 0 of 366; random hierarchical worlds 27 of 6000 (18 with tag SIM-REPLACED*: the committed scenario had evicted and re-placed other pods; 9 + 1 of those UNSTABLE: the decisions of the same world differ from run to run, they depend on Go map iteration order) - proposed findings, see checks.d; general stream about 8 per 1500 (known finding). SATURATION OBSERVATIONS (satgate.go; every world of single-pod whole-GPU jobs: class, class-shaped and hierarchical streams; counts saturation:<stream>:m=<multiplier>:rule-<verdict>:real-gate-<verdict>, multiplier distribution multiplier:<stream>:m=<multiplier>): for every reclaim eviction the real action committed the harness rebuilds what the scenario validator was handed (queue attributes of the committed state with the real SetResourcesShare, reclaimer, victims: with consolidating reclaim the pods that stay evicted, without it every pod the scenario evicted), calls the REAL reclaimable.Reclaimable on it and evaluates the documented saturation rule (refuse iff x/Fr > 1, Fe > 0 and (x/Fr) * m >= y/Fe, m = clamped relcaimerSaturationMultiplier on the RECLAIMER's ratio) for every pair of queues the real code compares; Run/C15.v sats_agree: the model's saturation_ok gives the harness's verdict and admits whatever the real gate admitted. Lasso tags are decided on the mechanism, the same in every stream and in the search rounds: GATE-ADMITS-WHAT-THE-SATURATION-RULE-REFUSES (an eviction of the loop that the real gate admitted although the documented rule refuses it on the same inputs; no listed finding covers it, and it takes the place of SIM-REPLACED*, which is reserved for loops whose evictions the documented gate admits), SIM-REPLACED* (framework.EventHandler on the session's statements), UNSTABLE(push-order ...) (the real utils.JobsOrderByQueues filled through PushJob with the same jobs in 40+ orders on the states of the loop and on the states its evictions were simulated on gives different pop sequences), FAIR-SHARE-NOT-REPRODUCIBLE(...) (32 calls of the real SetResourcesShare on the same attributes disagree), plus the sample tag UNSTABLE(k/10) from re-running the world. Class-stream worlds whose fair shares are not reproducible are NOT compared with the model (label stream=class(inexact, not compared), counts class:inexact-not-compared / class:compared); the monitor stays on. Non-trivial = the run contains at least one evicting cycle; distinct by world and decisions."
	return out.Flush()
}

func multFloat(s string) float64 {
	f, ok := multFrac[s]
	if !ok {
		return 1
	}
	return float64(f[0]) / float64(f[1])
}

func workers() int {
	if v := os.Getenv("C15_WORKERS"); v != "" {
		var k int
		fmt.Sscan(v, &k)
		if k > 0 {
			return k
		}
	}
	return 48 // a cycle spends most of its wall time waiting (fake informers), not computing
}
