// Package c12 drives the BindRequest hand-off between scheduler and binder on
// one shared object set: the real BindRequestReconciler.Reconcile on
// controller-runtime's fake client (status subresource enabled for
// BindRequest) with a binder stub that fails or succeeds on demand, and the
// real scheduler cache (cache.New over fake clientsets: Bind -> createBindRequest,
// Snapshot -> snapshotBindRequests / getTaskStatus / AddTasksToNode /
// cleanStaleBindRequest) rebuilt from that object set at every scheduler step.
// Every history is emitted as a Coq case for Run/C12.v.
package c12

import (
	"context"
	"errors"
	"fmt"
	"sort"
	"strconv"
	"strings"
	"sync"

	"flag"
	"io"

	"github.com/go-logr/logr"
	v1 "k8s.io/api/core/v1"
	"k8s.io/apimachinery/pkg/api/resource"
	metav1 "k8s.io/apimachinery/pkg/apis/meta/v1"
	"k8s.io/apimachinery/pkg/runtime"
	"k8s.io/apimachinery/pkg/types"
	kubefake "k8s.io/client-go/kubernetes/fake"
	"k8s.io/client-go/tools/record"
	"k8s.io/klog/v2"
	ctrl "sigs.k8s.io/controller-runtime"
	"sigs.k8s.io/controller-runtime/pkg/client"
	crfake "sigs.k8s.io/controller-runtime/pkg/client/fake"
	crlog "sigs.k8s.io/controller-runtime/pkg/log"

	kaifake "github.com/NVIDIA/KAI-scheduler/pkg/apis/client/clientset/versioned/fake"
	kaischeme "github.com/NVIDIA/KAI-scheduler/pkg/apis/client/clientset/versioned/scheme"
	schedulingv1alpha2 "github.com/NVIDIA/KAI-scheduler/pkg/apis/scheduling/v1alpha2"
	"github.com/NVIDIA/KAI-scheduler/pkg/binder/controllers"
	"github.com/NVIDIA/KAI-scheduler/pkg/common/resources"
	"github.com/NVIDIA/KAI-scheduler/pkg/scheduler/api/bindrequest_info"
	"github.com/NVIDIA/KAI-scheduler/pkg/scheduler/api/pod_info"
	"github.com/NVIDIA/KAI-scheduler/pkg/scheduler/api/pod_status"
	"github.com/NVIDIA/KAI-scheduler/pkg/scheduler/api/resource_info"
	"github.com/NVIDIA/KAI-scheduler/pkg/scheduler/cache"
	"github.com/NVIDIA/KAI-scheduler/pkg/scheduler/conf"

	u "kaiverif/internal/util"
)

const (
	ns        = "ns"
	finalizer = "kaiverif/hold"
	gpuGroup  = "runai-gpu-group"
)

// ---- abstract inputs ---------------------------------------------------------

type podS struct {
	ID       int    `json:"id"`
	Node     int    `json:"node"` // 0 = unbound
	Phase    string `json:"phase"`
	Deleting bool   `json:"deleting,omitempty"`
	Gated    bool   `json:"gated,omitempty"`
	Groups   []int  `json:"groups,omitempty"`
	Req      int64  `json:"cpuMillis"`
}

type brS struct {
	Pod      int    `json:"pod"`
	Node     int    `json:"node"`
	Groups   []int  `json:"groups,omitempty"`
	Limit    *int32 `json:"backoffLimit"`
	Phase    string `json:"phase"`
	Attempts int32  `json:"failedAttempts"`
}

type storeS struct {
	Pods  []podS `json:"pods"`
	Nodes []int  `json:"nodes"`
	BRs   []brS  `json:"bindRequests"`
}

type event struct {
	Kind   string // commit snapshot reconcile bindpod delnode addnode delbr addpod delpod phase deleting
	P, N   int
	Groups []int
	Limit  *int32
	Fail   bool
	Pod    podS
	Phase  string
}

func pname(i int) string { return "p" + strconv.Itoa(i) }
func nname(i int) string { return "n" + strconv.Itoa(i) }
func gname(i int) string { return "g" + strconv.Itoa(i) }
func idOf(s string) int {
	if len(s) < 2 {
		return 0
	}
	i, _ := strconv.Atoi(s[1:])
	return i
}

func (e event) String() string {
	lim := "nil"
	if e.Limit != nil {
		lim = strconv.Itoa(int(*e.Limit))
	}
	switch e.Kind {
	case "commit":
		return fmt.Sprintf("C%d@%dL%s%s", e.P, e.N, lim, grp(e.Groups))
	case "snapshot":
		return "S"
	case "reconcile":
		if e.Fail {
			return fmt.Sprintf("R%dF", e.P)
		}
		return fmt.Sprintf("R%dS", e.P)
	case "bindpod":
		return fmt.Sprintf("B%d@%d", e.P, e.N)
	case "delnode":
		return fmt.Sprintf("-n%d", e.N)
	case "addnode":
		return fmt.Sprintf("+n%d", e.N)
	case "delbr":
		return fmt.Sprintf("-br%d", e.P)
	case "addpod":
		return fmt.Sprintf("+p%d", e.Pod.ID)
	case "delpod":
		return fmt.Sprintf("-p%d", e.P)
	case "phase":
		return fmt.Sprintf("ph%d=%s", e.P, e.Phase)
	case "deleting":
		return fmt.Sprintf("del%d", e.P)
	}
	return "?"
}

func grp(g []int) string {
	if len(g) == 0 {
		return ""
	}
	s := make([]string, len(g))
	for i, x := range g {
		s[i] = strconv.Itoa(x)
	}
	return "g" + strings.Join(s, "+")
}

// ---- real objects --------------------------------------------------------------

func mkPod(p podS) *v1.Pod {
	pod := &v1.Pod{
		ObjectMeta: metav1.ObjectMeta{Name: pname(p.ID), Namespace: ns, UID: types.UID("uid-" + pname(p.ID)),
			Finalizers: []string{finalizer}, Labels: map[string]string{}},
		Spec: v1.PodSpec{
			Containers: []v1.Container{{Name: "c", Image: "i", Resources: v1.ResourceRequirements{
				Requests: v1.ResourceList{v1.ResourceCPU: *resource.NewMilliQuantity(p.Req, resource.DecimalSI)}}}},
		},
		Status: v1.PodStatus{Phase: v1.PodPhase(p.Phase)},
	}
	if p.Node != 0 {
		pod.Spec.NodeName = nname(p.Node)
	}
	if p.Gated {
		pod.Spec.SchedulingGates = []v1.PodSchedulingGate{{Name: "gate"}}
	}
	if len(p.Groups) > 0 {
		pod.Labels[gpuGroup] = gname(p.Groups[0])
	}
	return pod
}

func mkNode(n int) *v1.Node {
	rl := v1.ResourceList{
		v1.ResourceCPU:    resource.MustParse("64"),
		v1.ResourceMemory: resource.MustParse("256Gi"),
		v1.ResourcePods:   resource.MustParse("110"),
	}
	return &v1.Node{ObjectMeta: metav1.ObjectMeta{Name: nname(n)}, Status: v1.NodeStatus{Allocatable: rl, Capacity: rl}}
}

func mkBR(b brS) *schedulingv1alpha2.BindRequest {
	br := &schedulingv1alpha2.BindRequest{
		ObjectMeta: metav1.ObjectMeta{Name: pname(b.Pod), Namespace: ns, Labels: map[string]string{"selected-node": nname(b.Node)}},
		Spec: schedulingv1alpha2.BindRequestSpec{PodName: pname(b.Pod), SelectedNode: nname(b.Node),
			BackoffLimit: b.Limit},
		Status: schedulingv1alpha2.BindRequestStatus{Phase: b.Phase, FailedAttempts: b.Attempts},
	}
	for _, g := range b.Groups {
		br.Spec.SelectedGPUGroups = append(br.Spec.SelectedGPUGroups, gname(g))
	}
	return br
}

// stubBinder implements binding.Interface: fails or succeeds on demand; a
// success binds the pod (spec.nodeName) as the real binder does.
type stubBinder struct {
	cl     client.Client
	fail   bool
	called int
}

func (s *stubBinder) Bind(ctx context.Context, pod *v1.Pod, node *v1.Node, _ *schedulingv1alpha2.BindRequest) error {
	s.called++
	if s.fail {
		return errors.New("stub: bind failed")
	}
	pod.Spec.NodeName = node.Name
	return s.cl.Update(ctx, pod)
}

func (s *stubBinder) Rollback(context.Context, *v1.Pod, *v1.Node, *schedulingv1alpha2.BindRequest) error {
	return nil
}

type world struct {
	cl     client.WithWatch
	scheme *runtime.Scheme
	rec    *controllers.BindRequestReconciler
	stub   *stubBinder
	notes  []string
}

var schemeOnce sync.Once
var theScheme *runtime.Scheme

func newWorld(s storeS) (*world, error) {
	schemeOnce.Do(func() {
		theScheme = runtime.NewScheme()
		_ = v1.AddToScheme(theScheme)
		_ = kaischeme.AddToScheme(theScheme)
		crlog.SetLogger(logr.Discard())
		fs := flag.NewFlagSet("klog", flag.ContinueOnError)
		klog.InitFlags(fs)
		_ = fs.Set("logtostderr", "false")
		_ = fs.Set("stderrthreshold", "FATAL")
		klog.SetOutput(io.Discard)
	})
	objs := []client.Object{}
	for _, n := range s.Nodes {
		objs = append(objs, mkNode(n))
	}
	cl := crfake.NewClientBuilder().WithScheme(theScheme).
		WithStatusSubresource(&schedulingv1alpha2.BindRequest{}).WithObjects(objs...).Build()
	w := &world{cl: cl, scheme: theScheme}
	ctx := context.Background()
	for _, p := range s.Pods {
		pp := p
		pp.Deleting = false
		if err := cl.Create(ctx, mkPod(pp)); err != nil {
			return nil, err
		}
		if p.Deleting {
			if err := cl.Delete(ctx, mkPod(pp)); err != nil {
				return nil, err
			}
		}
	}
	for _, b := range s.BRs {
		br := mkBR(b)
		st := br.Status
		if err := cl.Create(ctx, br); err != nil {
			return nil, err
		}
		br.Status = st
		if err := cl.Status().Update(ctx, br); err != nil {
			return nil, err
		}
	}
	w.stub = &stubBinder{cl: cl}
	w.rec = controllers.NewBindRequestReconciler(cl, theScheme, &record.FakeRecorder{},
		&controllers.ReconcilerParams{MaxConcurrentReconciles: 1, RateLimiterBaseDelaySeconds: 1, RateLimiterMaxDelaySeconds: 1},
		w.stub, nil)
	return w, nil
}

// ---- projection --------------------------------------------------------------

func podPhase(ph v1.PodPhase) string {
	switch ph {
	case v1.PodPending:
		return "PPending"
	case v1.PodRunning:
		return "PRunning"
	case v1.PodSucceeded:
		return "PSucceeded"
	case v1.PodFailed:
		return "PFailed"
	}
	return "PUnknown"
}

func brPhase(ph string) string {
	switch ph {
	case schedulingv1alpha2.BindRequestPhaseSucceeded:
		return "BSucceeded"
	case schedulingv1alpha2.BindRequestPhaseFailed:
		return "BFailed"
	}
	return "BPending"
}

func posList(names []string) string {
	return u.ListOf(names, func(s string) string { return u.Pos(idOf(s)) })
}

func optNode(name string) string {
	return u.Opt(name != "", u.Pos(idOf(name)))
}

func podTerm(p *v1.Pod) string {
	var req int64
	for _, c := range p.Spec.Containers {
		q := c.Resources.Requests[v1.ResourceCPU]
		req += q.MilliValue()
	}
	return u.App("mkPod", u.Pos(idOf(p.Name)), optNode(p.Spec.NodeName), podPhase(p.Status.Phase),
		u.Bool(p.DeletionTimestamp != nil), u.Bool(len(p.Spec.SchedulingGates) > 0),
		posList(resources.GetGpuGroups(p)), u.Z(req))
}

func brTerm(b *schedulingv1alpha2.BindRequest) string {
	lim := "None"
	if b.Spec.BackoffLimit != nil {
		lim = u.Opt(true, u.Z(int64(*b.Spec.BackoffLimit)))
	}
	return u.App("mkBR", u.Pos(idOf(b.Spec.PodName)), u.Pos(idOf(b.Spec.SelectedNode)), posList(b.Spec.SelectedGPUGroups),
		lim, brPhase(b.Status.Phase), u.Z(int64(b.Status.FailedAttempts)))
}

type objects struct {
	pods  []v1.Pod
	nodes []v1.Node
	brs   []schedulingv1alpha2.BindRequest
}

func (w *world) list() (objects, error) {
	ctx := context.Background()
	var o objects
	pl := &v1.PodList{}
	if err := w.cl.List(ctx, pl); err != nil {
		return o, err
	}
	nl := &v1.NodeList{}
	if err := w.cl.List(ctx, nl); err != nil {
		return o, err
	}
	bl := &schedulingv1alpha2.BindRequestList{}
	if err := w.cl.List(ctx, bl); err != nil {
		return o, err
	}
	o.pods, o.nodes, o.brs = pl.Items, nl.Items, bl.Items
	sort.Slice(o.pods, func(i, j int) bool { return idOf(o.pods[i].Name) < idOf(o.pods[j].Name) })
	sort.Slice(o.nodes, func(i, j int) bool { return idOf(o.nodes[i].Name) < idOf(o.nodes[j].Name) })
	sort.Slice(o.brs, func(i, j int) bool { return idOf(o.brs[i].Name) < idOf(o.brs[j].Name) })
	return o, nil
}

func storeTerm(o objects) string {
	ps := make([]string, len(o.pods))
	for i := range o.pods {
		ps[i] = podTerm(&o.pods[i])
	}
	nsl := make([]string, len(o.nodes))
	for i := range o.nodes {
		nsl[i] = u.Pos(idOf(o.nodes[i].Name))
	}
	bs := make([]string, len(o.brs))
	for i := range o.brs {
		bs[i] = brTerm(&o.brs[i])
	}
	return u.App("mkStore", u.List(ps), u.List(nsl), u.List(bs))
}

// ---- scheduler side ------------------------------------------------------------

type schedWorld struct {
	kube  *kubefake.Clientset
	kai   *kaifake.Clientset
	cache cache.Cache
	stop  chan struct{}
}

// The scheduler's caches are rebuilt from the shared object set, so what the
// scheduler sees is exactly the store (no informer lag: outside the model).
func (w *world) scheduler(o objects) *schedWorld {
	kobjs := []runtime.Object{}
	for i := range o.pods {
		p := o.pods[i].DeepCopy()
		p.ResourceVersion = ""
		kobjs = append(kobjs, p)
	}
	for i := range o.nodes {
		n := o.nodes[i].DeepCopy()
		n.ResourceVersion = ""
		kobjs = append(kobjs, n)
	}
	bobjs := []runtime.Object{}
	for i := range o.brs {
		b := o.brs[i].DeepCopy()
		b.ResourceVersion = ""
		bobjs = append(bobjs, b)
	}
	sw := &schedWorld{kube: kubefake.NewSimpleClientset(kobjs...), kai: kaifake.NewSimpleClientset(bobjs...)}
	sw.cache = cache.New(&cache.SchedulerCacheParams{
		KubeClient: sw.kube, KAISchedulerClient: sw.kai, NodePoolParams: &conf.SchedulingNodePoolParams{},
		FullHierarchyFairness: true, DiscoveryClient: sw.kube.Discovery(),
	})
	sw.stop = make(chan struct{})
	sw.cache.Run(sw.stop)
	sw.cache.WaitForCacheSync(sw.stop)
	return sw
}

func (sw *schedWorld) close() { close(sw.stop) }

func statusName(s pod_status.PodStatus) string {
	switch s {
	case pod_status.Pending:
		return "TPending"
	case pod_status.Gated:
		return "TGated"
	case pod_status.Binding:
		return "TBinding"
	case pod_status.Bound:
		return "TBound"
	case pod_status.Running:
		return "TRunning"
	case pod_status.Releasing:
		return "TReleasing"
	case pod_status.Succeeded:
		return "TSucceeded"
	case pod_status.Failed:
		return "TFailed"
	}
	return "TUnknown"
}

func taskTerm(node string, st pod_status.PodStatus, groups []string) string {
	return u.App("mkTask", optNode(node), statusName(st), posList(groups))
}

// snapshot runs the real SchedulerCache.Snapshot on the current object set,
// returns the observed view and applies the bind-request deletions it made.
func (w *world) snapshot() (string, string, error) {
	ctx := context.Background()
	o, err := w.list()
	if err != nil {
		return "", "", err
	}
	sw := w.scheduler(o)
	defer sw.close()
	snap, err := sw.cache.Snapshot()
	if err != nil || snap == nil {
		return "", "", fmt.Errorf("snapshot: %v", err)
	}
	// IsFailed of every request
	failed := []string{}
	for i := range o.brs {
		bri := bindrequest_info.NewBindRequestInfo(&o.brs[i])
		failed = append(failed, u.Pair(u.Pos(idOf(o.brs[i].Spec.PodName)), u.Bool(bri.IsFailed())))
	}
	// charged sets: node.PodInfos of the real snapshot
	type ch struct {
		node   string
		status pod_status.PodStatus
		groups []string
	}
	onNode := map[string]ch{}
	charged := []string{}
	used := []string{}
	summary := []string{}
	for i := range o.nodes {
		name := o.nodes[i].Name
		ni, ok := snap.Nodes[name]
		if !ok {
			return "", "", fmt.Errorf("node %s missing from snapshot", name)
		}
		ids := []int{}
		for _, pi := range ni.PodInfos {
			ids = append(ids, idOf(pi.Name))
			onNode[pi.Name] = ch{pi.NodeName, pi.Status, pi.GPUGroups}
		}
		sort.Ints(ids)
		charged = append(charged, u.Pair(u.Pos(idOf(name)), u.ListOf(ids, func(i int) string { return u.Pos(i) })))
		used = append(used, u.Pair(u.Pos(idOf(name)), u.Z(int64(ni.Used.Cpu()))))
		summary = append(summary, fmt.Sprintf("%s:%v", name, ids))
	}
	// one task per pod: as the node holds it when charged, else as the snapshot builds it
	tasks := []string{}
	for i := range o.pods {
		p := &o.pods[i]
		if c, ok := onNode[p.Name]; ok {
			tasks = append(tasks, u.Pair(u.Pos(idOf(p.Name)), taskTerm(c.node, c.status, c.groups)))
			continue
		}
		br := snap.BindRequests.GetBindRequestForPod(p)
		ti := pod_info.NewTaskInfoWithBindRequest(p.DeepCopy(), br, nil, resource_info.NewResourceVectorMap())
		tasks = append(tasks, u.Pair(u.Pos(idOf(p.Name)), taskTerm(ti.NodeName, ti.Status, ti.GPUGroups)))
	}
	// the deletions the cleanup made, applied to the shared object set
	left, err := sw.kai.SchedulingV1alpha2().BindRequests(ns).List(ctx, metav1.ListOptions{})
	if err != nil {
		return "", "", err
	}
	keep := map[string]bool{}
	for _, b := range left.Items {
		keep[b.Name] = true
	}
	for i := range o.brs {
		if !keep[o.brs[i].Name] {
			if err := w.cl.Delete(ctx, &o.brs[i]); err != nil {
				return "", "", err
			}
		}
	}
	return u.App("OView", u.App("mkView", u.List(failed), u.List(tasks), u.List(charged), u.List(used))),
		strings.Join(summary, " "), nil
}

// commit runs the real SchedulerCache.Bind (createBindRequest) and copies the
// created request into the shared object set; limit (nil as the scheduler
// leaves it, or set by someone else) is written onto the created object.
func (w *world) commit(e event) error {
	ctx := context.Background()
	o, err := w.list()
	if err != nil {
		return err
	}
	sw := w.scheduler(o)
	defer sw.close()
	var pod *v1.Pod
	for i := range o.pods {
		if o.pods[i].Name == pname(e.P) {
			pod = o.pods[i].DeepCopy()
		}
	}
	if pod == nil {
		pod = mkPod(podS{ID: e.P, Phase: "Pending", Req: 100})
	}
	ti := pod_info.NewTaskInfo(pod, nil, resource_info.NewResourceVectorMap())
	ti.GPUGroups = []string{}
	for _, g := range e.Groups {
		ti.GPUGroups = append(ti.GPUGroups, gname(g))
	}
	existed := false
	for i := range o.brs {
		if o.brs[i].Name == pname(e.P) {
			existed = true
		}
	}
	bindErr := sw.cache.Bind(ti, nname(e.N), nil)
	if existed {
		if bindErr == nil {
			w.notes = append(w.notes, "Bind over an existing request returned nil")
		}
		return nil
	}
	br, err := sw.kai.SchedulingV1alpha2().BindRequests(ns).Get(ctx, pname(e.P), metav1.GetOptions{})
	if err != nil {
		return fmt.Errorf("commit: request not created: %v (Bind: %v)", err, bindErr)
	}
	if br.Spec.BackoffLimit != nil {
		w.notes = append(w.notes, "createBindRequest set a backoffLimit")
	}
	nb := br.DeepCopy()
	nb.ResourceVersion = ""
	nb.Spec.BackoffLimit = e.Limit
	return w.cl.Create(ctx, nb)
}

// reconcile runs the real reconciler once.
func (w *world) reconcile(e event) (string, string) {
	w.stub.fail = e.Fail
	res, err, panicked := func() (r ctrl.Result, err error, p bool) {
		defer func() {
			if x := recover(); x != nil {
				p = true
			}
		}()
		r, err = w.rec.Reconcile(context.Background(), ctrl.Request{NamespacedName: types.NamespacedName{Namespace: ns, Name: pname(e.P)}})
		return
	}()
	if panicked {
		return "RPanic", "panic"
	}
	secs := int64(res.RequeueAfter.Seconds())
	if res.Requeue && secs == 0 { //nolint:staticcheck
		secs = -1
	}
	desc := fmt.Sprintf("requeueAfter=%ds err=%v", secs, err != nil)
	return u.App("RDone", u.Z(secs), u.Bool(err != nil)), desc
}

func (w *world) apply(e event) (string, string, error) {
	ctx := context.Background()
	obs, note := "ONone", ""
	switch e.Kind {
	case "commit":
		return obs, note, w.commit(e)
	case "snapshot":
		return w.snapshot()
	case "reconcile":
		r, desc := w.reconcile(e)
		return u.App("OResult", r), desc, nil
	case "bindpod":
		p := &v1.Pod{}
		if err := w.cl.Get(ctx, types.NamespacedName{Namespace: ns, Name: pname(e.P)}, p); err != nil {
			return obs, note, nil
		}
		if p.Spec.NodeName == "" {
			p.Spec.NodeName = nname(e.N)
			return obs, note, w.cl.Update(ctx, p)
		}
	case "delnode":
		_ = w.cl.Delete(ctx, mkNode(e.N))
	case "addnode":
		n := &v1.Node{}
		if err := w.cl.Get(ctx, types.NamespacedName{Name: nname(e.N)}, n); err != nil {
			return obs, note, w.cl.Create(ctx, mkNode(e.N))
		}
	case "delbr":
		_ = w.cl.Delete(ctx, mkBR(brS{Pod: e.P, Node: 1}))
	case "addpod":
		p := &v1.Pod{}
		if err := w.cl.Get(ctx, types.NamespacedName{Namespace: ns, Name: pname(e.Pod.ID)}, p); err != nil {
			return obs, note, w.cl.Create(ctx, mkPod(e.Pod))
		}
	case "delpod":
		p := &v1.Pod{}
		if err := w.cl.Get(ctx, types.NamespacedName{Namespace: ns, Name: pname(e.P)}, p); err != nil {
			return obs, note, nil
		}
		p.Finalizers = nil
		if err := w.cl.Update(ctx, p); err != nil {
			return obs, note, err
		}
		if err := w.cl.Get(ctx, types.NamespacedName{Namespace: ns, Name: pname(e.P)}, p); err == nil {
			return obs, note, w.cl.Delete(ctx, p)
		}
	case "phase":
		p := &v1.Pod{}
		if err := w.cl.Get(ctx, types.NamespacedName{Namespace: ns, Name: pname(e.P)}, p); err != nil {
			return obs, note, nil
		}
		p.Status.Phase = v1.PodPhase(e.Phase)
		return obs, note, w.cl.Status().Update(ctx, p)
	case "deleting":
		p := &v1.Pod{}
		if err := w.cl.Get(ctx, types.NamespacedName{Namespace: ns, Name: pname(e.P)}, p); err != nil {
			return obs, note, nil
		}
		return obs, note, w.cl.Delete(ctx, p)
	}
	return obs, note, nil
}

// ---- Coq terms of inputs -----------------------------------------------------

func eventTerm(e event) string {
	pl := func(xs []int) string { return u.ListOf(xs, func(i int) string { return u.Pos(i) }) }
	switch e.Kind {
	case "commit":
		lim := "None"
		if e.Limit != nil {
			lim = u.Opt(true, u.Z(int64(*e.Limit)))
		}
		return u.App("Commit", u.Pos(e.P), u.Pos(e.N), pl(e.Groups), lim)
	case "snapshot":
		return "Snapshot"
	case "reconcile":
		if e.Fail {
			return u.App("Reconcile", u.Pos(e.P), "Fail")
		}
		return u.App("Reconcile", u.Pos(e.P), "Succeed")
	case "bindpod":
		return u.App("EnvBindPod", u.Pos(e.P), u.Pos(e.N))
	case "delnode":
		return u.App("EnvDeleteNode", u.Pos(e.N))
	case "addnode":
		return u.App("EnvAddNode", u.Pos(e.N))
	case "delbr":
		return u.App("EnvDeleteBR", u.Pos(e.P))
	case "addpod":
		return u.App("EnvAddPod", podTerm(mkPod(e.Pod)))
	case "delpod":
		return u.App("EnvDeletePod", u.Pos(e.P))
	case "phase":
		return u.App("EnvPodPhase", u.Pos(e.P), podPhase(v1.PodPhase(e.Phase)))
	case "deleting":
		return u.App("EnvPodDeleting", u.Pos(e.P))
	}
	return "Snapshot"
}

type stepRec struct {
	Event string `json:"event"`
	Note  string `json:"observed,omitempty"`
}

type result struct {
	term   string
	label  string
	steps  []stepRec
	counts []string
	fp     string
	err    error
	init   storeS
}

// runCase plays one history on the real code.
func runCase(origin string, init storeS, evs []event) result {
	res := result{init: init}
	w, err := newWorld(init)
	if err != nil {
		res.err = err
		return res
	}
	o, err := w.list()
	if err != nil {
		res.err = err
		return res
	}
	initTerm := storeTerm(o)
	steps := []string{}
	names := []string{}
	// per request instance: limit and the effective outcome of every reconcile (label only)
	type seg struct {
		pod int
		lim string
		out []byte
	}
	segs := []*seg{}
	cur := map[int]*seg{}
	for _, b := range o.brs {
		lim := "nil"
		if b.Spec.BackoffLimit != nil {
			lim = strconv.Itoa(int(*b.Spec.BackoffLimit))
		}
		sg := &seg{pod: idOf(b.Name), lim: lim}
		segs = append(segs, sg)
		cur[sg.pod] = sg
	}
	maxFails, snapshots, reconciles := 0, 0, 0
	for _, e := range evs {
		before, _ := w.list()
		calledBefore := w.stub.called
		obs, note, err := w.apply(e)
		if err != nil {
			res.err = fmt.Errorf("%s: %v", e, err)
			return res
		}
		after, err := w.list()
		if err != nil {
			res.err = err
			return res
		}
		steps = append(steps, u.App("mkStep", eventTerm(e), storeTerm(after), obs))
		names = append(names, e.String())
		res.steps = append(res.steps, stepRec{Event: e.String(), Note: note})
		res.counts = append(res.counts, "event:"+e.Kind)
		switch e.Kind {
		case "snapshot":
			snapshots++
			if len(after.brs) < len(before.brs) {
				res.counts = append(res.counts, "snapshot:deleted-requests")
			}
			for _, b := range before.brs {
				found := false
				for _, a := range after.brs {
					if a.Name == b.Name {
						found = true
					}
				}
				if !found {
					delete(cur, idOf(b.Name))
				}
			}
		case "delbr":
			delete(cur, e.P)
		case "commit":
			if len(after.brs) > len(before.brs) {
				lim := "nil"
				if e.Limit != nil {
					lim = strconv.Itoa(int(*e.Limit))
				}
				sg := &seg{pod: e.P, lim: lim}
				segs = append(segs, sg)
				cur[e.P] = sg
				res.counts = append(res.counts, "commit:created", "limit:"+lim)
			} else {
				res.counts = append(res.counts, "commit:already-exists")
			}
		case "reconcile":
			reconciles++
			sg := cur[e.P]
			var bb *schedulingv1alpha2.BindRequest
			for i := range before.brs {
				if before.brs[i].Name == pname(e.P) {
					bb = &before.brs[i]
				}
			}
			c := byte('-')
			if bb != nil && bb.Status.Phase != schedulingv1alpha2.BindRequestPhaseSucceeded {
				switch {
				case w.stub.called > calledBefore && e.Fail:
					c = 'F'
				case w.stub.called > calledBefore:
					c = 'S'
				default:
					// Bind not reached: pod missing / node missing (fails) or pod already bound (succeeds)
					c = 'f'
					for i := range before.pods {
						if before.pods[i].Name == bb.Spec.PodName && before.pods[i].Spec.NodeName != "" {
							c = 's'
						}
					}
				}
			}
			if sg != nil {
				sg.out = append(sg.out, c)
			}
			switch c {
			case 'F', 'f':
				res.counts = append(res.counts, "reconcile:failed")
			case 'S', 's':
				res.counts = append(res.counts, "reconcile:succeeded")
			default:
				res.counts = append(res.counts, "reconcile:noop")
			}
			res.counts = append(res.counts, "result:"+note)
		}
	}
	hist := []string{}
	for _, sg := range segs {
		outs := strings.ToUpper(string(sg.out))
		hist = append(hist, fmt.Sprintf("p%d:backoffLimit=%s outcomes=%s", sg.pod, sg.lim, outs))
		if n := strings.Count(outs, "F"); n > maxFails {
			maxFails = n
		}
	}
	for _, n := range w.notes {
		res.counts = append(res.counts, "note:"+n)
	}
	res.term = fmt.Sprintf("{| k_init := %s; k_steps := %s |}", initTerm, u.List(steps))
	res.label = fmt.Sprintf("%s %s ev=%s", origin, strings.Join(hist, " "), strings.Join(names, ";"))
	res.counts = append(res.counts, "origin:"+origin, fmt.Sprintf("max_failing_reconciles_on_one_request:%d", min(maxFails, 6)))
	if snapshots >= 1 && reconciles >= 1 {
		res.fp = res.label
	}
	return res
}

// ---- generators --------------------------------------------------------------

func i32(v int) *int32 { x := int32(v); return &x }

func genLimit(r *u.Rng) *int32 {
	switch r.Intn(8) {
	case 0:
		return nil
	case 1:
		return i32(0)
	default:
		return i32(r.Range(1, 4))
	}
}

func simpleStore(npods, nnodes int) storeS {
	s := storeS{}
	for i := 1; i <= npods; i++ {
		s.Pods = append(s.Pods, podS{ID: i, Phase: "Pending", Req: int64(100 * (1 << (i - 1)))})
	}
	for i := 1; i <= nnodes; i++ {
		s.Nodes = append(s.Nodes, i)
	}
	return s
}

// corpus: the retry histories of clause 3 for every limit, plus the boundary
// states of clauses 1 and 2.
func corpus() (out []struct {
	s  storeS
	ev []event
}) {
	add := func(s storeS, ev ...event) {
		out = append(out, struct {
			s  storeS
			ev []event
		}{s, ev})
	}
	lims := []*int32{nil, i32(0), i32(1), i32(2), i32(3), i32(4)}
	R := func(f bool) event { return event{Kind: "reconcile", P: 1, Fail: f} }
	S := event{Kind: "snapshot"}
	for _, l := range lims {
		for k := 1; k <= 6; k++ {
			ev := []event{{Kind: "commit", P: 1, N: 1, Limit: l}}
			for i := 0; i < k; i++ {
				ev = append(ev, R(true))
			}
			ev = append(ev, S, R(true), S)
			add(simpleStore(1, 1), ev...)
		}
		// fail twice, then succeed; succeed at once; snapshots in between
		add(simpleStore(1, 1), event{Kind: "commit", P: 1, N: 1, Limit: l}, S, R(true), S, R(true), S, R(false), S, R(true))
		add(simpleStore(1, 1), event{Kind: "commit", P: 1, N: 1, Limit: l, Groups: []int{1, 2}}, S, R(false), S)
	}
	// pod bound but request not updated
	add(simpleStore(2, 2), event{Kind: "commit", P: 1, N: 2, Limit: i32(2)}, S, event{Kind: "bindpod", P: 1, N: 2}, S, R(true), S)
	// node deleted while binding
	add(simpleStore(2, 2), event{Kind: "commit", P: 1, N: 2, Limit: i32(3), Groups: []int{3}}, S, event{Kind: "delnode", N: 2}, S, S,
		event{Kind: "addnode", N: 2}, S)
	add(simpleStore(1, 2), event{Kind: "commit", P: 1, N: 2, Limit: i32(2)}, event{Kind: "delnode", N: 2}, R(false), R(false), S)
	// request deleted, pod deleted, pod being deleted
	add(simpleStore(1, 1), event{Kind: "commit", P: 1, N: 1, Limit: i32(1)}, event{Kind: "delbr", P: 1}, S, R(true))
	add(simpleStore(1, 1), event{Kind: "commit", P: 1, N: 1, Limit: i32(2)}, event{Kind: "delpod", P: 1}, R(false), S, R(false), S)
	add(simpleStore(1, 1), event{Kind: "commit", P: 1, N: 1, Limit: i32(2)}, event{Kind: "deleting", P: 1}, S, R(false), S)
	// second commit over an existing request
	add(simpleStore(1, 2), event{Kind: "commit", P: 1, N: 1, Limit: i32(2)}, event{Kind: "commit", P: 1, N: 2, Limit: i32(4)}, S)
	// failed request at the limit / one below the limit, as the scheduler finds them
	for _, a := range []int32{0, 1, 2, 3} {
		s := simpleStore(1, 1)
		s.BRs = []brS{{Pod: 1, Node: 1, Limit: i32(2), Phase: "Failed", Attempts: a}}
		add(s, S, R(true), S)
	}
	return out
}

func genRetry(r *u.Rng) (storeS, []event) {
	s := simpleStore(1, 1)
	ev := []event{{Kind: "commit", P: 1, N: 1, Limit: genLimit(r)}}
	n := r.Range(1, 8)
	pfail := r.Range(5, 10)
	for i := 0; i < n; i++ {
		ev = append(ev, event{Kind: "reconcile", P: 1, Fail: r.Chance(pfail, 10)})
		if r.Chance(1, 4) {
			ev = append(ev, event{Kind: "snapshot"})
		}
	}
	ev = append(ev, event{Kind: "snapshot"})
	return s, ev
}

var phases = []string{"Pending", "Pending", "Pending", "Running", "Succeeded", "Failed", "Unknown"}

func genPodS(r *u.Rng, id int, nnodes int, wild bool) podS {
	p := podS{ID: id, Phase: "Pending", Req: int64(100 * (1 << (id - 1)))}
	if r.Chance(1, 5) {
		p.Groups = []int{r.Range(1, 3)}
	}
	if r.Chance(1, 8) {
		p.Gated = true
	}
	if wild {
		p.Phase = u.Pick(r, phases)
		if r.Chance(1, 4) {
			p.Node = r.Range(1, nnodes+1)
		}
		if r.Chance(1, 6) {
			p.Deleting = true
		}
		if p.Phase == "Running" && p.Node == 0 && r.Chance(3, 4) {
			p.Node = r.Range(1, nnodes)
		}
	}
	return p
}

func genEvent(r *u.Rng, npods, nnodes int, wild bool) event {
	p := r.Range(1, npods)
	n := r.Range(1, nnodes)
	switch k := r.Intn(20); {
	case k < 4:
		e := event{Kind: "commit", P: p, N: n, Limit: genLimit(r)}
		if r.Chance(1, 3) {
			e.Groups = []int{r.Range(1, 3)}
			if r.Chance(1, 3) {
				e.Groups = append(e.Groups, r.Range(4, 5))
			}
		}
		return e
	case k < 8:
		return event{Kind: "snapshot"}
	case k < 14:
		return event{Kind: "reconcile", P: p, Fail: r.Chance(2, 3)}
	case k == 14:
		return event{Kind: "bindpod", P: p, N: n}
	case k == 15:
		return event{Kind: "delnode", N: n}
	case k == 16:
		return event{Kind: "addnode", N: n}
	case k == 17:
		return event{Kind: "delbr", P: p}
	case k == 18:
		switch r.Intn(3) {
		case 0:
			return event{Kind: "delpod", P: p}
		case 1:
			return event{Kind: "addpod", Pod: genPodS(r, p, nnodes, wild)}
		default:
			return event{Kind: "deleting", P: p}
		}
	default:
		ph := "Running"
		if wild {
			ph = u.Pick(r, phases)
		}
		return event{Kind: "phase", P: p, Phase: ph}
	}
}

func genInterleaved(r *u.Rng, maxLen int) (storeS, []event) {
	npods, nnodes := r.Range(1, 3), r.Range(1, 3)
	s := storeS{}
	for i := 1; i <= npods; i++ {
		s.Pods = append(s.Pods, genPodS(r, i, nnodes, false))
	}
	for i := 1; i <= nnodes; i++ {
		s.Nodes = append(s.Nodes, i)
	}
	ev := []event{}
	for i, n := 0, r.Range(4, maxLen); i < n; i++ {
		ev = append(ev, genEvent(r, npods, nnodes, false))
	}
	ev = append(ev, event{Kind: "snapshot"})
	return s, ev
}

// malformed: arbitrary API state (requests in any phase with any counters, for
// missing pods and nodes; pods in any phase), then a random history.
func genMalformed(r *u.Rng, maxLen int) (storeS, []event) {
	npods, nnodes := r.Range(1, 3), r.Range(1, 3)
	s := storeS{}
	for i := 1; i <= npods; i++ {
		if r.Chance(1, 6) {
			continue
		}
		s.Pods = append(s.Pods, genPodS(r, i, nnodes, true))
	}
	for i := 1; i <= nnodes; i++ {
		if r.Chance(1, 5) {
			continue
		}
		s.Nodes = append(s.Nodes, i)
	}
	for i := 1; i <= npods; i++ {
		if r.Chance(1, 2) {
			continue
		}
		b := brS{Pod: i, Node: r.Range(1, nnodes+1), Phase: u.Pick(r, []string{"", "Pending", "Failed", "Failed", "Succeeded", "Bogus"}),
			Attempts: int32(r.Range(-1, 5))}
		switch r.Intn(6) {
		case 0:
			b.Limit = nil
		case 1:
			b.Limit = i32(-1)
		default:
			b.Limit = i32(r.Range(0, 4))
		}
		if r.Chance(1, 3) {
			b.Groups = []int{r.Range(1, 3)}
		}
		s.BRs = append(s.BRs, b)
	}
	ev := []event{}
	for i, n := 0, r.Range(2, maxLen); i < n; i++ {
		ev = append(ev, genEvent(r, npods, nnodes, true))
	}
	ev = append(ev, event{Kind: "snapshot"})
	return s, ev
}

// Run generates n histories from seed and writes them under dir.
func Run(dir string, seed uint64, n int, tier string) error {
	out := u.NewOut(dir, "C12", "KaiV.Run.C12", "case", 25)
	root := u.NewRng(seed)
	maxLen := 12
	if tier == "thorough" {
		maxLen = 30
	}
	type job struct {
		origin string
		s      storeS
		ev     []event
	}
	jobs := []job{}
	for _, c := range corpus() {
		jobs = append(jobs, job{"corpus", c.s, c.ev})
	}
	for i := 0; i < n; i++ {
		r := root.Fork(uint64(i))
		switch i % 4 {
		case 0:
			s, ev := genRetry(r)
			jobs = append(jobs, job{"retry", s, ev})
		case 3:
			s, ev := genMalformed(r, maxLen)
			jobs = append(jobs, job{"malformed", s, ev})
		default:
			s, ev := genInterleaved(r, maxLen)
			jobs = append(jobs, job{"interleaved", s, ev})
		}
	}
	results := make([]result, len(jobs))
	var wg sync.WaitGroup
	sem := make(chan struct{}, 12)
	for i := range jobs {
		wg.Add(1)
		sem <- struct{}{}
		go func(i int) {
			defer wg.Done()
			defer func() { <-sem }()
			results[i] = runCase(jobs[i].origin, jobs[i].s, jobs[i].ev)
		}(i)
	}
	wg.Wait()
	for i, r := range results {
		if r.err != nil {
			return fmt.Errorf("case %d (%s): %v", i, jobs[i].origin, r.err)
		}
		out.Add(r.term, r.label)
		for _, c := range r.counts {
			out.Count(c)
		}
		if r.fp != "" {
			out.NonTrivial(r.fp)
		}
		if i%7 == 3 {
			out.Sample(map[string]any{"initial_store": r.init, "history": r.steps, "label": r.label})
		}
	}
	out.Stats["rule"] = "histories from one splitmix64 stream after a fixed corpus (every limit nil,0..4 x 1..6 failing reconciles; bound-but-not-updated; node deleted; request / pod deleted): 1/4 retry histories of one request (random fail/succeed outcomes, snapshots in between), 1/2 interleaved histories over 1-3 pods and nodes (commit, snapshot, reconcile, environment), 1/4 from arbitrary API state (requests in any phase with any counters incl. negative, for missing pods/nodes; pods in any phase); non-trivial = at least one reconcile and one snapshot ran; distinct by the whole history"
	return out.Flush()
}
