// Package c02 adds C02's own case streams to the cycle run (harness/internal/cycle): sessions in which a scenario
// solver (consolidation / reclaim / preempt) moves a fractional pod to another GPU group of the SAME node inside a
// what-if statement, the scenario fails, the statement is rolled back, and something else is then placed on that
// node in the same session.  The undo record of such a move (Statement.Pipeline's previousGpuGroups, taken from the
// node's copy of the pod because gpu_sharing has already overwritten the pod's own groups) is read by nothing else.
//
// Nothing in harness/internal/cycle is changed: the streams drive cycle.Emit with extra *actions* registered in the
// scheduler's own action registry:
//   - "c02-observe/<slot>" (first action of a cycle; printed as "c02-observe" in labels): installs a
//     framework.EventHandler that follows the statement-level events (evict / pipeline / un-pipeline / un-evict) and
//     the recording cache, and counts the what-if moves;
//   - "c02-whatif": a hand-made what-if with the exported Statement API (evict a running fractional pod, re-place it
//     with the real gpu_sharing code in nominate-only mode, discard), the isolated mechanism of a solver scenario.
//
// Run (run.go) is the whole driver run of C02: the cases of cycle.Run for C02 with the sessions on several goroutines,
// then the what-if stream.
package c02

import (
	"fmt"
	"slices"
	"sort"
	"sync"

	"github.com/NVIDIA/KAI-scheduler/pkg/scheduler/api/eviction_info"
	"github.com/NVIDIA/KAI-scheduler/pkg/scheduler/api/pod_info"
	"github.com/NVIDIA/KAI-scheduler/pkg/scheduler/api/pod_status"
	"github.com/NVIDIA/KAI-scheduler/pkg/scheduler/framework"
	"github.com/NVIDIA/KAI-scheduler/pkg/scheduler/gpu_sharing"

	"kaiverif/internal/cycle"
)

const (
	ObserveAction = "c02-observe"
	WhatIfAction  = "c02-whatif"
)

// Observed is what the observer saw in one session.
type Observed struct {
	Evicts          int // Statement.Evict events (simulated and committed)
	Pipelines       int // Statement.Pipeline events
	Undone          int // un-pipeline + un-evict events (rollback / discard)
	SameNodeMoves   int // an evicted shared pod re-placed on another GPU group of the node it sits on
	MovesCommitted  int // ... whose nomination reached the cache (TaskPipelined)
	MovesRolledBack int // ... undone by a rollback / discard
	// nodes with a rolled-back same-node group move, and the number of cache calls issued before the rollback
	rolledBackAt map[string]int
	// RolledBackThenCommit: a cache call (Bind / TaskPipelined / Evict of a pod of that node) on a node after a
	// rolled-back same-node group move on it
	RolledBackThenCommit bool
	RolledBackThenBind   bool
}

type podState struct {
	evicted  bool
	evNode   string
	evGroups []string
	piped    bool
	pipeNode string
	moved    bool // evicted, then nominated onto another GPU group of the node it sits on
}

type observer struct {
	ssn   *framework.Session
	obs   Observed
	pods  map[string]*podState
	calls func() []cycle.Call
}

// Slots: sessions are run on several goroutines (every fake session waits ~100 ms for its cache); each worker uses an
// observer action of its own, "c02-observe/<slot>", so that the observers do not mix.
const Slots = 8

var (
	mu   sync.Mutex
	last [Slots]*observer
)

type observeAction struct{ slot int }

func observeName(slot int) string { return fmt.Sprintf("%s/%d", ObserveAction, slot) }

func (a observeAction) Name() framework.ActionType { return framework.ActionType(observeName(a.slot)) }
func (a observeAction) Execute(ssn *framework.Session) {
	o := &observer{ssn: ssn, pods: map[string]*podState{}, calls: func() []cycle.Call { return nil }}
	o.obs.rolledBackAt = map[string]int{}
	if rec, ok := ssn.Cache.(interface{ Calls() []cycle.Call }); ok {
		o.calls = rec.Calls
	}
	ssn.AddEventHandler(&framework.EventHandler{AllocateFunc: o.onAllocate, DeallocateFunc: o.onDeallocate})
	mu.Lock()
	last[a.slot] = o
	mu.Unlock()
}

func onNode(ssn *framework.Session, t *pod_info.PodInfo, node string) bool {
	n, ok := ssn.ClusterInfo.Nodes[node]
	if !ok {
		return false
	}
	_, on := n.PodInfos[pod_info.PodKey(t.Pod)]
	return on
}

func (o *observer) state(t *pod_info.PodInfo) *podState {
	st := o.pods[t.Name]
	if st == nil {
		st = &podState{}
		o.pods[t.Name] = st
	}
	return st
}

// Statement.Evict and Statement.unpipeline (and unallocate) fire DeallocateFunc; Statement.Pipeline, Statement.Allocate
// and Statement.unevict fire AllocateFunc; Commit fires nothing.
func (o *observer) onDeallocate(e *framework.Event) {
	t := e.Task
	st := o.state(t)
	if st.piped && !onNode(o.ssn, t, st.pipeNode) {
		// un-pipeline: the node entry of the nomination has just been removed
		o.obs.Undone++
		if st.moved {
			o.obs.MovesRolledBack++
			if _, seen := o.obs.rolledBackAt[st.pipeNode]; !seen {
				o.obs.rolledBackAt[st.pipeNode] = len(o.calls())
			}
		}
		st.piped, st.moved = false, false
		return
	}
	if t.Status == pod_status.Releasing {
		// Evict (of a running pod, or of a pod nominated earlier in the cycle)
		o.obs.Evicts++
		st.evicted, st.evNode, st.evGroups = true, t.NodeName, slices.Clone(t.GPUGroups)
		st.piped, st.moved = false, false
		return
	}
	o.obs.Undone++ // un-allocate
}

func (o *observer) onAllocate(e *framework.Event) {
	t := e.Task
	st := o.state(t)
	if t.Status == pod_status.Allocated && !st.evicted {
		return // Statement.Allocate
	}
	if st.evicted && !st.piped && (t.Status != pod_status.Pipelined ||
		(t.NodeName == st.evNode && slices.Equal(t.GPUGroups, st.evGroups))) {
		o.obs.Undone++ // un-evict: the pod has its earlier status back
		st.evicted = false
		return
	}
	if t.Status != pod_status.Pipelined {
		return
	}
	o.obs.Pipelines++
	st.piped, st.pipeNode = true, t.NodeName
	if st.evicted && t.NodeName == st.evNode && t.IsSharedGPUAllocation() && len(t.GPUGroups) > 0 &&
		!slices.Equal(t.GPUGroups, st.evGroups) {
		st.moved = true
		o.obs.SameNodeMoves++
	}
}

// finish evaluates the cache calls of the whole cycle against the rolled-back moves.
func (o *observer) finish() Observed {
	calls := o.calls()
	podNode := map[string]string{}
	for _, j := range o.ssn.ClusterInfo.PodGroupInfos {
		for _, t := range j.GetAllPodsMap() {
			podNode[t.Name] = t.NodeName
		}
	}
	for node, at := range o.obs.rolledBackAt {
		for i := at; i < len(calls); i++ {
			c := calls[i]
			switch c.Kind {
			case "bind", "pipe":
				if c.Node == node {
					o.obs.RolledBackThenCommit = true
					if c.Kind == "bind" {
						o.obs.RolledBackThenBind = true
					}
				}
			case "evict":
				if podNode[c.Pod] == node {
					o.obs.RolledBackThenCommit = true
				}
			}
		}
	}
	// committed moves: the nomination of a moved pod reached the cache
	for name, st := range o.pods {
		if !st.moved {
			continue
		}
		for _, c := range calls {
			if c.Kind == "pipe" && c.Node == st.pipeNode && c.Pod == name {
				o.obs.MovesCommitted++
				break
			}
		}
	}
	return o.obs
}

// Last returns (and forgets) what the observer of the slot's most recent session saw.
func Last(slot int) (Observed, bool) {
	mu.Lock()
	o := last[slot]
	last[slot] = nil
	mu.Unlock()
	if o == nil {
		return Observed{}, false
	}
	return o.finish(), true
}

type whatIfAction struct{}

func (whatIfAction) Name() framework.ActionType { return WhatIfAction }

// Execute replays, for every running fractional pod of a preemptible job (name order), the what-if of a solver scenario by hand: evict the
// pod, let the real gpu_sharing code re-place it on its own node in nominate-only mode, discard the statement.
func (whatIfAction) Execute(ssn *framework.Session) {
	var pods []*pod_info.PodInfo
	for _, j := range ssn.ClusterInfo.PodGroupInfos {
		for _, t := range j.GetAllPodsMap() {
			if t.Status == pod_status.Running && t.IsSharedGPUAllocation() && t.NodeName != "" && j.IsPreemptibleJob() {
				pods = append(pods, t)
			}
		}
	}
	sort.Slice(pods, func(i, j int) bool { return pods[i].Name < pods[j].Name })
	for _, t := range pods {
		node, ok := ssn.ClusterInfo.Nodes[t.NodeName]
		if !ok {
			continue
		}
		stmt := ssn.Statement()
		if err := stmt.Evict(t, "what-if", eviction_info.EvictionMetadata{Action: "consolidation", EvictionGangSize: 1}); err != nil {
			stmt.Discard()
			continue
		}
		gpu_sharing.AllocateFractionalGPUTaskToNode(ssn, stmt, t, node, true)
		stmt.Discard()
	}
}

var registerOnce sync.Once

// Register adds the actions to the scheduler's action registry (idempotent).
func Register() {
	registerOnce.Do(register)
}

func register() {
	for k := 0; k < Slots; k++ {
		framework.RegisterAction(observeAction{slot: k})
	}
	framework.RegisterAction(whatIfAction{})
}
