package c02

import (
	"fmt"

	"github.com/NVIDIA/KAI-scheduler/pkg/scheduler/api/pod_status"

	"kaiverif/internal/core"
	"kaiverif/internal/cycle"
	u "kaiverif/internal/util"
)

type World struct {
	Name string
	C    cycle.Cluster
	// Fault: the cluster injects Bind / Evict failures; the case is a PFault (device monitor only, no refinement check)
	Fault bool
}

func frac(name, job, fraction, node, group string) core.PodSpec {
	return core.PodSpec{Name: name, Cpu: 500, Mem: 1 << 30, Fraction: fraction, Status: pod_status.Running, Node: node, Groups: []string{group}}
}

func pend(name string, gpus, cpu int64) core.PodSpec {
	return core.PodSpec{Name: name, Cpu: cpu, Mem: 1 << 30, Gpus: gpus, Status: pod_status.Pending}
}

var solverActions = []string{"allocate", "consolidation", "reclaim", "preempt", "stalegangeviction"}

// Corpus: the worlds of seeded/C02-4 and their neighbours.  One node n1 with 2 GPUs (100 MiB devices), frac_t 0.5
// (not preemptible) on device 1 and frac_s 0.5 (preemptible) on device 2.
func Corpus() []World {
	node := func(gpus int64) []core.NodeSpec {
		return []core.NodeSpec{{Name: "n1", Cpu: 8000, Mem: 16 << 30, Gpus: gpus, Pods: 110}}
	}
	queues := []cycle.Queue{{Name: "q1", Deserved: 4, OverQuota: 1, Priority: 100}}
	sharers := func() []cycle.Job {
		return []cycle.Job{
			{Name: "frac_t", Queue: "q1", Priority: 100, MinMember: 1, AgeMinutes: 60, StartedMins: 50,
				Pods: []core.PodSpec{frac("frac_t-0", "frac_t", "0.5", "n1", "n1-G1")}},
			{Name: "frac_s", Queue: "q1", Priority: 50, MinMember: 1, AgeMinutes: 55, StartedMins: 45,
				Pods: []core.PodSpec{frac("frac_s-0", "frac_s", "0.5", "n1", "n1-G2")}},
		}
	}
	job := func(name string, age int, p core.PodSpec) cycle.Job {
		return cycle.Job{Name: name, Queue: "q1", Priority: 50, MinMember: 1, AgeMinutes: age, Pods: []core.PodSpec{p}}
	}
	var ws []World
	add := func(name string, c cycle.Cluster) { ws = append(ws, World{Name: name, C: c}) }
	// (1) one ordinary cycle: consolidation fails for big_cpu (rollback of the move), then succeeds for whole_w
	for _, acts := range [][]string{solverActions, {"consolidation"}, {"consolidation", "allocate"},
		{"allocate", "consolidation", "allocate"}, {"consolidation", "reclaim", "preempt", "allocate"}} {
		add("consolidation-after-failed-move", cycle.Cluster{Nodes: node(2), Queues: queues,
			Jobs:    append(sharers(), job("big_cpu", 30, pend("big_cpu-0", 1, 30000)), job("whole_w", 10, pend("whole_w-0", 1, 1000))),
			Actions: acts})
	}
	// real actions only, ending in a Bind: consolidation serves preemptible jobs only, so a pending whole-GPU job that is
	// not preemptible (priority 100) is left to the allocate action that runs after the failed scenario of big_cpu;
	// both GPUs are shared by running pods, whole_n must stay pending
	for _, acts := range [][]string{{"consolidation", "allocate"}, {"allocate", "consolidation", "allocate"}} {
		wn := job("whole_n", 10, pend("whole_n-0", 1, 1000))
		wn.Priority = 100
		add("failed-consolidation-then-allocate", cycle.Cluster{Nodes: node(2), Queues: queues,
			Jobs: append(sharers(), job("big_cpu", 30, pend("big_cpu-0", 1, 30000)), wn), Actions: acts})
	}
	// the same with the successful job first (control: nothing is rolled back before the placement)
	add("consolidation-control", cycle.Cluster{Nodes: node(2), Queues: queues,
		Jobs:    append(sharers(), job("whole_w", 30, pend("whole_w-0", 1, 1000)), job("big_cpu", 10, pend("big_cpu-0", 1, 30000))),
		Actions: solverActions})
	// the later job is fractional / needs the whole second device / is a second unplaceable job
	add("failed-move-then-fraction", cycle.Cluster{Nodes: node(2), Queues: queues,
		Jobs: append(sharers(), job("big_cpu", 30, pend("big_cpu-0", 1, 30000)),
			job("frac_w", 10, core.PodSpec{Name: "frac_w-0", Cpu: 1000, Mem: 1 << 30, Fraction: "0.75", Status: pod_status.Pending})),
		Actions: append(append([]string{}, solverActions...), "allocate")})
	add("failed-move-then-two-gpus", cycle.Cluster{Nodes: node(2), Queues: queues,
		Jobs:    append(sharers(), job("big_cpu", 30, pend("big_cpu-0", 1, 30000)), job("whole_2", 10, pend("whole_2-0", 2, 1000))),
		Actions: append(append([]string{}, solverActions...), "allocate")})
	// (2) the what-if by hand (evict frac_s, re-place it on the node in nominate-only mode, discard), then the real
	// allocate action for a pending whole-GPU pod: both GPUs are in use, whole_w must stay pending
	for _, acts := range [][]string{{WhatIfAction, "allocate"}, {WhatIfAction, "allocate", "consolidation"},
		{"allocate", WhatIfAction, "allocate", "consolidation", "reclaim", "preempt"}} {
		add("allocation-after-discarded-move", cycle.Cluster{Nodes: node(2), Queues: queues,
			Jobs: append(sharers(), job("whole_w", 10, pend("whole_w-0", 1, 1000))), Actions: acts})
	}
	add("fraction-after-discarded-move", cycle.Cluster{Nodes: node(2), Queues: queues,
		Jobs:    append(sharers(), job("frac_w", 10, core.PodSpec{Name: "frac_w-0", Cpu: 1000, Mem: 1 << 30, Fraction: "0.75", Status: pod_status.Pending})),
		Actions: []string{WhatIfAction, "allocate"}})
	// 3 and 4 GPUs: a free device stays, the whole-GPU pods may take exactly the free ones
	for g := int64(3); g <= 4; g++ {
		var pods []core.PodSpec
		for k := int64(0); k < g; k++ {
			pods = append(pods, pend(fmt.Sprintf("whole_w-%d", k), 1, 500))
		}
		add(fmt.Sprintf("allocation-after-discarded-move-%dgpus", g), cycle.Cluster{Nodes: node(g), Queues: queues,
			Jobs:    append(sharers(), cycle.Job{Name: "whole_w", Queue: "q1", Priority: 50, MinMember: 1, AgeMinutes: 10, Pods: pods}),
			Actions: []string{WhatIfAction, "allocate"}})
	}
	return ws
}

// FaultCorpus: the worlds of seeded/C02-2 (a Bind that is not the first of its statement fails; whatever Commit does
// with the rest of the statement, the pods it has already bound keep their devices for the rest of the cycle) and
// their controls.  The random fault cycles of cycle.Run reach this shape about once in a thousand cycles.
func FaultCorpus() []World {
	queues := []cycle.Queue{{Name: "q1", Deserved: 4, OverQuota: 1, Priority: 100}}
	node := []core.NodeSpec{{Name: "n1", Cpu: 8000, Mem: 16 << 30, Gpus: 1, Pods: 110}}
	fp := func(name, f string) core.PodSpec {
		return core.PodSpec{Name: name, Cpu: 500, Mem: 1 << 30, Fraction: f, Status: pod_status.Pending}
	}
	var ws []World
	for _, fails := range [][]int{{1}, {0}, nil, {1, 2}} {
		// a gang of two 0.3 pods joins the device of a running 0.3 pod, then a 0.5 pod is scheduled
		ws = append(ws, World{"gang-joins-device-then-half", cycle.Cluster{Nodes: node, Queues: queues, Actions: []string{"allocate"}, FailBinds: fails,
			Jobs: []cycle.Job{
				{Name: "running_job", Queue: "q1", Priority: 50, MinMember: 1, AgeMinutes: 60, StartedMins: 50, Pods: []core.PodSpec{frac("running_job-0", "", "0.3", "n1", "n1-G1")}},
				{Name: "gang_job", Queue: "q1", Priority: 100, MinMember: 2, AgeMinutes: 30, Pods: []core.PodSpec{fp("gang_job-0", "0.3"), fp("gang_job-1", "0.3")}},
				{Name: "later_job", Queue: "q1", Priority: 50, MinMember: 1, AgeMinutes: 10, Pods: []core.PodSpec{fp("later_job-0", "0.5")}},
			}}, true})
		// a gang of two 0.5 pods opens a shared device on the only GPU, then a whole-GPU pod is scheduled
		ws = append(ws, World{"gang-opens-device-then-whole", cycle.Cluster{Nodes: node, Queues: queues, Actions: []string{"allocate"}, FailBinds: fails,
			Jobs: []cycle.Job{
				{Name: "gang_job", Queue: "q1", Priority: 100, MinMember: 2, AgeMinutes: 30, Pods: []core.PodSpec{fp("gang_job-0", "0.5"), fp("gang_job-1", "0.5")}},
				{Name: "later_job", Queue: "q1", Priority: 50, MinMember: 1, AgeMinutes: 10, Pods: []core.PodSpec{pend("later_job-0", 1, 500)}},
			}}, true})
	}
	return ws
}

// Gen draws a world of the family: 1-2 nodes with 2-4 GPUs carrying fractional sharers on different devices (and
// sometimes a whole-GPU pod), pending jobs of which the first ones cannot be placed whatever is moved or evicted
// (more CPU than any node has, or more GPUs than can be freed) and later ones fit; solver actions in several orders,
// with and without a final allocate action.
func Gen(r *u.Rng) World {
	var c cycle.Cluster
	nn := 1
	if r.Chance(1, 4) {
		nn = 2
	}
	c.Queues = []cycle.Queue{{Name: "q1", Deserved: float64(u.Pick(r, []int{2, 4, 8})), OverQuota: 1, Priority: 100}}
	if r.Chance(1, 2) {
		c.Queues = append(c.Queues, cycle.Queue{Name: "q2", Deserved: float64(u.Pick(r, []int{0, 1, 2})), OverQuota: 1, Priority: 100})
	}
	q := func() string { return u.Pick(r, c.Queues).Name }
	nj := 0
	newJob := func(prefix string, prio int32, age int) cycle.Job {
		nj++
		return cycle.Job{Name: fmt.Sprintf("%s%d", prefix, nj), Queue: q(), Priority: prio, MinMember: 1, AgeMinutes: age, StartedMins: r.Range(1, 90)}
	}
	for i := 0; i < nn; i++ {
		ns := core.NodeSpec{Name: fmt.Sprintf("n%d", i+1), Cpu: 8000, Mem: 32 << 30, Gpus: int64(r.Range(2, 4)), Pods: 110}
		c.Nodes = append(c.Nodes, ns)
		// sharers: one or two per device, on most devices; fractions so that some pairs fit on one device
		free := ns.Gpus
		dev := 0
		for free > 0 && (dev < 2 || r.Chance(2, 3)) {
			dev++
			free--
			g := fmt.Sprintf("%s-G%d", ns.Name, dev)
			room := 100
			for k := 0; k < 2 && room >= 25; k++ {
				f := u.Pick(r, []string{"0.25", "0.5", "0.5", "0.75"})
				need := map[string]int{"0.25": 25, "0.5": 50, "0.75": 75}[f]
				if need > room {
					continue
				}
				room -= need
				j := newJob("s", int32(u.Pick(r, []int{50, 50, 50, 75, 100})), r.Range(40, 80))
				j.Pods = []core.PodSpec{frac(j.Name+"-0", j.Name, f, ns.Name, g)}
				j.Pods[0].Cpu = 250
				c.Jobs = append(c.Jobs, j)
				if r.Chance(1, 2) {
					break
				}
			}
		}
		if free > 0 && r.Chance(1, 3) {
			j := newJob("w", int32(u.Pick(r, []int{50, 100})), r.Range(40, 80))
			j.Pods = []core.PodSpec{{Name: j.Name + "-0", Cpu: 250, Mem: 1 << 30, Gpus: 1, Status: pod_status.Running, Node: ns.Name}}
			c.Jobs = append(c.Jobs, j)
		}
	}
	// early jobs that trigger scenarios which must fail
	for i, n := 0, r.Range(1, 2); i < n; i++ {
		j := newJob("x", int32(u.Pick(r, []int{50, 75, 125})), r.Range(25, 39))
		switch r.Intn(3) {
		case 0: // more CPU than a node has
			j.Pods = []core.PodSpec{pend(j.Name+"-0", 1, 30000)}
		case 1: // a gang one of whose pods never fits
			j.MinMember = 2
			j.Pods = []core.PodSpec{pend(j.Name+"-0", 1, 500), pend(j.Name+"-1", 1, 30000)}
		default: // more GPUs than the node has
			j.Pods = []core.PodSpec{pend(j.Name+"-0", 5, 500)}
		}
		c.Jobs = append(c.Jobs, j)
	}
	// later jobs that fit (after a move, or as they are)
	for i, n := 0, r.Range(1, 3); i < n; i++ {
		// one in three is not preemptible: the consolidation action leaves it to allocate
		j := newJob("y", int32(u.Pick(r, []int{50, 50, 75, 100, 100, 125})), r.Range(1, 20))
		switch r.Intn(4) {
		case 0, 1:
			j.Pods = []core.PodSpec{pend(j.Name+"-0", 1, 500)}
		case 2:
			j.Pods = []core.PodSpec{{Name: j.Name + "-0", Cpu: 500, Mem: 1 << 30, Fraction: u.Pick(r, []string{"0.25", "0.5", "0.75"}), Status: pod_status.Pending}}
		default:
			j.Pods = []core.PodSpec{pend(j.Name+"-0", int64(r.Range(1, 2)), 500)}
		}
		c.Jobs = append(c.Jobs, j)
	}
	switch r.Intn(6) {
	case 0:
		c.Actions = solverActions
	case 1:
		c.Actions = []string{"consolidation", "allocate"}
	case 2:
		c.Actions = []string{"allocate", "consolidation", "reclaim", "preempt", "allocate"}
	case 3:
		c.Actions = []string{"reclaim", "preempt", "consolidation", "allocate"}
	case 4:
		c.Actions = []string{WhatIfAction, "allocate", "consolidation", "reclaim", "preempt"}
	default:
		c.Actions = []string{"allocate", "consolidation", WhatIfAction, "allocate"}
	}
	return World{Name: "gen", C: c}
}
