package c02

import (
	"fmt"
	"strings"
	"sync"

	"kaiverif/internal/cycle"
	u "kaiverif/internal/util"
)

const Rule = "Plus C02's what-if stream (harness/internal/c02): the worlds of seeded/C02-4 and their neighbours (2-GPU node, " +
	"two half-GPU sharers on different devices; an unplaceable job whose consolidation scenario moves a sharer to the other " +
	"device of the same node and is rolled back, then a job that fits; the same what-if made by hand with the Statement API " +
	"(evict, re-place with the real gpu_sharing code in nominate-only mode, discard) followed by the real allocate action), the " +
	"worlds of seeded/C02-2 as fault cycles (a gang of fractional pods whose second / first / second and third Bind fails, then a " +
	"later job on the same device; device monitor only) and a " +
	"generated family (1-2 nodes of 2-4 GPUs with 1-2 fractional sharers per device, early pending jobs whose solver scenarios must " +
	"fail: more CPU / GPUs than a node has or a gang with such a pod; later pending jobs that fit; allocate / consolidation / reclaim / " +
	"preempt in several orders, with and without a closing allocate action and the hand-made what-if). An event handler added to the " +
	"session follows the statement-level events (evict / pipeline / un-pipeline / un-evict) and the recording cache: counted are cycles " +
	"with a same-node GPU-group move inside a what-if, with such a move rolled back, and with a rolled-back move followed by a Cache " +
	"call (Bind / TaskPipelined / Evict) on that node. Cycle refinement check and device monitor as for the generated cycles."

// Emit runs one world through cycle.Emit with the observer of the given slot installed.
func Emit(w World, slot int) (term, label string, st map[string]int, obs Observed) {
	Register()
	c := w.C
	c.Actions = append([]string{observeName(slot)}, c.Actions...)
	term, label, st = cycle.Emit(c)
	obs, _ = Last(slot)
	label = strings.Replace(label, observeName(slot), ObserveAction, 1)
	// cycle.Describe does not print CPU requests: name the pods that ask for more CPU than any node has
	var big []string
	for _, j := range w.C.Jobs {
		for _, p := range j.Pods {
			if p.Cpu > 16000 {
				big = append(big, fmt.Sprintf("%s:cpu%d", p.Name, p.Cpu))
			}
		}
	}
	note := ""
	if len(big) > 0 {
		note = " never-fits[" + strings.Join(big, " ") + "]"
	}
	return term, "c02-whatif " + w.Name + note + " " + label, st, obs
}

type emitted struct {
	term, label string
	counts      []string
	nontrivial  bool
}

func runWorld(w World, kind string, slot int) emitted {
	term, label, st, obs := Emit(w, slot)
	counts := []string{"whatif-" + kind + "-cycles"}
	if obs.SameNodeMoves > 0 {
		counts = append(counts, "whatif-"+kind+"-cycles-with-a-same-node-group-move")
	}
	if obs.MovesCommitted > 0 {
		counts = append(counts, "whatif-"+kind+"-cycles-with-a-committed-same-node-group-move")
	}
	if obs.MovesRolledBack > 0 {
		counts = append(counts, "whatif-"+kind+"-cycles-with-a-rolled-back-same-node-group-move")
	}
	if obs.RolledBackThenCommit {
		counts = append(counts, "whatif-"+kind+"-cycles-with-a-rolled-back-same-node-group-move-followed-by-a-commit-on-that-node")
	}
	if obs.RolledBackThenBind {
		counts = append(counts, "whatif-"+kind+"-cycles-with-a-rolled-back-same-node-group-move-followed-by-a-bind-on-that-node")
	}
	calls := 0
	for k, v := range st {
		if strings.HasPrefix(k, "call:") {
			calls += v
		}
	}
	label += fmt.Sprintf(" {what-if: evicts=%d pipelines=%d undone=%d same-node-moves=%d rolled-back=%d committed=%d then-commit=%v then-bind=%v}",
		obs.Evicts, obs.Pipelines, obs.Undone, obs.SameNodeMoves, obs.MovesRolledBack, obs.MovesCommitted, obs.RolledBackThenCommit, obs.RolledBackThenBind)
	if w.Fault {
		if strings.Contains(label, "FAILED") {
			counts = append(counts, "whatif-"+kind+"-cycles-with-a-failed-call")
		}
		return emitted{fmt.Sprintf("(PFault %s)", term), "faults " + label, counts, calls > 0}
	}
	return emitted{fmt.Sprintf("(PCycle %s)", term), label, counts, calls > 0 || obs.SameNodeMoves > 0}
}

// Stream adds the corpus and n generated worlds to the run.  The sessions are run on Slots goroutines (the first one
// alone: package-level initialisation of the session builder), the cases are added in world order.
func Stream(root *u.Rng, n int, add func(term, label string, counts []string, nontrivial bool)) {
	type job struct {
		w    World
		kind string
	}
	var jobs []job
	for _, w := range Corpus() {
		jobs = append(jobs, job{w, "corpus"})
	}
	for _, w := range FaultCorpus() {
		jobs = append(jobs, job{w, "fault-corpus"})
	}
	for i := 0; i < n; i++ {
		jobs = append(jobs, job{Gen(root.Fork(uint64(7000000 + i))), "generated"})
	}
	out := make([]emitted, len(jobs))
	if len(jobs) > 0 {
		out[0] = runWorld(jobs[0].w, jobs[0].kind, 0)
	}
	next := make(chan int)
	var wg sync.WaitGroup
	for slot := 0; slot < Slots; slot++ {
		wg.Add(1)
		go func(slot int) {
			defer wg.Done()
			for i := range next {
				out[i] = runWorld(jobs[i].w, jobs[i].kind, slot)
			}
		}(slot)
	}
	for i := 1; i < len(jobs); i++ {
		next <- i
	}
	close(next)
	wg.Wait()
	for _, e := range out {
		add(e.term, e.label, e.counts, e.nontrivial)
	}
}
