package c02

import (
	"fmt"
	"strings"
	"sync"

	"kaiverif/internal/cycle"
	u "kaiverif/internal/util"
)

// Run is C02's whole driver run: exactly the cases cycle.Run writes for property C02 - decision cases, cycles with
// injected Bind / Evict failures, generated cycles, in that order, from the same PRNG forks (so a case index means the
// same cluster under both drivers) - followed by the what-if stream of this package.  The only difference is that the
// sessions are run on Slots goroutines: every fake session waits ~100 ms for its cache mock, which made the
// sequential run of 600 sessions take more than a minute of pure waiting.
func Run(dir string, seed uint64, n int) error {
	out := u.NewOut(dir, "C02", "KaiV.Run.C02", "c02case", 40)
	out.Flags = true
	root := u.NewRng(seed)
	// function-level correspondence for the choice of GPU groups (GetNodePreferableGpuForSharing)
	for i := 0; i < 3*n; i++ {
		term, label := cycle.DecisionCase(root.Fork(uint64(2000000 + i)))
		out.Add(term, label)
		out.Count("decision-cases")
		out.NonTrivial(label)
	}
	// cycles with failing Bind / Evict API calls (only the device monitor is evaluated on them), then plain cycles
	clusters := make([]cycle.Cluster, 0, 2*n)
	for i := 0; i < n; i++ {
		r := root.Fork(uint64(3000000 + i))
		c := cycle.Gen(r)
		for k := 0; k < 8; k++ {
			if r.Chance(1, 3) {
				c.FailBinds = append(c.FailBinds, k)
			}
			if r.Chance(1, 5) {
				c.FailEvicts = append(c.FailEvicts, k)
			}
		}
		clusters = append(clusters, c)
	}
	for i := 0; i < n; i++ {
		clusters = append(clusters, cycle.Gen(root.Fork(uint64(i))))
	}
	type res struct {
		term, label string
		st          map[string]int
	}
	results := make([]res, len(clusters))
	emit := func(i int) {
		term, label, st := cycle.Emit(clusters[i])
		results[i] = res{term, label, st}
	}
	if len(clusters) > 0 {
		emit(0) // alone: package-level initialisation of the session builder
	}
	next := make(chan int)
	var wg sync.WaitGroup
	for w := 0; w < Slots; w++ {
		wg.Add(1)
		go func() {
			defer wg.Done()
			for i := range next {
				emit(i)
			}
		}()
	}
	for i := 1; i < len(clusters); i++ {
		next <- i
	}
	close(next)
	wg.Wait()
	for i := 0; i < n; i++ {
		r := results[i]
		out.Add(fmt.Sprintf("(PFault %s)", r.term), "faults "+r.label)
		out.Count("fault-cycles")
		if strings.Contains(r.label, "FAILED") {
			out.Count("fault-cycles-with-a-failed-call")
			out.NonTrivial(r.label)
		}
	}
	for i := 0; i < n; i++ {
		r := results[n+i]
		out.Add(fmt.Sprintf("(PCycle %s)", r.term), r.label)
		calls := 0
		for k, v := range r.st {
			out.CountN(k, v)
			calls += v
		}
		out.CountN("actions", len(clusters[n+i].Actions))
		if calls == 0 {
			out.Count("cycles-without-decisions")
		}
		if calls > 0 {
			out.NonTrivial(r.label)
		}
		out.Sample(r.label)
	}
	out.Stats["rule"] = cycleRule + " " + Rule
	m := n // generated what-if worlds: 300 in the quick tier, at most 1000
	if m > 1000 {
		m = 1000
	}
	Stream(root, m, func(term, label string, counts []string, nontrivial bool) {
		out.Add(term, label)
		for _, c := range counts {
			out.Count(c)
		}
		if nontrivial {
			out.NonTrivial(label)
		}
	})
	return out.Flush()
}

// the rule text of cycle.Run for C02
const cycleRule = "generated clusters (1-3 nodes, 0-4 GPUs of 100 MiB or, one case in four, 16300 / 40900 / 81900 MiB with gpu-memory requests around the device size, 1-3 queues with quotas/limits, 2-7 jobs of 1-3 pods: whole / fractional / multi-fraction / gpu-memory / cpu-only / best-effort, gangs with minMember and two pod sets, pending / running / mixed / terminating) assembled with the real constructors; the real actions (allocate, then a random subset of consolidation, reclaim, preempt, stalegangeviction) run once with the default plugin tiers and a recording cache. Non-trivial = the cycle issued at least one Bind / Evict / TaskPipelined; distinct by cluster and decisions." +
	" Plus the same kind of clusters with injected failures of the k-th Bind / Evict Cache call (k < 8, each with probability 1/3 resp. 1/5): only the device monitor is evaluated on them. Plus function-level decision cases: generated nodes (1-4 GPUs, up to 6 shared / whole-GPU occupants running, terminating, bound or nominated) and a pending fractional / multi-fraction / gpu-memory task; the real GetNodePreferableGpuForSharing is called with the candidate list in pack, spread or shuffled order."
