// Package c09 drives resource_division.SetResourcesShare (the proportion
// plugin's fair-share division) on generated sibling-queue sets and emits the
// observations as Coq cases for Run/C09.v. Every case is run under several
// shuffled map insertion orders; child-level cases divide the fair share a
// parent received in a previous call (what proportion.setFairShareForQueues
// does; that method is unexported, its three lines are replayed here on the real
// SetResourcesShare / GetFairShare). The REAL recursion (proportion plugin opened
// on a session holding a generated queue hierarchy) is driven by the hierarchical
// stream in tree.go.
package c09

import (
	"encoding/json"
	"fmt"
	"math"
	"math/big"
	"os"
	"sort"
	"strings"
	"time"

	metav1 "k8s.io/apimachinery/pkg/apis/meta/v1"

	"github.com/NVIDIA/KAI-scheduler/pkg/scheduler/api/common_info"
	"github.com/NVIDIA/KAI-scheduler/pkg/scheduler/plugins/proportion/resource_division"
	rs "github.com/NVIDIA/KAI-scheduler/pkg/scheduler/plugins/proportion/resource_share"

	u "kaiverif/internal/util"
)

// ResIn is one queue's ResourceShare input for one resource.
type ResIn struct {
	Deserved float64 `json:"d"`
	Limit    float64 `json:"l"`
	Weight   float64 `json:"w"`
	Request  float64 `json:"r"`
	Usage    float64 `json:"u"`
}

type QueueIn struct {
	UID     string   `json:"uid"`
	Prio    int      `json:"p"`
	Created int64    `json:"c"`
	Res     [3]ResIn `json:"res"` // CPU, Memory, GPU (rs.AllResources order)
}

type Input struct {
	Totals [3]float64 `json:"totals"`
	K      float64    `json:"k"`
	Queues []QueueIn  `json:"queues"`
}

const shuffles = 8

// ---- Coq printers ------------------------------------------------------------

// Qs prints a float64 as the exact rational it denotes.
func Qs(f float64) string {
	if math.IsNaN(f) || math.IsInf(f, 0) {
		panic("non-finite value in a C09 case")
	}
	r := new(big.Rat).SetFloat64(f)
	n := r.Num().String()
	if r.Num().Sign() < 0 {
		n = "(" + n + ")"
	}
	return fmt.Sprintf("(QM %s%%Z %s%%positive)", n, r.Denom().String())
}

func ranks(in Input) map[string]int {
	ids := make([]string, len(in.Queues))
	for i, q := range in.Queues {
		ids[i] = q.UID
	}
	sort.Strings(ids) // Go string order, as remainingRequestedOrderFn compares UIDs
	m := map[string]int{}
	for i, id := range ids {
		m[id] = i + 1
	}
	return m
}

// ---- running the real code -----------------------------------------------------

func build(in Input, order []int) map[common_info.QueueID]*rs.QueueAttributes {
	m := map[common_info.QueueID]*rs.QueueAttributes{}
	for _, i := range order {
		q := in.Queues[i]
		mk := func(r ResIn) rs.ResourceShare {
			return rs.ResourceShare{Deserved: r.Deserved, MaxAllowed: r.Limit, OverQuotaWeight: r.Weight,
				Request: r.Request, Usage: r.Usage}
		}
		m[common_info.QueueID(q.UID)] = &rs.QueueAttributes{
			UID:               common_info.QueueID(q.UID),
			Name:              "queue-" + q.UID,
			Priority:          q.Prio,
			CreationTimestamp: metav1.Time{Time: time.Unix(q.Created, 0)},
			QueueResourceShare: rs.QueueResourceShare{
				CPU: mk(q.Res[0]), Memory: mk(q.Res[1]), GPU: mk(q.Res[2]),
			},
		}
	}
	return m
}

// runOnce calls the real SetResourcesShare; ok=false if it did not return in time.
func runOnce(in Input, order []int) (map[string][3]float64, bool) {
	m := build(in, order)
	totals := rs.NewResourceQuantities(in.Totals[0], in.Totals[1], in.Totals[2])
	done := make(chan struct{})
	go func() {
		defer func() { recover(); close(done) }()
		resource_division.SetResourcesShare(totals, in.K, m)
	}()
	select {
	case <-done:
	case <-time.After(5 * time.Second):
		return nil, false
	}
	out := map[string][3]float64{}
	for id, q := range m {
		fs := q.GetFairShare()
		out[string(id)] = [3]float64{fs[rs.CpuResource], fs[rs.MemoryResource], fs[rs.GpuResource]}
	}
	return out, true
}

type Obs struct {
	Returned bool                    `json:"returned"`
	Runs     []map[string][3]float64 `json:"-"`
	First    map[string][3]float64   `json:"fair_share"`
	Differ   bool                    `json:"orders_differ"`
	MaxDiff  float64                 `json:"max_difference_between_orders"`
}

// Eval runs one input under several insertion orders and returns the Coq case.
func Eval(in Input, r *u.Rng) (string, Obs) {
	o := Obs{Returned: true}
	n := len(in.Queues)
	for s := 0; s < shuffles; s++ {
		order := make([]int, n)
		for i := range order {
			order[i] = i
		}
		if s == 1 {
			for i := range order {
				order[i] = n - 1 - i
			}
		} else if s > 1 {
			u.Shuffle(r, order)
		}
		res, ok := runOnce(in, order)
		if !ok {
			o.Returned = false
			break
		}
		o.Runs = append(o.Runs, res)
	}
	if len(o.Runs) > 0 {
		o.First = o.Runs[0]
		for _, run := range o.Runs[1:] {
			for id, v := range run {
				if v != o.First[id] {
					o.Differ = true
					for j := 0; j < 3; j++ {
						o.MaxDiff = math.Max(o.MaxDiff, math.Abs(v[j]-o.First[id][j]))
					}
				}
			}
		}
	}
	rk := ranks(in)
	res := make([]string, 3)
	for j := 0; j < 3; j++ {
		qs := make([]string, n)
		for i, q := range in.Queues {
			x := q.Res[j]
			qs[i] = fmt.Sprintf("(mkQ %s %s %s %s %s %s %s %s (QM 0%%Z 1%%positive))", u.Pos(rk[q.UID]), u.Z(int64(q.Prio)), u.Z(q.Created),
				Qs(x.Deserved), Qs(x.Limit), Qs(x.Weight), Qs(x.Request), Qs(x.Usage))
		}
		obs := []string{}
		for _, run := range o.Runs {
			prs := make([]string, 0, n)
			for _, q := range in.Queues {
				prs = append(prs, u.Pair(u.Pos(rk[q.UID]), Qs(run[q.UID][j])))
			}
			obs = append(obs, u.List(prs))
		}
		res[j] = fmt.Sprintf("{| rc_total := %s; rc_queues := %s; rc_obs := %s |}", Qs(in.Totals[j]), u.List(qs), u.List(obs))
	}
	term := fmt.Sprintf("(Flat {| k_kvalue := %s; k_res := %s; k_returned := %s |})", Qs(in.K), u.List(res), u.Bool(o.Returned))
	return term, o
}

// ---- generators ------------------------------------------------------------------

func empty() ResIn { return ResIn{} } // rs.EmptyResource(): everything 0 (limit 0, not unlimited)

type amounts struct {
	unit   []float64 // candidate small amounts
	scale  float64   // multiplies integers
	maxInt int
}

func pickAmount(r *u.Rng, a amounts, frac bool) float64 {
	v := float64(r.Intn(a.maxInt+1)) * a.scale
	if frac && r.Chance(1, 3) {
		v += u.Pick(r, a.unit)
	}
	return v
}

// pow2Weights returns n non-negative weights whose sum is a power of two.
func pow2Weights(r *u.Rng, n int) []float64 {
	w := make([]float64, n)
	switch r.Intn(4) {
	case 0: // all equal
		v := float64(int(1) << r.Intn(3))
		for i := range w {
			w[i] = v
		}
	default:
		sum := 0
		for i := 0; i < n-1; i++ {
			w[i] = float64(r.Intn(4))
			if r.Chance(1, 8) {
				w[i] = 0.5
			}
			sum += int(w[i] * 2)
		}
		// last weight completes the sum (in halves) to a power of two
		p := 2
		for p <= sum {
			p *= 2
		}
		w[n-1] = float64(p-sum) / 2
	}
	return w
}

// genLevel draws one sibling set. stream: 0 dyadic, 1 decimal, 2 malformed.
func genLevel(r *u.Rng, stream int, maxQ int) Input {
	in := Input{}
	n := r.Range(1, maxQ)
	if r.Chance(1, 10) {
		n = r.Range(1, 2)
	}
	nb := 1
	if r.Chance(1, 2) {
		nb = r.Range(2, 3)
	}
	switch stream {
	case 0:
		in.K = u.Pick(r, []float64{0, 0, 0, 0, 0, 1, 1, 3, 0.5})
	case 1:
		in.K = u.Pick(r, []float64{0, 0, 1, 1, 0.5, 2, 0.7, 10})
	default:
		in.K = u.Pick(r, []float64{0, 1, -1, 1e6, 0.001})
	}
	prios := make([]int, n)
	for i := range prios {
		prios[i] = u.Pick(r, []int{0, 1, 2, 5, -1}[:nb+1])
		if nb == 1 {
			prios[i] = 0
		}
	}
	created := r.Chance(1, 2)
	for i := 0; i < n; i++ {
		q := QueueIn{UID: fmt.Sprintf("q%d", r.Intn(1000)*32+i), Prio: prios[i]}
		if created {
			q.Created = int64(1700000000 + r.Intn(3))
		}
		in.Queues = append(in.Queues, q)
	}
	for j := 0; j < 3; j++ {
		if j < 2 && r.Chance(1, 2) { // CPU / memory left empty as in most of the Go tests
			for i := range in.Queues {
				in.Queues[i].Res[j] = empty()
			}
			in.Totals[j] = float64(r.Intn(3))
			continue
		}
		var a amounts
		switch j {
		case 0:
			a = amounts{unit: []float64{500, 250, 100}, scale: 1000, maxInt: 32}
		case 1:
			a = amounts{unit: []float64{1 << 19, 1 << 18}, scale: 1 << 20, maxInt: 64}
		default:
			a = amounts{unit: []float64{0.5, 0.25, 0.75, 0.125}, scale: 1, maxInt: 12}
		}
		if stream == 1 && j == 2 {
			a.unit = []float64{0.1, 0.3, 0.5, 0.7, 0.33}
		}
		// weights per band
		weights := make([]float64, n)
		byBand := map[int][]int{}
		for i, p := range prios {
			byBand[p] = append(byBand[p], i)
		}
		for _, idx := range byBand {
			var w []float64
			switch stream {
			case 0:
				if r.Chance(4, 5) {
					w = pow2Weights(r, len(idx))
				} else {
					w = make([]float64, len(idx))
					for i := range w {
						w[i] = float64(r.Intn(5))
					}
				}
			case 1:
				w = make([]float64, len(idx))
				for i := range w {
					w[i] = u.Pick(r, []float64{0, 1, 1, 2, 3, 5, 10, 0.5, 0.3, 1.5})
				}
			default:
				w = make([]float64, len(idx))
				for i := range w {
					w[i] = u.Pick(r, []float64{0, 1, 2, -1, -0.5, 3})
				}
			}
			for i, ix := range idx {
				weights[ix] = w[i]
			}
		}
		sumD, sumR := 0.0, 0.0
		for i := range in.Queues {
			x := ResIn{Limit: -1, Weight: weights[i]}
			x.Deserved = pickAmount(r, amounts{a.unit, a.scale, a.maxInt / 3}, r.Chance(1, 4))
			if r.Chance(1, 10) {
				x.Deserved = -1
			}
			if r.Chance(1, 5) {
				x.Deserved = 0
			}
			x.Request = pickAmount(r, a, true)
			if r.Chance(1, 8) {
				x.Request = 0
			}
			if r.Chance(1, 8) {
				x.Request = 100000 * a.scale / 1000 // "unbounded" request as in resource_share_defaults
				if a.scale == 1 {
					x.Request = 1000
				}
			}
			if r.Chance(1, 4) {
				x.Limit = pickAmount(r, a, r.Chance(1, 4))
			}
			switch stream {
			case 0:
				if in.K != 0 && r.Chance(1, 2) {
					x.Usage = u.Pick(r, []float64{0, 0.25, 0.5, 0.125, 1})
				}
			case 1:
				if r.Chance(1, 2) {
					x.Usage = u.Pick(r, []float64{0, 0.1, 0.2, 0.05, 0.6, 0.9, 0.33})
				}
			default:
				x.Usage = u.Pick(r, []float64{0, 0.5, -0.5, 3, 100})
				if r.Chance(1, 6) {
					x.Request = -a.scale
				}
				if r.Chance(1, 6) {
					x.Limit = u.Pick(r, []float64{-2, 0, -0.5})
				}
				if r.Chance(1, 8) {
					x.Deserved = -3 * a.scale
				}
			}
			if x.Deserved > 0 {
				sumD += x.Deserved
			}
			sumR += math.Max(0, x.Request)
			in.Queues[i].Res[j] = x
		}
		sumR = math.Min(sumR, float64(a.maxInt)*a.scale*float64(n))
		// total: scarce / between deserved and requests / abundant
		var t float64
		switch r.Intn(6) {
		case 0:
			t = math.Floor(sumD * float64(r.Intn(4)) / 4 / a.scale) * a.scale
		case 1, 2, 3:
			t = sumD + math.Floor(float64(r.Intn(int(math.Max(1, (sumR-sumD)/a.scale+1)))))*a.scale
			if t < sumD {
				t = sumD
			}
		case 4:
			t = sumD + float64(r.Range(1, 3))*a.scale
		default:
			t = sumR + float64(r.Intn(4))*a.scale
		}
		if r.Chance(1, 5) {
			t += u.Pick(r, a.unit)
		}
		if stream == 2 && r.Chance(1, 6) {
			t = u.Pick(r, []float64{0, -a.scale, 0.5 * a.scale})
		}
		in.Totals[j] = t
	}
	return in
}

// genChildren draws children of a parent queue whose fair share is fair[].
func genChildren(r *u.Rng, stream int, parent QueueIn, fair [3]float64) Input {
	in := genLevel(r, stream, 5)
	in.Totals = fair
	for i := range in.Queues {
		in.Queues[i].UID = parent.UID + "-c" + fmt.Sprint(i)
	}
	// mostly consistent hierarchy: children's quotas within the parent's, requests add up to the parent's
	if r.Chance(3, 4) {
		for j := 0; j < 3; j++ {
			pd := parent.Res[j].Deserved
			if pd < 0 {
				continue
			}
			left := pd
			for i := range in.Queues {
				d := in.Queues[i].Res[j].Deserved
				if d < 0 {
					continue
				}
				if d > left {
					d = left
				}
				in.Queues[i].Res[j].Deserved = d
				left -= d
			}
		}
	}
	return in
}

// ---- fixed corpus -------------------------------------------------------------------

func gpuOnly(total, k float64, qs ...QueueIn) Input {
	return Input{Totals: [3]float64{0, 0, total}, K: k, Queues: qs}
}

func gq(uid string, prio int, d, l, w, req, usage float64) QueueIn {
	return QueueIn{UID: uid, Prio: prio, Res: [3]ResIn{empty(), empty(), {Deserved: d, Limit: l, Weight: w, Request: req, Usage: usage}}}
}

func corpus() []Input {
	return []Input{
		// from resource_division_test.go
		gpuOnly(2, 0, gq("1", 0, 3, -1, 0, 2, 0)),
		gpuOnly(3, 0, gq("1", 0, 3, 2, 0, 2, 0)),
		gpuOnly(2, 0, gq("1", 0, 1.5, -1, 0, 2, 0)),
		// equal weights, scarce: floor + remainder units by UID
		gpuOnly(10, 0, gq("a", 0, 1, -1, 1, 100, 0), gq("b", 0, 1, -1, 1, 100, 0), gq("c", 0, 1, -1, 1, 100, 0), gq("d", 0, 1, -1, 1, 100, 0)),
		gpuOnly(7, 0, gq("a", 0, 0, -1, 1, 100, 0), gq("b", 0, 0, -1, 3, 100, 0)),
		// a second round after a small request is satisfied
		gpuOnly(10, 0, gq("a", 0, 0, -1, 1, 100, 0), gq("b", 0, 0, -1, 1, 3, 0)),
		// two bands, fractional request in the higher one
		gpuOnly(10, 0, gq("a", 0, 0, -1, 1, 100, 0), gq("b", 1, 0, -1, 2, 3, 0), gq("c", 1, 0, -1, 2, 3.5, 0)),
		// remainder unit pushes a queue above its capped request (by less than one)
		gpuOnly(7, 0, gq("a", 0, 0, -1, 1, 3.75, 0), gq("b", 0, 0, -1, 1, 3.75, 0)),
		// limit caps the request; zero weight starves; unlimited quota
		gpuOnly(12, 0, gq("a", 0, 2, 4, 1, 9, 0), gq("b", 0, 2, -1, 0, 9, 0), gq("c", 0, -1, -1, 1, 3, 0)),
		// quotas over-committed: no over-quota phase
		gpuOnly(4, 0, gq("a", 0, 3, -1, 1, 5, 0), gq("b", 0, 3, -1, 1, 5, 0)),
		// time-based fairness: usage-penalised queue
		gpuOnly(8, 1, gq("a", 0, 0, -1, 1, 100, 0.5), gq("b", 0, 0, -1, 1, 100, 0)),
		gpuOnly(8, 3, gq("a", 0, 0, -1, 1, 100, 1), gq("b", 0, 0, -1, 1, 2, 0)),
		// penalised down to weight 0 while being the only hungry queue of its band: surplus stays idle
		gpuOnly(8, 1, gq("a", 0, 0, -1, 1, 100, 4)),
		// creation time tie-break
		{Totals: [3]float64{0, 0, 5}, Queues: []QueueIn{
			{UID: "a", Created: 20, Res: [3]ResIn{{}, {}, {Limit: -1, Weight: 1, Request: 9}}},
			{UID: "b", Created: 10, Res: [3]ResIn{{}, {}, {Limit: -1, Weight: 1, Request: 9}}}}},
		// three resources at once
		{Totals: [3]float64{16000, 1 << 30, 8}, Queues: []QueueIn{
			{UID: "x", Res: [3]ResIn{{Deserved: 4000, Limit: -1, Weight: 1, Request: 12000}, {Deserved: 1 << 28, Limit: -1, Weight: 1, Request: 1 << 30}, {Deserved: 2, Limit: -1, Weight: 1, Request: 6}}},
			{UID: "y", Res: [3]ResIn{{Deserved: 4000, Limit: -1, Weight: 3, Request: 12000}, {Deserved: 1 << 28, Limit: 1 << 29, Weight: 1, Request: 1 << 30}, {Deserved: 2, Limit: -1, Weight: 3, Request: 6}}}}},
		// remainders that tie in exact arithmetic (1/3 each) but not in float64: the unit goes to
		// q0 or q1 depending on the map iteration order (known finding C09-order-dependent-at-ties, flag 1)
		gpuOnly(8, 0, gq("q0", 0, 0, -1, 1, 1000, 0), gq("q1", 0, 0, -1, 4, 1000, 0), gq("q2", 0, 0, -1, 1, 1000, 0)),
		gpuOnly(20, 0, gq("q0", 0, 0, -1, 1, 1000, 0), gq("q1", 0, 0, -1, 4, 1000, 0), gq("q2", 0, 0, -1, 1, 1000, 0)),
		gpuOnly(14, 0, gq("q0", 0, 0, -1, 0.5, 1000, 0), gq("q1", 0, 0, -1, 2, 1000, 0), gq("q2", 0, 0, -1, 0.5, 1000, 0)),
		// empty queue set, zero total
		{Totals: [3]float64{1, 1, 1}},
		gpuOnly(0, 0, gq("a", 0, 0, -1, 1, 5, 0)),
	}
}

// ---- statistics (Go side, for the evidence only) -------------------------------------

func capOf(x ResIn) float64 {
	if x.Limit == -1 {
		return x.Request
	}
	return math.Min(x.Limit, x.Request)
}

func phase1(t float64, x ResIn) float64 {
	d := x.Deserved
	if d == -1 {
		d = t
	}
	return math.Min(d, capOf(x))
}

func features(in Input, o Obs) []string {
	fs := []string{}
	if !o.Returned || o.First == nil {
		return []string{"did_not_return"}
	}
	add := func(s string) {
		for _, f := range fs {
			if f == s {
				return
			}
		}
		fs = append(fs, s)
	}
	for j := 0; j < 3; j++ {
		sumP, sumF := 0.0, 0.0
		hungry, bands := 0, map[int]bool{}
		for _, q := range in.Queues {
			x := q.Res[j]
			f := o.First[q.UID][j]
			sumP += phase1(in.Totals[j], x)
			sumF += f
			bands[q.Prio] = true
			if f < capOf(x) {
				hungry++
			}
			if f > capOf(x) {
				add("unit_above_capped_request")
			}
			if x.Limit != -1 && x.Limit < x.Request && f >= x.Limit && x.Limit > 0 {
				add("limit_binding")
			}
			if f-phase1(in.Totals[j], x) != math.Floor(f-phase1(in.Totals[j], x)) {
				add("fractional_surplus")
			}
		}
		if in.Totals[j]-sumP > 0 && len(in.Queues) > 0 {
			add("over_quota_phase")
			if sumF > sumP {
				add("surplus_handed")
			}
			if in.Totals[j]-sumF > 0 {
				add("idle_left")
				if hungry > 0 {
					add("idle_left_with_hungry_queue")
				}
			} else if hungry > 0 {
				add("scarce")
			}
			if len(bands) > 1 {
				add("multi_band")
			}
		} else if len(in.Queues) > 0 {
			add("quota_only")
		}
	}
	if o.Differ && o.MaxDiff < 1e-6 {
		add("orders_differ_by_float_rounding")
	} else if o.Differ {
		add("orders_differ_substantially")
	}
	return fs
}

func label(origin string, in Input) string {
	b, _ := json.Marshal(in)
	return origin + " " + string(b)
}

// Run generates n cases from seed and writes them under dir.
func Run(dir string, seed uint64, n int, tier string) error {
	out := u.NewOut(dir, "C09", "KaiV.Run.C09", "case", 50)
	root := u.NewRng(seed)
	emit := func(in Input, origin string, r *u.Rng) Obs {
		term, o := Eval(in, r)
		out.Add(term, label(origin, in))
		out.Count("origin:" + origin)
		out.Count(fmt.Sprintf("queues:%02d", len(in.Queues)))
		fs := features(in, o)
		for _, f := range fs {
			out.Count("feature:" + f)
		}
		// non-trivial: the over-quota phase ran on at least two queues; distinct by input
		for _, f := range fs {
			if f == "surplus_handed" && len(in.Queues) >= 2 {
				b, _ := json.Marshal(in)
				out.NonTrivial(string(b))
			}
		}
		out.Sample(map[string]any{"origin": origin, "input": in, "observed": o})
		if o.Differ && o.MaxDiff >= 1e-6 && os.Getenv("C09_DEBUG") != "" {
			b, _ := json.Marshal(in)
			fmt.Fprintf(os.Stderr, "ORDER-DIFF case %d %s\n", out.Len()-1, b)
			for _, run := range o.Runs {
				fmt.Fprintf(os.Stderr, "   %v\n", run)
			}
		}
		return o
	}
	for i, in := range corpus() {
		emit(in, "corpus", root.Fork(uint64(1_000_000+i)))
	}
	maxQ := 8
	if tier == "thorough" {
		maxQ = 12
	}
	for i := 0; i < n; i++ {
		r := root.Fork(uint64(i))
		stream := []int{0, 0, 0, 0, 0, 1, 1, 2}[i%8]
		name := []string{"dyadic", "decimal", "malformed"}[stream]
		mq := maxQ
		if r.Chance(1, 30) {
			mq = 20
		}
		in := genLevel(r, stream, mq)
		o := emit(in, name, r)
		// one level down: the children of one queue divide what it received
		if o.Returned && len(in.Queues) > 0 && r.Chance(1, 4) {
			p := in.Queues[r.Intn(len(in.Queues))]
			ch := genChildren(r, stream, p, o.First[p.UID])
			emit(ch, name+"-children", r)
			i++
		}
	}
	// the hierarchical stream: the real proportion plugin opened on generated queue trees
	nTrees := n / 3
	runTrees(out, root, nTrees)
	out.Stats["rule"] = "FLAT STREAM: sibling-queue sets drawn from one splitmix64 stream after a fixed boundary corpus: 5/8 dyadic (integers and binary fractions, band weights summing to a power of two, k in {0,1,3,1/2}) so that float arithmetic is mostly exact, 2/8 decimal (weights 1..10 and 0.3, k in {0.5,0.7,2,10}, usage fractions), 1/8 malformed (negative weights / usage / requests / limits / totals, k<0); a quarter of the cases is followed by a child-level case dividing the fair share one of its queues received; each case is run under 8 map insertion orders. TREE STREAM (n/3 cases after a corpus of 7 hierarchies taken from proportion_test and from the zero-share-parent shapes): the REAL proportion plugin is opened (OnSessionOpen) on a real session holding a generated queue hierarchy and every queue's fair share is read back (Session.QueueFairShare for CPU / memory, the queue_fair_share_gpu gauge for GPUs). Shape: 1-3 top-level queues, each with 1-4 children (1/8: a top-level leaf), a child has 1-3 children of its own with probability 1/3, a grandchild 1-2 with probability 1/5, at most 24 queues, depth 2-4 (distribution: tree:depth:*, tree:queues:*). Per sibling set: 1-3 over-quota priorities, creation-time ties, per band weights summing to a power of two (3/4 dyadic trees) or decimal weights (1/4 decimal trees: also quotas with tenths, k in {0.5,0.7,2,10}); quota 0 (1/5), unlimited -1 (1/10), limit (1/4), limit 0 (1/16); in 3/4 of the trees the children's quotas fit into their parent's. CPU and memory are each, per tree, unlimited everywhere (-1/-1/weight 1) / empty everywhere (0/0/0) / generated like GPUs. Requests come from jobs (1-3 per leaf, 1-3 pending tasks, whole GPUs or a fraction 0.25/0.5/0.75, CPU, memory; 1/10 running; 1/8 idle leaves; 1/8 very hungry leaves; 1/10 of the inner queues hold a job of their own) and are rolled up by the plugin. k as in the flat stream, historical usage per queue per resource when k != 0. Every third tree gets a ZERO-SHARE scenario on one inner queue above a team that holds GPU quota and asks for more: frozen (limit 0 in all three resources), starved (quota 0, a sibling of higher over-quota priority asks for 128 GPUs), zero-weight (quota 0, weight 0), frozen in two of the three resources only; counted on the OBSERVED fair shares: tree:zero_share_parents_with_non_idle_subtree = inner queues whose observed fair share is 0 in all three resources while a child has min(deserved, capped request) > 0 in some resource, tree:parents_zero_in_two_resources_with_non_idle_subtree likewise with exactly two zero resources. non-trivial = surplus was handed out among >= 2 queues (flat) / some queue below the top level received more than its in-quota part (tree); distinct by input. The classes exact / compared-within-1e-6 / skipped-near-cliff of every division (flat: per resource; tree: per sibling set and resource) are decided by the model and printed by the shards (line CLASSES; TREECLASSES = hierarchies whose divisions are all exact, where the whole-tree model result is compared at every queue / other hierarchies)."
	out.Stats["insertion_orders_per_case"] = shuffles
	out.Flags = true // flag 1: real results differ between orders at a certified tie / rounding cliff
	out.Extra = append(out.Extra,
		"Definition cl := Eval vm_compute in run_classes cases.",
		"Goal True. let c := eval unfold cl in cl in idtac \"CLASSES\" c. exact I. Qed.",
		"Definition tcl := Eval vm_compute in run_tree_classes cases.",
		"Goal True. let c := eval unfold tcl in tcl in idtac \"TREECLASSES\" c. exact I. Qed.")
	_ = strings.Join
	return out.Flush()
}
