package c09

// tree.go: the hierarchical stream of C09. A generated queue tree (depth 2-4: 1-3
// top-level queues, 1-4 children each, some grandchildren and great-grandchildren)
// with deserved quota / limit / over-quota weight per resource, priority, historical
// usage and k-value, plus jobs attached to the leaves (and now and then to an inner
// queue), is turned into a real framework.Session (real NodeInfo objects built by
// test_utils' node builder, real QueueInfo / PodGroupInfo / PodInfo objects) and the
// REAL proportion plugin is opened on it (OnSessionOpen: setTotalResources,
// createQueueResourceAttrs, updateQueuesCurrentResourceUsage - the request roll-up -
// and setFairShare / setFairShareForQueues, the recursion in which children divide
// their parent's fair share).
//
// What is observed, for every queue of the tree, comes from the plugin's own queue
// attributes through its two exported channels:
//   - Session.QueueFairShare (CPU and memory exactly; GPU values >= 1 truncated to whole
//     GPUs, smaller ones rounded to two decimals), and
//   - the queue_fair_share_gpu gauge that resource_division.reportDivisionResult sets
//     for every queue of every sibling set it divides (exact float64).
// The GPU value is the gauge's; the getter is cross-checked against it (truncation).
// A queue without a gauge value (its sibling set was never divided) is observed
// through the getter alone.
//
// Requests are not exported by the plugin: the harness sums the jobs' requests over
// every queue's sub-tree itself (all generated job requests are small dyadic
// numbers, so the sum does not depend on the order in which the plugin walks its
// job map) and hands them to Coq as part of the given queues; a roll-up that went
// wrong in the plugin shows up as a fair-share mismatch.

import (
	"encoding/json"
	"fmt"
	"math"
	"os"
	"sort"
	"strconv"
	"time"

	"github.com/prometheus/client_golang/prometheus"
	v1 "k8s.io/api/core/v1"
	metav1 "k8s.io/apimachinery/pkg/apis/meta/v1"

	enginev2alpha2 "github.com/NVIDIA/KAI-scheduler/pkg/apis/scheduling/v2alpha2"
	"github.com/NVIDIA/KAI-scheduler/pkg/common/constants"
	"github.com/NVIDIA/KAI-scheduler/pkg/scheduler/api"
	"github.com/NVIDIA/KAI-scheduler/pkg/scheduler/api/common_info"
	"github.com/NVIDIA/KAI-scheduler/pkg/scheduler/api/node_info"
	"github.com/NVIDIA/KAI-scheduler/pkg/scheduler/api/pod_info"
	"github.com/NVIDIA/KAI-scheduler/pkg/scheduler/api/pod_status"
	"github.com/NVIDIA/KAI-scheduler/pkg/scheduler/api/podgroup_info"
	"github.com/NVIDIA/KAI-scheduler/pkg/scheduler/api/queue_info"
	"github.com/NVIDIA/KAI-scheduler/pkg/scheduler/api/resource_info"
	"github.com/NVIDIA/KAI-scheduler/pkg/scheduler/cache"
	"github.com/NVIDIA/KAI-scheduler/pkg/scheduler/conf"
	"github.com/NVIDIA/KAI-scheduler/pkg/scheduler/framework"
	"github.com/NVIDIA/KAI-scheduler/pkg/scheduler/plugins"
	rs "github.com/NVIDIA/KAI-scheduler/pkg/scheduler/plugins/proportion/resource_share"
	putils "github.com/NVIDIA/KAI-scheduler/pkg/scheduler/plugins/proportion/utils"
	"github.com/NVIDIA/KAI-scheduler/pkg/scheduler/test_utils/nodes_fake"

	u "kaiverif/internal/util"
)

// ---- description of one tree case ------------------------------------------------

type TNode struct {
	GPUs      int     `json:"gpus"`
	CPUMillis float64 `json:"cpu"`
	MemBytes  float64 `json:"mem"`
}

// TQueue is one queue; Res holds the values as the plugin sees them (CPU in
// milli-CPUs, memory in bytes, GPUs); MemMB is what goes into the QueueInfo (the
// plugin multiplies memory quota and limit by 10^6 and clamps at -1). Res[*].Request
// is filled in by the harness' roll-up (it is not an input of the session).
type TQueue struct {
	UID     string     `json:"uid"`
	Parent  string     `json:"par,omitempty"`
	Prio    int        `json:"p"`
	Created int64      `json:"c"`
	Res     [3]ResIn   `json:"res"`
	MemMB   [2]float64 `json:"memMB"` // quota, limit
}

type TJob struct {
	Queue   string  `json:"q"`
	Tasks   int     `json:"n"`
	GPU     float64 `json:"g"` // per task: whole GPUs or a fraction < 1
	CPU     float64 `json:"c"` // milli-CPUs per task
	Mem     float64 `json:"m"` // bytes per task
	Running bool    `json:"run,omitempty"`
}

type TreeInput struct {
	Nodes  []TNode  `json:"nodes"`
	K      float64  `json:"k"`
	Queues []TQueue `json:"queues"` // parents before their children
	Jobs   []TJob   `json:"jobs"`
}

func (in *TreeInput) index() map[string]int {
	m := map[string]int{}
	for i, q := range in.Queues {
		m[q.UID] = i
	}
	return m
}

func (in *TreeInput) children(uid string) []int {
	var out []int
	for i, q := range in.Queues {
		if q.Parent == uid {
			out = append(out, i)
		}
	}
	return out
}

// rollUp fills Res[*].Request: a job's request counts for its queue and every ancestor
// (proportion.updateQueuesCurrentResourceUsage).
func (in *TreeInput) rollUp() {
	idx := in.index()
	for i := range in.Queues {
		for j := 0; j < 3; j++ {
			in.Queues[i].Res[j].Request = 0
		}
	}
	for _, jb := range in.Jobs {
		// what one task of the job asks for, through the conversion the plugin uses
		pq := putils.QuantifyResourceRequirements(resource_info.NewResourceRequirements(jb.GPU, jb.CPU, jb.Mem))
		per := [3]float64{pq[rs.CpuResource], pq[rs.MemoryResource], pq[rs.GpuResource]}
		for t := 0; t < jb.Tasks; t++ {
			for qi, ok := idx[jb.Queue]; ok; qi, ok = idx[in.Queues[qi].Parent] {
				for j := 0; j < 3; j++ {
					in.Queues[qi].Res[j].Request += per[j]
				}
				if in.Queues[qi].Parent == "" {
					break
				}
			}
		}
	}
}

// ---- the real session ---------------------------------------------------------------

var treeInit bool

const gpuFairShareMetric = "queue_fair_share_gpu"

func readGpuGauge() map[string]float64 {
	out := map[string]float64{}
	mfs, err := prometheus.DefaultGatherer.Gather()
	if err != nil {
		return out
	}
	for _, mf := range mfs {
		if mf.GetName() != gpuFairShareMetric {
			continue
		}
		for _, m := range mf.GetMetric() {
			name := ""
			for _, l := range m.GetLabel() {
				if l.GetName() == "queue_name" {
					name = l.GetValue()
				}
			}
			out[name] = m.GetGauge().GetValue()
		}
	}
	return out
}

type TreeObs struct {
	Opened        bool                  `json:"opened"`
	Panic         string                `json:"panic,omitempty"`
	Fair          map[string][3]float64 `json:"fair_share"`
	Totals        [3]float64            `json:"totals"`
	GaugeMissing  int                   `json:"queues_without_gauge"`
	GaugeMismatch int                   `json:"gauge_vs_getter_mismatch"`
}

// getterShows: Session.QueueFairShare shows GPU values >= 1 truncated to whole
// GPUs and smaller ones rounded to two decimals.
func getterShows(exact, shown float64) bool {
	if exact >= 1 {
		return float64(int64(exact)) == shown
	}
	return math.Abs(exact-shown) <= 0.00500001
}

// runTree opens the real proportion plugin on the described snapshot and reads every
// queue's fair share back.
func runTree(in *TreeInput) TreeObs {
	if !treeInit {
		plugins.InitDefaultPlugins()
		treeInit = true
	}
	o := TreeObs{Fair: map[string][3]float64{}}
	nodesMeta := map[string]nodes_fake.TestNodeBasic{}
	for i, n := range in.Nodes {
		// the node builder's "CPUMillis" is parsed as a plain CPU quantity (cores)
		nodesMeta[fmt.Sprintf("node%d", i)] = nodes_fake.TestNodeBasic{GPUs: n.GPUs, CPUMillis: n.CPUMillis / 1000, CPUMemory: n.MemBytes}
	}
	vm := resource_info.NewResourceVectorMap()
	nodes := nodes_fake.BuildNodesInfoMap(nodesMeta, map[string]pod_info.PodsMap{}, cache.NewK8sClusterPodAffinityInfo(), vm)
	// cluster totals: what the node objects offer (integers: the sum is exact in any order)
	for i := range in.Nodes {
		t := putils.QuantifyResource(nodes[fmt.Sprintf("node%d", i)].Allocatable)
		o.Totals[0] += t[rs.CpuResource]
		o.Totals[1] += t[rs.MemoryResource]
		o.Totals[2] += t[rs.GpuResource]
	}

	queues := map[common_info.QueueID]*queue_info.QueueInfo{}
	usage := queue_info.NewClusterUsage()
	for _, q := range in.Queues {
		queues[common_info.QueueID(q.UID)] = &queue_info.QueueInfo{
			UID: common_info.QueueID(q.UID), Name: q.UID, ParentQueue: common_info.QueueID(q.Parent),
			ChildQueues: []common_info.QueueID{},
			Resources: queue_info.QueueQuota{
				CPU:    queue_info.ResourceQuota{Quota: q.Res[0].Deserved, Limit: q.Res[0].Limit, OverQuotaWeight: q.Res[0].Weight},
				Memory: queue_info.ResourceQuota{Quota: q.MemMB[0], Limit: q.MemMB[1], OverQuotaWeight: q.Res[1].Weight},
				GPU:    queue_info.ResourceQuota{Quota: q.Res[2].Deserved, Limit: q.Res[2].Limit, OverQuotaWeight: q.Res[2].Weight},
			},
			Priority:          q.Prio,
			CreationTimestamp: metav1.Time{Time: time.Unix(q.Created, 0)},
		}
		if q.Res[0].Usage != 0 || q.Res[1].Usage != 0 || q.Res[2].Usage != 0 {
			usage.Queues[common_info.QueueID(q.UID)] = queue_info.QueueUsage{
				v1.ResourceCPU: q.Res[0].Usage, v1.ResourceMemory: q.Res[1].Usage, constants.NvidiaGpuResource: q.Res[2].Usage}
		}
	}
	for _, q := range in.Queues { // as cluster_info.UpdateQueueHierarchy: parents learn their children
		if q.Parent != "" {
			if p, ok := queues[common_info.QueueID(q.Parent)]; ok {
				p.AddChildQueue(common_info.QueueID(q.UID))
			}
		}
	}

	jobs := map[common_info.PodGroupID]*podgroup_info.PodGroupInfo{}
	for ji, jb := range in.Jobs {
		name := fmt.Sprintf("job%d", ji)
		st := pod_status.Pending
		if jb.Running {
			st = pod_status.Running
		}
		pods := pod_info.PodsMap{}
		for t := 0; t < jb.Tasks; t++ {
			uid := common_info.PodID(fmt.Sprintf("%s-%d", name, t))
			req := resource_info.NewResourceRequirements(jb.GPU, jb.CPU, jb.Mem)
			pods[uid] = &pod_info.PodInfo{UID: uid, Name: string(uid), Namespace: "ns", Job: common_info.PodGroupID(name),
				Status: st, ResReq: req, AcceptedResource: req, ResourceRequestType: pod_info.RequestTypeRegular}
		}
		jobs[common_info.PodGroupID(name)] = &podgroup_info.PodGroupInfo{
			UID: common_info.PodGroupID(name), Name: name, Namespace: "ns", Queue: common_info.QueueID(jb.Queue),
			Preemptibility: enginev2alpha2.Preemptible,
			PodStatusIndex: map[pod_status.PodStatus]pod_info.PodsMap{st: pods},
		}
	}

	ssn := &framework.Session{
		Config: &conf.SchedulerConfiguration{},
		ClusterInfo: &api.ClusterInfo{Nodes: nodes, Queues: queues, PodGroupInfos: jobs,
			MinNodeGPUMemory: node_info.DefaultGpuMemory, QueueResourceUsage: *usage},
		SchedulerParams: conf.SchedulerParams{SchedulerName: "kai-scheduler"},
	}
	pb, found := framework.GetPluginBuilder("proportion")
	if !found {
		o.Panic = "no proportion plugin builder"
		return o
	}
	args := framework.PluginArguments{"kValue": strconv.FormatFloat(in.K, 'g', -1, 64)}
	done := make(chan struct{})
	go func() {
		defer func() {
			if r := recover(); r != nil {
				o.Panic = fmt.Sprint(r)
			}
			close(done)
		}()
		pb(args).OnSessionOpen(ssn)
	}()
	select {
	case <-done:
	case <-time.After(10 * time.Second):
		o.Panic = "OnSessionOpen did not return within 10 s"
		return o
	}
	if o.Panic != "" {
		return o
	}
	o.Opened = true
	gauge := readGpuGauge()
	for _, q := range in.Queues {
		fs := ssn.QueueFairShare(queues[common_info.QueueID(q.UID)])
		if fs == nil {
			o.Opened = false
			o.Panic = "QueueFairShare returned nil"
			return o
		}
		g := fs.GetGpusQuota()
		if gv, ok := gauge[q.UID]; ok {
			if !getterShows(gv, g) {
				o.GaugeMismatch++
				if os.Getenv("C09_DEBUG") != "" {
					fmt.Fprintf(os.Stderr, "GAUGE %s gauge=%v getter=%v\n", q.UID, gv, g)
				}
			}
			g = gv
		} else {
			o.GaugeMissing++
		}
		o.Fair[q.UID] = [3]float64{fs.Cpu(), fs.Memory(), g}
	}
	return o
}

// ---- Coq term ---------------------------------------------------------------------------

func treeRanks(in *TreeInput) map[string]int {
	ids := make([]string, len(in.Queues))
	for i, q := range in.Queues {
		ids[i] = q.UID
	}
	sort.Strings(ids)
	m := map[string]int{}
	for i, id := range ids {
		m[id] = i + 1
	}
	return m
}

func Q3s(v [3]float64) string { return u.Tuple(Qs(v[0]), Qs(v[1]), Qs(v[2])) }

func treeTerm(in *TreeInput, o TreeObs) string {
	rk := treeRanks(in)
	var node func(i int) string
	node = func(i int) string {
		q := in.Queues[i]
		qs := make([]string, 3)
		for j := 0; j < 3; j++ {
			x := q.Res[j]
			qs[j] = fmt.Sprintf("(mkQ %s %s %s %s %s %s %s %s (QM 0%%Z 1%%positive))", u.Pos(rk[q.UID]), u.Z(int64(q.Prio)), u.Z(q.Created),
				Qs(x.Deserved), Qs(x.Limit), Qs(x.Weight), Qs(x.Request), Qs(x.Usage))
		}
		kids := []string{}
		for _, c := range in.children(q.UID) {
			kids = append(kids, node(c))
		}
		return fmt.Sprintf("(ON %s %s %s %s %s)", qs[0], qs[1], qs[2], Q3s(o.Fair[q.UID]), u.List(kids))
	}
	roots := []string{}
	for i, q := range in.Queues {
		if q.Parent == "" {
			roots = append(roots, node(i))
		}
	}
	return fmt.Sprintf("(Tree {| t_kvalue := %s; t_totals := %s; t_roots := %s; t_opened := %s |})",
		Qs(in.K), Q3s(o.Totals), u.List(roots), u.Bool(o.Opened))
}

// ---- generator ------------------------------------------------------------------------------

var treeAmounts = [3]amounts{
	{unit: []float64{500, 250}, scale: 1000, maxInt: 16},                // milli-CPUs
	{unit: []float64{500000, 250000}, scale: 1000000, maxInt: 256},      // bytes, in MB steps
	{unit: []float64{0.5, 0.25, 0.75, 0.125}, scale: 1, maxInt: 8},      // GPUs
}

// resource modes of a tree for CPU and memory
const (
	modeUnlimited = iota // quota -1, limit -1, weight 1 everywhere (the usual production setting)
	modeEmpty            // quota 0, limit 0, weight 0 everywhere (rs.EmptyResource, as in most Go tests)
	modeGenerated
)

type treeGen struct {
	r      *u.Rng
	stream int // 0 dyadic, 1 decimal
	in     *TreeInput
	mode   [3]int
	next   int
}

func (g *treeGen) addQueue(parent string, name string) int {
	g.in.Queues = append(g.in.Queues, TQueue{UID: name, Parent: parent})
	return len(g.in.Queues) - 1
}

// shape builds the queue tree; returns nothing, fills g.in.Queues parents-first.
func (g *treeGen) shape() {
	r := g.r
	top := r.Range(1, 3)
	type pend struct {
		idx, depth int
	}
	var work []pend
	for i := 0; i < top; i++ {
		work = append(work, pend{g.addQueue("", fmt.Sprintf("d%d", i)), 1})
	}
	for len(work) > 0 {
		p := work[0]
		work = work[1:]
		uid := g.in.Queues[p.idx].UID
		var n int
		switch p.depth {
		case 1:
			n = r.Range(1, 4)
			if r.Chance(1, 8) {
				n = 0 // a top-level queue that is a leaf
			}
		case 2:
			if r.Chance(1, 3) {
				n = r.Range(1, 3)
			}
		case 3:
			if r.Chance(1, 5) {
				n = r.Range(1, 2)
			}
		}
		if len(g.in.Queues)+n > 24 {
			n = 0
		}
		for c := 0; c < n; c++ {
			work = append(work, pend{g.addQueue(uid, fmt.Sprintf("%s.%c%d", uid, "dtgh"[p.depth], c)), p.depth + 1})
		}
	}
	// depth >= 2: some top-level queue has a child
	hasChild := false
	for _, q := range g.in.Queues {
		if q.Parent != "" {
			hasChild = true
		}
	}
	if !hasChild {
		g.addQueue("d0", "d0.t0")
		if r.Bool() {
			g.addQueue("d0", "d0.t1")
		}
	}
	// children directly after ... keep parents-first order (already: breadth first)
}

func (g *treeGen) siblingSets() [][]int {
	sets := [][]int{}
	byParent := map[string][]int{}
	order := []string{}
	for i, q := range g.in.Queues {
		if _, ok := byParent[q.Parent]; !ok {
			order = append(order, q.Parent)
		}
		byParent[q.Parent] = append(byParent[q.Parent], i)
	}
	for _, p := range order {
		sets = append(sets, byParent[p])
	}
	return sets
}

func (g *treeGen) quotas() {
	r := g.r
	in := g.in
	for _, set := range g.siblingSets() {
		n := len(set)
		nb := 1
		if n > 1 && r.Chance(1, 2) {
			nb = r.Range(2, 3)
		}
		created := r.Chance(1, 2)
		for _, i := range set {
			if nb > 1 {
				in.Queues[i].Prio = u.Pick(r, []int{0, 1, 2}[:nb])
			}
			if created {
				in.Queues[i].Created = int64(1700000000 + r.Intn(3))
			}
		}
		byBand := map[int][]int{}
		for _, i := range set {
			byBand[in.Queues[i].Prio] = append(byBand[in.Queues[i].Prio], i)
		}
		bands := []int{}
		for p := range byBand {
			bands = append(bands, p)
		}
		sort.Ints(bands)
		for j := 0; j < 3; j++ {
			a := treeAmounts[j]
			switch g.mode[j] {
			case modeUnlimited:
				for _, i := range set {
					in.Queues[i].Res[j] = ResIn{Deserved: -1, Limit: -1, Weight: 1}
				}
				continue
			case modeEmpty:
				for _, i := range set {
					in.Queues[i].Res[j] = ResIn{}
				}
				continue
			}
			for _, p := range bands {
				idx := byBand[p]
				var w []float64
				if g.stream == 0 {
					if r.Chance(4, 5) {
						w = pow2Weights(r, len(idx))
					} else {
						w = make([]float64, len(idx))
						for k := range w {
							w[k] = float64(r.Intn(5))
						}
					}
				} else {
					w = make([]float64, len(idx))
					for k := range w {
						w[k] = u.Pick(r, []float64{0, 1, 1, 2, 3, 5, 10, 0.5, 0.3, 1.5})
					}
				}
				for k, i := range idx {
					in.Queues[i].Res[j].Weight = w[k]
				}
			}
			for _, i := range set {
				x := &in.Queues[i].Res[j]
				x.Limit = -1
				x.Deserved = pickAmount(r, amounts{a.unit, a.scale, a.maxInt / 2}, j == 2 && r.Chance(1, 4))
				if g.stream == 1 && j == 2 && r.Chance(1, 4) {
					x.Deserved += u.Pick(r, []float64{0.1, 0.3, 0.7})
				}
				if r.Chance(1, 10) {
					x.Deserved = -1
				}
				if r.Chance(1, 5) {
					x.Deserved = 0
				}
				if r.Chance(1, 4) {
					x.Limit = pickAmount(r, a, j == 2 && r.Chance(1, 4))
				}
				if r.Chance(1, 16) {
					x.Limit = 0
				}
				if in.K != 0 && r.Chance(1, 2) {
					if g.stream == 0 {
						x.Usage = u.Pick(r, []float64{0, 0.25, 0.5, 0.125, 1})
					} else {
						x.Usage = u.Pick(r, []float64{0, 0.1, 0.2, 0.05, 0.6, 0.9, 0.33})
					}
				}
			}
		}
	}
	// mostly consistent hierarchy: the children's quotas fit into their parent's
	if r.Chance(3, 4) {
		for pi, p := range in.Queues {
			ch := in.children(p.UID)
			for j := 0; j < 3; j++ {
				left := in.Queues[pi].Res[j].Deserved
				if left < 0 {
					continue
				}
				for _, c := range ch {
					d := in.Queues[c].Res[j].Deserved
					if d < 0 {
						continue
					}
					if d > left {
						d = left
					}
					in.Queues[c].Res[j].Deserved = d
					left -= d
				}
			}
		}
	}
}

func (g *treeGen) isLeaf(i int) bool { return len(g.in.children(g.in.Queues[i].UID)) == 0 }

func (g *treeGen) job(queue string, tasks int, gpu, cpu, mem float64) {
	g.in.Jobs = append(g.in.Jobs, TJob{Queue: queue, Tasks: tasks, GPU: gpu, CPU: cpu, Mem: mem})
}

func (g *treeGen) randomJob(queue string) {
	r := g.r
	gpu := u.Pick(r, []float64{0, 0.5, 0.25, 0.75, 0.5, 1, 1, 2, 2, 4, 8}) // fractions with two decimals: the request of a fraction pod is rounded to 0.01
	cpu := u.Pick(r, []float64{0, 500, 1000, 1000, 2000, 4000, 250})
	mem := u.Pick(r, []float64{0, 16e6, 32e6, 64e6, 128e6, 500000})
	g.job(queue, r.Range(1, 3), gpu, cpu, mem)
	if r.Chance(1, 10) {
		g.in.Jobs[len(g.in.Jobs)-1].Running = true
	}
}

func (g *treeGen) jobs() {
	r := g.r
	for i, q := range g.in.Queues {
		if g.isLeaf(i) {
			if r.Chance(1, 8) {
				continue // idle leaf
			}
			for n := r.Range(1, 3); n > 0; n-- {
				g.randomJob(q.UID)
			}
			if r.Chance(1, 8) { // a very hungry leaf
				g.job(q.UID, 8, 8, 8000, 128e6)
			}
		} else if r.Chance(1, 10) {
			g.randomJob(q.UID) // a job submitted to an inner queue
		}
	}
}

func (g *treeGen) nodes() {
	r := g.r
	for n := r.Range(1, 3); n > 0; n-- {
		g.in.Nodes = append(g.in.Nodes, TNode{GPUs: u.Pick(r, []int{0, 1, 2, 4, 8, 8}),
			CPUMillis: u.Pick(r, []float64{4000, 8000, 16000, 32000}), MemBytes: u.Pick(r, []float64{128e6, 256e6, 512e6})})
	}
}

// zero-share scenarios: a parent that ends with nothing while a team below it holds quota
const (
	scnNone = iota
	scnFrozen         // limit 0 (nothing guaranteed) in every resource
	scnStarved        // best-effort department, a sibling of higher over-quota priority takes everything
	scnZeroWeight     // quota 0 and over-quota weight 0
	scnFrozenTwo      // limit 0 in two resources only
	scnCount
)

var scnNames = []string{"none", "frozen", "starved", "zero-weight", "frozen-two-resources"}

// scenario rewrites one inner queue (and a child, and for "starved" a sibling) after
// the random quotas were drawn. Returns the parent's UID.
func (g *treeGen) scenario(kind int) string {
	r := g.r
	in := g.in
	var inner []int
	for i := range in.Queues {
		if !g.isLeaf(i) {
			inner = append(inner, i)
		}
	}
	if len(inner) == 0 {
		return ""
	}
	pi := u.Pick(r, inner)
	p := &in.Queues[pi]
	ch := in.children(p.UID)
	ci := u.Pick(r, ch)
	// the team below keeps a quota and wants more than it
	c := &in.Queues[ci]
	c.Res[2].Deserved = float64(r.Range(1, 3))
	if r.Chance(1, 4) {
		c.Res[2].Deserved += 0.5
	}
	c.Res[2].Limit = -1
	if c.Res[2].Weight == 0 && r.Bool() {
		c.Res[2].Weight = 1
	}
	leaf := ci
	for !g.isLeaf(leaf) {
		leaf = in.children(in.Queues[leaf].UID)[0]
	}
	gpuOnly := kind == scnStarved || kind == scnZeroWeight
	// drop the jobs of the parent's sub-tree when they must not ask for CPU / memory
	if gpuOnly {
		sub := map[string]bool{p.UID: true}
		for _, q := range in.Queues {
			if sub[q.Parent] {
				sub[q.UID] = true
			}
		}
		kept := in.Jobs[:0]
		for _, jb := range in.Jobs {
			if !sub[jb.Queue] {
				kept = append(kept, jb)
			}
		}
		in.Jobs = kept
		g.job(in.Queues[leaf].UID, r.Range(1, 2), float64(r.Range(2, 4)), 0, 0)
	} else {
		g.job(in.Queues[leaf].UID, r.Range(1, 2), float64(r.Range(2, 4)), 1000, 32e6)
	}
	switch kind {
	case scnFrozen:
		for j := 0; j < 3; j++ {
			p.Res[j].Limit = 0
			if r.Bool() {
				p.Res[j].Deserved = 0
			}
		}
		p.MemMB[1] = 0
	case scnFrozenTwo:
		keep := r.Intn(3)
		for j := 0; j < 3; j++ {
			if j != keep {
				p.Res[j].Limit = 0
			} else if p.Res[j].Limit == 0 {
				p.Res[j].Limit = -1
			}
		}
	case scnZeroWeight:
		for j := 0; j < 3; j++ {
			p.Res[j].Deserved = 0
			p.Res[j].Weight = 0
		}
	case scnStarved:
		for j := 0; j < 3; j++ {
			p.Res[j].Deserved = 0
			if g.mode[j] == modeGenerated {
				p.Res[j].Weight = 1
			}
		}
		// a sibling of higher priority that wants more than the cluster has
		var sib int
		sibs := []int{}
		for i, q := range in.Queues {
			if q.Parent == p.Parent && i != pi {
				sibs = append(sibs, i)
			}
		}
		if len(sibs) == 0 {
			if p.Parent != "" {
				// parent level has a single queue: add a sibling leaf
				sib = g.addQueue(p.Parent, p.UID+"x")
			} else {
				sib = g.addQueue("", "dx")
			}
			p = &in.Queues[pi] // the slice may have moved
			in.Queues[sib].Res = in.Queues[pi].Res
			for j := 0; j < 3; j++ {
				in.Queues[sib].Res[j].Limit = -1
				if g.mode[j] == modeEmpty {
					in.Queues[sib].Res[j].Limit = 0
				}
			}
		} else {
			sib = u.Pick(r, sibs)
		}
		s := &in.Queues[sib]
		top := 0
		for i, q := range in.Queues {
			if q.Parent == p.Parent && i != sib && q.Prio > top {
				top = q.Prio
			}
		}
		s.Prio = top + 1
		if s.Res[2].Weight == 0 {
			s.Res[2].Weight = 1
		}
		s.Res[2].Limit = -1
		sl := sib
		for !g.isLeaf(sl) {
			k := in.children(in.Queues[sl].UID)[0]
			in.Queues[k].Res[2].Limit = -1
			sl = k
		}
		g.job(in.Queues[sl].UID, 8, 16, 1000, 16e6)
	}
	return in.Queues[pi].UID
}

// fixMem derives the QueueInfo's memory quota / limit (MB) and the plugin's view of them.
func (g *treeGen) fixMem() {
	for i := range g.in.Queues {
		q := &g.in.Queues[i]
		for k, v := range []float64{q.Res[1].Deserved, q.Res[1].Limit} {
			mb := v
			if v > 0 {
				mb = v / 1e6
			}
			q.MemMB[k] = mb
			pv := math.Max(-1, mb*1e6)
			if k == 0 {
				q.Res[1].Deserved = pv
			} else {
				q.Res[1].Limit = pv
			}
		}
	}
}

func genTree(r *u.Rng, stream int, kind int) (*TreeInput, string) {
	in := &TreeInput{}
	if stream == 0 {
		in.K = u.Pick(r, []float64{0, 0, 0, 0, 1, 1, 3, 0.5})
	} else {
		in.K = u.Pick(r, []float64{0, 0, 1, 1, 0.5, 2, 0.7, 10})
	}
	g := &treeGen{r: r, stream: stream, in: in}
	g.mode = [3]int{r.Intn(3), r.Intn(3), modeGenerated}
	g.nodes()
	g.shape()
	g.quotas()
	g.jobs()
	parent := ""
	if kind != scnNone {
		parent = g.scenario(kind)
	}
	g.fixMem()
	in.rollUp()
	return in, parent
}

// ---- fixed corpus: the shapes of the existing Go tests and the zero-share parents --------

func tq(uid, parent string, prio int, gpu ResIn) TQueue {
	un := ResIn{Deserved: -1, Limit: -1, Weight: 1}
	return TQueue{UID: uid, Parent: parent, Prio: prio, Res: [3]ResIn{un, un, gpu}, MemMB: [2]float64{-1, -1}}
}

func tqe(uid, parent string, prio int, gpu ResIn) TQueue { // CPU and memory empty (quota 0, limit 0)
	return TQueue{UID: uid, Parent: parent, Prio: prio, Res: [3]ResIn{{}, {}, gpu}}
}

func treeCorpus() []*TreeInput {
	gj := func(q string, n int, g float64) TJob { return TJob{Queue: q, Tasks: n, GPU: g} }
	cj := func(q string, n int, g, c, m float64) TJob { return TJob{Queue: q, Tasks: n, GPU: g, CPU: c, Mem: m} }
	n8 := []TNode{{GPUs: 8, CPUMillis: 16000, MemBytes: 256e6}}
	return []*TreeInput{
		// proportion_test "two top parent queues - deserved department quota": the child holds 2 under a parent that has 1
		{Nodes: n8, Queues: []TQueue{
			tqe("dep-a", "", 0, ResIn{Deserved: 1, Limit: -1, Weight: 0}), tqe("dep-b", "", 0, ResIn{Deserved: 4, Limit: -1, Weight: 1}),
			tqe("team-a", "dep-a", 0, ResIn{Deserved: 2, Limit: -1, Weight: 1}), tqe("team-b", "dep-b", 0, ResIn{Deserved: 4, Limit: -1, Weight: 1})},
			Jobs: []TJob{gj("team-a", 3, 1), gj("team-b", 6, 1)}},
		// frozen department (limit 0, nothing guaranteed) above a team that holds quota: the parent's
		// fair share is 0 in every resource, the team still gets min(deserved, request) = 2
		{Nodes: n8, Queues: []TQueue{
			tqe("dep-a", "", 0, ResIn{Deserved: 0, Limit: 0, Weight: 0}), tqe("dep-b", "", 0, ResIn{Deserved: 4, Limit: -1, Weight: 1}),
			tqe("team-a", "dep-a", 0, ResIn{Deserved: 2, Limit: -1, Weight: 1}), tqe("team-b", "dep-b", 0, ResIn{Deserved: 4, Limit: -1, Weight: 1})},
			Jobs: []TJob{gj("team-a", 3, 1), gj("team-b", 6, 1)}},
		// best-effort department starved by a sibling of higher over-quota priority
		{Nodes: n8, Queues: []TQueue{
			tqe("dep-a", "", 0, ResIn{Deserved: 0, Limit: -1, Weight: 1}), tqe("dep-b", "", 1, ResIn{Deserved: 4, Limit: -1, Weight: 1}),
			tqe("team-a", "dep-a", 0, ResIn{Deserved: 2, Limit: -1, Weight: 1}), tqe("team-b", "dep-b", 0, ResIn{Deserved: 4, Limit: -1, Weight: 1})},
			Jobs: []TJob{gj("team-a", 3, 1), gj("team-b", 25, 4)}},
		// zero GPU fair share but some CPU: zero in two resources only (memory limit 0 as well)
		{Nodes: n8, Queues: []TQueue{
			{UID: "dep-a", Res: [3]ResIn{{Deserved: 1000, Limit: -1}, {}, {Deserved: 0, Limit: 0}}},
			{UID: "dep-b", Res: [3]ResIn{{Deserved: -1, Limit: -1, Weight: 1}, {}, {Deserved: 4, Limit: -1, Weight: 1}}},
			{UID: "team-a", Parent: "dep-a", Res: [3]ResIn{{Deserved: 1000, Limit: -1, Weight: 1}, {}, {Deserved: 2, Limit: -1, Weight: 1}}},
			{UID: "team-b", Parent: "dep-b", Res: [3]ResIn{{Deserved: -1, Limit: -1, Weight: 1}, {}, {Deserved: 4, Limit: -1, Weight: 1}}}},
			Jobs: []TJob{cj("team-a", 3, 1, 1000, 0), cj("team-b", 6, 1, 1000, 0)}},
		// zero-weight, zero-quota department three levels deep; fractional quota below it
		{Nodes: n8, Queues: []TQueue{
			tq("d0", "", 0, ResIn{Deserved: 8, Limit: -1, Weight: 1}),
			tq("d0.t0", "d0", 0, ResIn{Deserved: 0, Limit: -1, Weight: 0}), tq("d0.t1", "d0", 0, ResIn{Deserved: 6, Limit: -1, Weight: 1}),
			tq("d0.t0.g0", "d0.t0", 0, ResIn{Deserved: 1.5, Limit: -1, Weight: 1}), tq("d0.t0.g1", "d0.t0", 0, ResIn{Deserved: 0, Limit: -1, Weight: 1})},
			Jobs: []TJob{gj("d0.t0.g0", 2, 1), gj("d0.t0.g0", 1, 0.5), gj("d0.t0.g1", 1, 1), gj("d0.t1", 8, 1)}},
		// an ordinary three-level hierarchy with unlimited CPU / memory and time-based fairness
		{Nodes: []TNode{{GPUs: 8, CPUMillis: 16000, MemBytes: 256e6}, {GPUs: 8, CPUMillis: 16000, MemBytes: 256e6}}, K: 1, Queues: []TQueue{
			tq("d0", "", 0, ResIn{Deserved: 4, Limit: -1, Weight: 1, Usage: 0.5}), tq("d1", "", 0, ResIn{Deserved: 4, Limit: -1, Weight: 1}),
			tq("d0.t0", "d0", 0, ResIn{Deserved: 2, Limit: -1, Weight: 1}), tq("d0.t1", "d0", 1, ResIn{Deserved: 2, Limit: 6, Weight: 3}),
			tq("d1.t0", "d1", 0, ResIn{Deserved: -1, Limit: -1, Weight: 1}),
			tq("d0.t1.g0", "d0.t1", 0, ResIn{Deserved: 1, Limit: -1, Weight: 1}), tq("d0.t1.g1", "d0.t1", 0, ResIn{Deserved: 1, Limit: -1, Weight: 1})},
			Jobs: []TJob{cj("d0.t0", 6, 1, 1000, 16e6), cj("d0.t1.g0", 5, 1, 500, 16e6), cj("d0.t1.g1", 3, 1, 500, 16e6), cj("d1.t0", 12, 1, 1000, 16e6)}},
		// a single top-level queue, nothing else; and an idle tree
		{Nodes: n8, Queues: []TQueue{tq("d0", "", 0, ResIn{Deserved: 2, Limit: -1, Weight: 1}), tq("d0.t0", "d0", 0, ResIn{Deserved: 2, Limit: -1, Weight: 1})}},
	}
}

// ---- features / statistics ----------------------------------------------------------------

type treeFeatures struct {
	depth            int
	queues           int
	siblingSets      int
	zeroParents      int // inner queues whose observed fair share is 0 in every resource ...
	zeroParentsAlive int // ... and below which some child has min(deserved, capped request) > 0 in some resource
	zeroInTwo        int // inner queues with observed fair share 0 in exactly two resources and a non-idle sub-tree
	unlimited        bool
	surplusBelowTop  bool
}

func treeFeaturesOf(in *TreeInput, o TreeObs) treeFeatures {
	f := treeFeatures{queues: len(in.Queues)}
	idx := in.index()
	for _, q := range in.Queues {
		d := 1
		for p := q.Parent; p != ""; p = in.Queues[idx[p]].Parent {
			d++
		}
		if d > f.depth {
			f.depth = d
		}
		for j := 0; j < 3; j++ {
			if q.Res[j].Deserved == -1 && q.Parent != "" {
				f.unlimited = true
			}
		}
	}
	if !o.Opened {
		return f
	}
	f.siblingSets = 1
	for _, p := range in.Queues {
		ch := in.children(p.UID)
		if len(ch) == 0 {
			continue
		}
		f.siblingSets++
		pf := o.Fair[p.UID]
		zeros := 0
		for j := 0; j < 3; j++ {
			if pf[j] == 0 {
				zeros++
			}
		}
		alive := false
		for _, c := range ch {
			for j := 0; j < 3; j++ {
				x := in.Queues[c].Res[j]
				if phase1(pf[j], x) > 0 {
					alive = true
				}
				if o.Fair[in.Queues[c].UID][j] > phase1(pf[j], x) {
					f.surplusBelowTop = true
				}
			}
		}
		if zeros == 3 {
			f.zeroParents++
			if alive {
				f.zeroParentsAlive++
			}
		} else if zeros == 2 && alive {
			f.zeroInTwo++
		}
	}
	return f
}

func treeLabel(origin string, in *TreeInput) string {
	b, _ := json.Marshal(in)
	return origin + " " + string(b)
}

// runTrees emits nTrees tree cases (after the fixed tree corpus).
func runTrees(out *u.Out, root *u.Rng, nTrees int) {
	emit := func(in *TreeInput, origin string) {
		in.rollUp()
		o := runTree(in)
		out.Add(treeTerm(in, o), treeLabel(origin, in))
		out.Count("origin:" + origin)
		f := treeFeaturesOf(in, o)
		out.Count(fmt.Sprintf("tree:depth:%d", f.depth))
		out.Count(fmt.Sprintf("tree:queues:%02d", f.queues))
		out.CountN("tree:sibling_sets", f.siblingSets)
		out.CountN("tree:zero_share_parents", f.zeroParents)
		out.CountN("tree:zero_share_parents_with_non_idle_subtree", f.zeroParentsAlive)
		out.CountN("tree:parents_zero_in_two_resources_with_non_idle_subtree", f.zeroInTwo)
		if f.zeroParentsAlive > 0 {
			out.Count("tree:cases_with_zero_share_parent_above_non_idle_subtree")
		}
		if f.unlimited {
			out.Count("tree:cases_with_unlimited_quota_below_top")
		}
		if in.K != 0 {
			out.Count("tree:cases_with_time_based_fairness")
		}
		if !o.Opened {
			out.Count("tree:session_open_failed")
		}
		out.CountN("tree:queues_without_gauge", o.GaugeMissing)
		out.CountN("tree:gauge_vs_getter_mismatch", o.GaugeMismatch)
		if f.surplusBelowTop {
			b, _ := json.Marshal(in)
			out.NonTrivial(string(b))
		}
		if origin != "tree-corpus" {
			out.Sample(map[string]any{"origin": origin, "input": in, "observed": o})
		}
	}
	for _, in := range treeCorpus() {
		for i := range in.Queues { // corpus entries give memory in the plugin's view only
			q := &in.Queues[i]
			if q.MemMB == [2]float64{} && (q.Res[1].Deserved != 0 || q.Res[1].Limit != 0) {
				q.MemMB = [2]float64{q.Res[1].Deserved, q.Res[1].Limit}
			}
		}
		emit(in, "tree-corpus")
	}
	for i := 0; i < nTrees; i++ {
		r := root.Fork(uint64(5_000_000 + i))
		stream := 0
		if r.Chance(1, 4) {
			stream = 1
		}
		kind := scnNone
		if i%3 == 2 {
			kind = 1 + (i/3)%(scnCount-1)
		}
		in, _ := genTree(r, stream, kind)
		origin := "tree-" + []string{"dyadic", "decimal"}[stream]
		if kind != scnNone {
			origin += "-" + scnNames[kind]
		}
		emit(in, origin)
	}
}
