package c05

import (
	"fmt"
	"strings"

	metav1 "k8s.io/apimachinery/pkg/apis/meta/v1"
	"k8s.io/apimachinery/pkg/types"

	enginev2alpha2 "github.com/NVIDIA/KAI-scheduler/pkg/apis/scheduling/v2alpha2"
	"github.com/NVIDIA/KAI-scheduler/pkg/scheduler/actions/common"
	"github.com/NVIDIA/KAI-scheduler/pkg/scheduler/api/common_info"
	"github.com/NVIDIA/KAI-scheduler/pkg/scheduler/api/pod_status"
	"github.com/NVIDIA/KAI-scheduler/pkg/scheduler/api/podgroup_info"
	"github.com/NVIDIA/KAI-scheduler/pkg/scheduler/api/resource_info"

	"kaiverif/internal/core"
	u "kaiverif/internal/util"
)

// SigCase drives the real MinimalJobRepresentatives with a random sequence of
// UpdateRepresentative / IsEasierToSchedule calls on real pod groups whose
// pending pods' requests are totally ordered by LessEqual (levels of a chain).
func SigCase(r *u.Rng) (term, label string) {
	vm := resource_info.NewResourceVectorMap()
	reps := common.NewMinimalJobRepresentatives()
	keys := core.NewIds()
	type jb struct {
		job    *podgroup_info.PodGroupInfo
		levels []int
		sel    string
	}
	var jobs []jb
	nj := r.Range(2, 6)
	for i := 0; i < nj; i++ {
		name := fmt.Sprintf("s%d", i+1)
		job := podgroup_info.NewPodGroupInfoWithVectorMap(common_info.PodGroupID(name), vm)
		job.SetPodGroup(&enginev2alpha2.PodGroup{ObjectMeta: metav1.ObjectMeta{Name: name, Namespace: "ns", UID: types.UID(name)},
			Spec: enginev2alpha2.PodGroupSpec{Queue: "q", MinMember: 1}})
		sel := u.Pick(r, []string{"", "", "zone-a"})
		np := r.Range(0, 3)
		if r.Chance(1, 8) {
			np = 0
		}
		var levels []int
		for k := 0; k < np; k++ {
			lv := r.Range(1, 3)
			levels = append(levels, lv)
			ps := core.PodSpec{Name: fmt.Sprintf("%s-%d", name, k), Job: name, Cpu: int64(500 * lv), Mem: int64(lv) << 30, Gpus: int64(lv - 1), Status: pod_status.Pending}
			t := core.MkPod(ps, vm)
			if sel != "" {
				t.Pod.Spec.NodeSelector = map[string]string{"zone": sel}
			}
			job.AddTaskInfo(t)
		}
		// a running pod now and then (not part of the comparison)
		if r.Chance(1, 4) {
			t := core.MkPod(core.PodSpec{Name: name + "-r", Job: name, Cpu: 4000, Mem: 8 << 30, Status: pod_status.Running, Node: "n1"}, vm)
			job.AddTaskInfo(t)
		}
		jobs = append(jobs, jb{job, levels, sel})
	}
	pend := func(j jb) string {
		out := make([]string, len(j.levels))
		for i, lv := range j.levels {
			portion := int64(0)
			if lv > 1 {
				portion = 1000
			}
			out[i] = fmt.Sprintf("(mkSR %s %s %s %s %s)", u.Z(int64(500*lv)), u.Z(int64(lv)<<30), u.Z(int64(lv-1)), u.Z(portion), u.Z(0))
		}
		return u.List(out)
	}
	var ops, desc []string
	for i, n := 0, r.Range(4, 12); i < n; i++ {
		j := jobs[r.Intn(len(jobs))]
		key := u.Pos(keys.Of(string(j.job.GetSchedulingConstraintsSignature())))
		jid := u.Pos(keys.Of("j:" + j.job.Name))
		if r.Bool() {
			reps.UpdateRepresentative(j.job)
			ops = append(ops, fmt.Sprintf("(SUpdate %s %s %s)", key, jid, pend(j)))
			desc = append(desc, fmt.Sprintf("upd(%s%v%s)", j.job.Name, j.levels, j.sel))
		} else {
			easier, rep := reps.IsEasierToSchedule(j.job)
			rp := "None"
			if rep != nil {
				rp = u.Opt(true, u.Pos(keys.Of("j:"+rep.Name)))
			}
			ops = append(ops, fmt.Sprintf("(SQuery %s %s %s %s %s)", key, jid, pend(j), u.Bool(easier), rp))
			desc = append(desc, fmt.Sprintf("easier(%s%v%s)=%v", j.job.Name, j.levels, j.sel, easier))
		}
	}
	return fmt.Sprintf("(KSig %s)", u.List(ops)), "sig " + strings.Join(desc, " ")
}
