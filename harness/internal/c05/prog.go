package c05

import (
	"fmt"
	"os"
	"sort"
	"strings"

	"github.com/NVIDIA/KAI-scheduler/pkg/scheduler/actions/utils"
	"github.com/NVIDIA/KAI-scheduler/pkg/scheduler/api/common_info"
	"github.com/NVIDIA/KAI-scheduler/pkg/scheduler/api/pod_status"
	"github.com/NVIDIA/KAI-scheduler/pkg/scheduler/framework"

	"kaiverif/internal/core"
	"kaiverif/internal/cycle"
	u "kaiverif/internal/util"
)

// The interchangeable class: identical nodes, 1-GPU single-pod jobs.

func unitPod(name, node string, st pod_status.PodStatus) core.PodSpec {
	return core.PodSpec{Name: name, Cpu: 500, Mem: 1 << 30, Gpus: 1, Status: st, Node: node}
}

// pendingPod needs more CPU than all the unit pods of a node hold together: on a
// node without idle CPU it cannot run whatever is evicted there.
func pendingPod(name string, g int64) core.PodSpec {
	p := unitPod(name, "", pod_status.Pending)
	p.Cpu = 500 * (g + 1)
	return p
}

type progSpec struct {
	kind    int // 1 reclaim, 2 preempt
	cluster cycle.Cluster
	gpus    int64  // per node
	hog     string // node whose CPU is exhausted by a non-preemptible CPU-only pod of qa: the pending pods
	// (500*(g+1) mCPU, the running ones 500 each) cannot run there, its pods are no eligible victims
	depts map[string]string // leaf queue -> department (nil: all under the one department of cycle.Build)
	tree  *qtree            // an arbitrary queue hierarchy (any depth; overrides depts)
	shape string            // multi-queue preempt clusters: which queue roles were generated
	// corpus: the replayed witness of known finding C05-signature-shortcut; the label carries the
	// witness tag only when the run shows that explanation (see sigWitness)
	wit *sigWitness
}

// sigWitness names the pending job that known finding C05-signature-shortcut says is starved
// (skipped) and the job of the SAME queue whose failure is the representative it is compared with.
type sigWitness struct{ rep, skipped, why string }

const nodeCPU = 16000

// addHog exhausts the CPU of one node (only with >= 2 nodes).
func addHog(r *u.Rng, ps *progSpec) {
	c := &ps.cluster
	if len(c.Nodes) < 2 || !r.Chance(1, 3) {
		return
	}
	ps.hog = c.Nodes[r.Intn(len(c.Nodes))].Name
	c.Jobs = append(c.Jobs, cycle.Job{Name: "hog", Queue: "qa", Priority: 200, MinMember: 1, AgeMinutes: 90, StartedMins: 80,
		Pods: []core.PodSpec{{Name: "hog-0", Cpu: nodeCPU - 500*ps.gpus, Mem: 1 << 30, Status: pod_status.Running, Node: ps.hog}}})
}

// genReclaim: qa has pending jobs within its deserved quota; the other queues'
// preemptible pods fill the cluster.
func genReclaim(r *u.Rng, sigs bool) progSpec {
	n := r.Range(1, 3)
	g := int64(u.Pick(r, []int{1, 2, 2, 4}))
	total := int64(n) * g
	var c cycle.Cluster
	for i := 0; i < n; i++ {
		c.Nodes = append(c.Nodes, core.NodeSpec{Name: fmt.Sprintf("n%d", i+1), Cpu: nodeCPU, Mem: 64 << 30, Gpus: g, Pods: 110})
	}
	three := total >= 4 && r.Chance(1, 3)
	da := int64(r.Range(1, int(total)-0))
	if da >= total {
		da = total - 1
	}
	if da < 1 {
		da = 1
	}
	ra := int64(0)
	if da > 1 && r.Chance(1, 3) {
		ra = int64(r.Range(1, int(da)-1))
	}
	rest := total - ra
	rc := int64(0)
	dc := int64(0)
	if three {
		dc = int64(r.Range(1, 2))
		if da+dc > total {
			dc = 0
			three = false
		} else {
			rc = int64(r.Range(0, int(dc)))
			if rc > rest-1 {
				rc = 0
			}
		}
	}
	rb := rest - rc
	db := total - da - dc
	if db > 0 {
		db = int64(r.Range(0, int(db)))
	}
	c.Queues = []cycle.Queue{{Name: "qa", Deserved: float64(da), OverQuota: 1, Priority: 100}, {Name: "qb", Deserved: float64(db), OverQuota: 1, Priority: 100}}
	if three {
		c.Queues = append(c.Queues, cycle.Queue{Name: "qc", Deserved: float64(dc), OverQuota: 1, Priority: 100})
	}
	// running pods: shuffled queue membership over the units
	var owners []string
	for i := int64(0); i < ra; i++ {
		owners = append(owners, "qa")
	}
	for i := int64(0); i < rb; i++ {
		owners = append(owners, "qb")
	}
	for i := int64(0); i < rc; i++ {
		owners = append(owners, "qc")
	}
	u.Shuffle(r, owners)
	for i, q := range owners {
		node := c.Nodes[i/int(g)].Name
		name := fmt.Sprintf("v%d", i+1)
		c.Jobs = append(c.Jobs, cycle.Job{Name: name, Queue: q, Priority: int32(u.Pick(r, []int{25, 50, 50})), MinMember: 1,
			AgeMinutes: 60 + i, StartedMins: r.Range(5, 100), Pods: []core.PodSpec{unitPod(name+"-0", node, pod_status.Running)}})
	}
	np := r.Range(1, int(da-ra)+1)
	if np > 3 {
		np = 3
	}
	prio := u.Pick(r, []int{50, 75, 100, 125})
	for i := 0; i < np; i++ {
		p := prio
		if !sigs {
			p = u.Pick(r, []int{50, 75, 100, 125})
		}
		name := fmt.Sprintf("p%d", i+1)
		c.Jobs = append(c.Jobs, cycle.Job{Name: name, Queue: "qa", Priority: int32(p), MinMember: 1, AgeMinutes: 40 - i,
			Pods: []core.PodSpec{pendingPod(name+"-0", g)}})
	}
	c.Actions = []string{"allocate", "reclaim"}
	if r.Chance(1, 3) {
		c.Actions = []string{"allocate", "consolidation", "reclaim"}
	}
	ps := progSpec{kind: 1, cluster: c, gpus: g}
	addHog(r, &ps)
	return ps
}

// addReclaimTree hangs the leaf queues of a reclaim cluster (qa holds the pending jobs, qb / qc run
// the pods to reclaim) into a queue tree of MIXED depth: one or two top-level queues; every leaf
// either directly under a top-level queue or one or two inner queues deeper (3-4 levels in all);
// shape = same-depth / reclaimer-deeper / victim-deeper (depth of qa against depth of qb), one third
// each; qc (when there is one) on a chain of its own or below one of the inner queues of qa's or
// qb's chain (then an ANCESTOR is what the two compete on). Quotas at every level: in every second
// tree each inner queue deserves exactly the sum of the leaf quotas below it; in the others an inner
// queue deserves that sum (3/5), one unit more (1/10), one unit less (1/10: the chain of the
// reclaimer, or the victims' side, may then be what blocks or permits) or is unlimited (1/5); a
// top-level queue is unlimited (2/3) or deserves the sum.
func addReclaimTree(r *u.Rng, ps *progSpec) {
	c := ps.cluster
	t := &qtree{Parent: map[string]string{}}
	inner := map[string]bool{}
	add := func(name, parent string) {
		if !inner[name] {
			inner[name] = true
			t.Parent[name] = parent
			t.Inner = append(t.Inner, innerQueue{Name: name, OverQuota: 1, Priority: 100})
		}
	}
	want := u.Pick(r, []string{"same-depth", "reclaimer-deeper", "victim-deeper"})
	var ea, eb int
	switch want {
	case "same-depth":
		ea = r.Range(0, 2)
		eb = ea
	case "reclaimer-deeper":
		eb = r.Range(0, 1)
		ea = r.Range(eb+1, 2)
	default:
		ea = r.Range(0, 1)
		eb = r.Range(ea+1, 2)
	}
	rootA, rootB := "org", "org"
	if r.Chance(1, 5) {
		rootB = "org2"
	}
	hang := func(leaf, root, tag string, extra int) {
		add(root, "")
		parent := root
		for i := 1; i <= extra; i++ {
			name := fmt.Sprintf("%s%d", tag, i)
			add(name, parent)
			parent = name
		}
		t.Parent[leaf] = parent
	}
	hang("qa", rootA, "a", ea)
	hang("qb", rootB, "b", eb)
	if hasQueue(c, "qc") {
		var under []string
		for i := 1; i <= ea; i++ {
			under = append(under, fmt.Sprintf("a%d", i))
		}
		for i := 1; i <= eb; i++ {
			under = append(under, fmt.Sprintf("b%d", i))
		}
		if len(under) > 0 && r.Chance(1, 2) {
			t.Parent["qc"] = u.Pick(r, under)
		} else {
			hang("qc", u.Pick(r, []string{rootA, rootB}), "c", r.Range(0, 2))
		}
	}
	// quotas of the inner queues
	below := map[string]float64{}
	for _, q := range c.Queues {
		for _, a := range t.chain(q.Name)[1:] {
			below[a] += q.Deserved
		}
	}
	exact := r.Bool() // every inner queue deserves exactly the sum below it
	for i := range t.Inner {
		q := &t.Inner[i]
		sum := below[q.Name]
		if t.Parent[q.Name] == "" {
			q.Deserved = sum
			if r.Chance(2, 3) {
				q.Deserved = -1
			}
			continue
		}
		if exact {
			q.Deserved = sum
			continue
		}
		switch k := r.Intn(10); {
		case k < 6:
			q.Deserved = sum
		case k < 7:
			q.Deserved = sum + 1
		case k < 8 && sum >= 1:
			q.Deserved = sum - 1
		case k < 8:
			q.Deserved = sum
		default:
			q.Deserved = -1
		}
	}
	ps.tree = t
	da, db := len(t.chain("qa")), len(t.chain("qb"))
	switch {
	case da == db:
		ps.shape = "same-depth"
	case da > db:
		ps.shape = "reclaimer-deeper"
	default:
		ps.shape = "victim-deeper"
	}
}

// readmeTree: the cluster of seeded/C05-2 (one 4-GPU node filled by four preemptible pods of
// over-quota-queue, deserved 2; one pending job in team1, deserved 2, nothing allocated) under the
// top-level queue org, with the two leaves at the given numbers of inner queues below org.
func readmeTree(reclaimerExtra, victimExtra int) progSpec {
	c := cycle.Cluster{
		Nodes: []core.NodeSpec{{Name: "node0", Cpu: nodeCPU, Mem: 64 << 30, Gpus: 4, Pods: 110}},
		Queues: []cycle.Queue{{Name: "team1", Deserved: 2, OverQuota: 1, Priority: 100},
			{Name: "over-quota-queue", Deserved: 2, OverQuota: 1, Priority: 100}},
		Actions: []string{"allocate", "reclaim"},
	}
	for i := 0; i < 4; i++ {
		name := fmt.Sprintf("v%d", i+1)
		c.Jobs = append(c.Jobs, cycle.Job{Name: name, Queue: "over-quota-queue", Priority: 50, MinMember: 1, AgeMinutes: 60 + i, StartedMins: 30,
			Pods: []core.PodSpec{unitPod(name+"-0", "node0", pod_status.Running)}})
	}
	c.Jobs = append(c.Jobs, cycle.Job{Name: "p1", Queue: "team1", Priority: 50, MinMember: 1, AgeMinutes: 40,
		Pods: []core.PodSpec{pendingPod("p1-0", 4)}})
	t := &qtree{Parent: map[string]string{}, Inner: []innerQueue{{Name: "org", Deserved: -1, OverQuota: 1, Priority: 100}}}
	hang := func(leaf, tag string, extra int) {
		parent := "org"
		for i := 1; i <= extra; i++ {
			name := fmt.Sprintf("%s%d", tag, i)
			t.Parent[name] = parent
			t.Inner = append(t.Inner, innerQueue{Name: name, Deserved: 2, OverQuota: 1, Priority: 100})
			parent = name
		}
		t.Parent[leaf] = parent
	}
	hang("team1", "dept", reclaimerExtra)
	hang("over-quota-queue", "vdept", victimExtra)
	shape := "same-depth"
	if reclaimerExtra > victimExtra {
		shape = "reclaimer-deeper"
	} else if reclaimerExtra < victimExtra {
		shape = "victim-deeper"
	}
	return progSpec{kind: 1, cluster: c, gpus: 4, tree: t, shape: shape}
}

// genPreempt: one queue; running pods of low priorities fill the cluster;
// pending jobs of higher priorities.
func genPreempt(r *u.Rng, sigs bool) progSpec {
	n := r.Range(1, 3)
	g := int64(u.Pick(r, []int{1, 2, 2, 4}))
	total := int(int64(n) * g)
	var c cycle.Cluster
	for i := 0; i < n; i++ {
		c.Nodes = append(c.Nodes, core.NodeSpec{Name: fmt.Sprintf("n%d", i+1), Cpu: nodeCPU, Mem: 64 << 30, Gpus: g, Pods: 110})
	}
	c.Queues = []cycle.Queue{{Name: "qa", Deserved: float64(r.Range(0, total)), OverQuota: 1, Priority: 100}}
	for i := 0; i < total; i++ {
		node := c.Nodes[i/int(g)].Name
		name := fmt.Sprintf("v%d", i+1)
		c.Jobs = append(c.Jobs, cycle.Job{Name: name, Queue: "qa", Priority: int32(u.Pick(r, []int{25, 50, 50, 60, 80, 100})), MinMember: 1,
			AgeMinutes: 60 + i, StartedMins: r.Range(5, 100), Pods: []core.PodSpec{unitPod(name+"-0", node, pod_status.Running)}})
	}
	np := r.Range(1, 3)
	prio := u.Pick(r, []int{55, 75, 90, 100, 125})
	for i := 0; i < np; i++ {
		p := prio
		if !sigs {
			p = u.Pick(r, []int{55, 75, 90, 100, 125})
		}
		name := fmt.Sprintf("p%d", i+1)
		c.Jobs = append(c.Jobs, cycle.Job{Name: name, Queue: "qa", Priority: int32(p), MinMember: 1, AgeMinutes: 40 - i,
			Pods: []core.PodSpec{pendingPod(name+"-0", g)}})
	}
	c.Actions = []string{"allocate", "preempt"}
	if r.Chance(1, 3) {
		c.Actions = []string{"allocate", "consolidation", "preempt"}
	}
	ps := progSpec{kind: 2, cluster: c, gpus: g}
	addHog(r, &ps)
	return ps
}

// genPreemptMulti: two or three leaf queues (one department / one each / mixed), every pending pod
// of the same shape (one scheduling signature for the whole cluster), the cluster saturated by
// running unit pods. Per queue a role: "victim" (runs a preemptible pod of strictly lower priority
// than its pending jobs), "blocked" (no such pod, or non-preemptible pending jobs over a zero
// quota), "idle" (no pending job) or "mixed". Queue priorities, creation order (= list order),
// deserved quotas and usage vary, so either kind of queue may be served first. With signatures on
// the pending jobs of ONE queue share one priority (inside one queue the shortcut is then sound:
// C05_signature_shortcut_sound_partial); different queues differ.
func genPreemptMulti(r *u.Rng, sigs bool) progSpec {
	n := r.Range(1, 3)
	g := int64(u.Pick(r, []int{1, 2, 2, 4}))
	if int64(n)*g < 2 {
		n = 2
	}
	total := n * int(g)
	var c cycle.Cluster
	for i := 0; i < n; i++ {
		c.Nodes = append(c.Nodes, core.NodeSpec{Name: fmt.Sprintf("n%d", i+1), Cpu: nodeCPU, Mem: 64 << 30, Gpus: g, Pods: 110})
	}
	nq := 2
	if total >= 3 && r.Chance(2, 5) {
		nq = 3
	}
	names := []string{"qa", "qb", "qc"}[:nq]
	roles := make([]string, nq)
	for i := range roles {
		roles[i] = u.Pick(r, []string{"victim", "blocked", "blocked", "mixed", "idle"})
	}
	if r.Chance(3, 4) { // the shape the per-queue representatives matter for
		roles[0], roles[1] = "blocked", "victim"
	}
	depts := map[string]string{}
	mode := u.Pick(r, []string{"same", "same", "each", "split"})
	for i, q := range names {
		switch mode {
		case "same":
			depts[q] = "d1"
		case "each":
			depts[q] = fmt.Sprintf("d%d", i+1)
		default:
			depts[q] = u.Pick(r, []string{"d1", "d2"})
		}
	}
	// running units: every queue with pending jobs runs at least one pod when there is room
	owners := make([]int, total)
	for i := range owners {
		if i < nq {
			owners[i] = i
		} else {
			owners[i] = r.Intn(nq)
		}
	}
	u.Shuffle(r, owners)
	pendPrio := make([]int, nq)
	for i := range pendPrio {
		pendPrio[i] = u.Pick(r, []int{55, 75, 75, 90, 100, 125})
	}
	if r.Chance(1, 2) {
		for i := range pendPrio {
			pendPrio[i] = pendPrio[0] // the same priority everywhere: identical workloads in every queue
		}
	}
	type qd struct {
		q    cycle.Queue
		role string
		jobs []cycle.Job
	}
	qds := make([]qd, nq)
	npBlocked := make([]bool, nq)
	for i, q := range names {
		npBlocked[i] = roles[i] == "blocked" && pendPrio[i] >= 100 && r.Bool()
		des := r.Range(0, total)
		if npBlocked[i] {
			des = 0 // non-preemptible pending jobs over a zero quota: refused by the quota gate
		} else if pendPrio[i] >= 100 && roles[i] == "victim" {
			des = total
		}
		qds[i] = qd{q: cycle.Queue{Name: q, Deserved: float64(des), OverQuota: 1, Priority: u.Pick(r, []int{100, 100, 100, 50, 200})}, role: roles[i]}
	}
	for i, o := range owners {
		node := c.Nodes[i/int(g)].Name
		name := fmt.Sprintf("v%d", i+1)
		pp := pendPrio[o]
		var prio int
		switch {
		case roles[o] == "victim":
			prio = u.Pick(r, []int{25, 50, 50, pp, 100})
		case roles[o] == "blocked" && !npBlocked[o]:
			prio = u.Pick(r, []int{pp, pp, pp + 5, 100, 150})
		default:
			prio = u.Pick(r, []int{25, 50, 50, 60, 80, 100})
		}
		qds[o].jobs = append(qds[o].jobs, cycle.Job{Name: name, Queue: names[o], Priority: int32(prio), MinMember: 1,
			AgeMinutes: 60 + i, StartedMins: r.Range(5, 100), Pods: []core.PodSpec{unitPod(name+"-0", node, pod_status.Running)}})
	}
	for i := range qds {
		if qds[i].role != "victim" {
			continue
		}
		// at least one running pod of strictly lower priority, preemptible
		ok := false
		for _, j := range qds[i].jobs {
			ok = ok || (int(j.Priority) < pendPrio[i] && j.Priority < 100)
		}
		if !ok && len(qds[i].jobs) > 0 {
			qds[i].jobs[r.Intn(len(qds[i].jobs))].Priority = int32(u.Pick(r, []int{25, 50}))
		}
	}
	np := 0
	ages := []int{40, 38, 36, 34, 32, 30, 28, 26}
	u.Shuffle(r, ages)
	for i := range qds {
		k := 0
		switch qds[i].role {
		case "idle":
		case "mixed":
			k = r.Range(0, 2)
		default:
			k = u.Pick(r, []int{1, 1, 2})
		}
		for x := 0; x < k && np < len(ages); x++ {
			p := pendPrio[i]
			if !sigs && r.Chance(1, 3) {
				p = u.Pick(r, []int{55, 75, 90, 100, 125})
			}
			name := fmt.Sprintf("p%d", np+1)
			qds[i].jobs = append(qds[i].jobs, cycle.Job{Name: name, Queue: names[i], Priority: int32(p), MinMember: 1, AgeMinutes: ages[np],
				Pods: []core.PodSpec{pendingPod(name+"-0", g)}})
			np++
		}
	}
	// creation order of the queues = list order
	order := make([]int, nq)
	for i := range order {
		order[i] = i
	}
	u.Shuffle(r, order)
	var shape []string
	for _, i := range order {
		c.Queues = append(c.Queues, qds[i].q)
		shape = append(shape, names[i]+"="+roles[i])
	}
	for i := range qds {
		c.Jobs = append(c.Jobs, qds[i].jobs...)
	}
	sort.SliceStable(c.Jobs, func(a, b int) bool { return jobNum(c.Jobs[a].Name) < jobNum(c.Jobs[b].Name) })
	c.Actions = []string{"allocate", "preempt"}
	if r.Chance(1, 4) {
		c.Actions = []string{"allocate", "consolidation", "preempt"}
	}
	ps := progSpec{kind: 2, cluster: c, gpus: g, depts: depts, shape: strings.Join(shape, ",")}
	if hasQueue(c, "qa") {
		addHog(r, &ps)
	}
	return ps
}

func hasQueue(c cycle.Cluster, q string) bool {
	for _, x := range c.Queues {
		if x.Name == q {
			return true
		}
	}
	return false
}

// jobNum orders v1.. before p1.. (running jobs first, as the other generators emit them)
func jobNum(name string) int {
	k := 0
	fmt.Sscanf(name[1:], "%d", &k)
	if name[0] == 'p' {
		k += 1000
	}
	return k
}

// popOrder: the order in which the preempt / reclaim loop pops the pending jobs, read off the real
// JobsOrderByQueues of the session (same options as the actions) in the state just before the action.
func popOrder(ssn *framework.Session, action framework.ActionType) []string {
	jo := utils.NewJobsOrderByQueues(ssn, utils.JobsOrderInitOptions{FilterNonPending: true, FilterUnready: true,
		MaxJobsQueueDepth: ssn.GetJobsDepth(action)})
	jo.InitializeWithJobs(ssn.ClusterInfo.PodGroupInfos)
	var names []string
	for !jo.IsEmpty() {
		names = append(names, jo.PopNextJob().Name)
	}
	return names
}

// ProgCase runs the cycle and returns the KProg term. hide: pending jobs left
// out of the class encoding (gangs of the minMember witness).
func ProgCase(ps progSpec, cfg Config, tag string, hide map[string]bool) (term, label string, st map[string]int) {
	term, label, st, _ = progCase(ps, cfg, tag, hide, nil)
	return term, label, st
}

// progCase: as ProgCase; with an Evict-failure oracle (ev != nil; reclaim clusters) the session's cache
// refuses the Evict calls the oracle selects, the pending jobs are listed in the REAL pop order of the
// reclaim action (read off CanReclaimResources, the first thing the loop asks about a popped job) and the
// result is a KRFault term (rfault.go).
func progCase(ps progSpec, cfg Config, tag string, hide map[string]bool, ev *evictSpec) (term, label string, st map[string]int, rr *rfRun) {
	st = map[string]int{}
	c := ps.cluster
	tree := ps.tree
	if tree == nil && ps.depts != nil {
		tree = deptTree(c, ps.depts)
	}
	b, tr := SetupTree(c, cfg, tree)
	if tree == nil {
		tree = deptTree(c, nil) // what cycle.Build opens
	}
	realPops := &[]string{}
	popsActive := new(bool)
	if ev != nil {
		installEvictFaults(b, *ev)
		if ps.kind == 1 {
			realPops = recordReclaimPops(b)
		} else {
			realPops = recordPreemptAttempts(b, popsActive)
		}
	}
	ids := core.NewIds()
	for _, n := range c.Nodes {
		ids.Of("n:" + n.Name)
	}
	for _, j := range c.Jobs {
		ids.Of("j:" + j.Name)
	}
	for _, q := range c.Queues {
		ids.Of("q:" + q.Name)
	}
	for _, q := range tree.Inner {
		ids.Of("q:" + q.Name)
	}
	jobOfPod := map[string]string{}
	jobs := map[string]cycle.Job{}
	for _, j := range c.Jobs {
		jobs[j.Name] = j
		for _, p := range j.Pods {
			jobOfPod[p.Name] = j.Name
		}
	}
	preemptible := func(j cycle.Job) bool { return j.Priority < 100 }
	// snapshot numbers
	used := map[string]int64{}
	alloc := map[string]int64{}
	allocNP := map[string]int64{}
	for _, j := range c.Jobs {
		for _, p := range j.Pods {
			if p.Status == pod_status.Running && p.Gpus > 0 {
				used[p.Node]++
				// the queue and every ancestor (as the proportion plugin keeps its books)
				for _, q := range tree.chain(j.Queue) {
					alloc[q]++
					if !preemptible(j) {
						allocNP[q]++
					}
				}
			}
		}
	}
	// fair share as the proportion plugin computed it at session open (1/100 units)
	fair := map[string]int64{}
	type qrow struct {
		name     string
		deserved float64
	}
	var qrows []qrow // every queue of the hierarchy: the leaf queues, then the inner ones
	for _, q := range c.Queues {
		qrows = append(qrows, qrow{q.Name, q.Deserved})
	}
	for _, q := range tree.Inner {
		qrows = append(qrows, qrow{q.Name, q.Deserved})
	}
	for _, q := range qrows {
		if qi, ok := b.Ssn.ClusterInfo.Queues[common_info.QueueID(q.name)]; ok {
			if fs := b.Ssn.QueueFairShare(qi); fs != nil {
				fair[q.name] = int64(fs.GetGpusQuota()*100 + 0.5)
			}
		} else {
			st["queue-missing-in-session"]++
		}
	}
	// the actions one by one; the pop order of the pending jobs is read off the session right
	// before the last action (the one under test). In the class it cannot change while that action
	// runs when the action is preempt (victim and preemptor share the queue: shares are unchanged).
	var popped []string
	for ai, a := range c.Actions {
		if ai == len(c.Actions)-1 && ps.kind == 2 {
			popped = popOrder(b.Ssn, framework.Preempt)
		}
		*popsActive = ai == len(c.Actions)-1
		if ai == len(c.Actions)-1 && ps.kind == 1 && ev != nil {
			popped = popOrder(b.Ssn, framework.Reclaim) // only for the jobs the action never popped
		}
		if pmsg := cycle.RunActions(b, []string{a}); pmsg != "" {
			st["PANIC"]++
			fmt.Fprintf(os.Stderr, "PANIC in actions: %s\n  cluster: %s\n", pmsg, cycle.Describe(c))
			break
		}
	}
	tr.Finish(b)
	calls := b.Rec.Calls()
	var evs, pipes, evobs []string
	var evOrder []string
	for _, cl := range calls {
		switch cl.Kind {
		case "evictfail":
			evOrder = append(evOrder, jobOfPod[cl.Pod])
			evobs = append(evobs, fmt.Sprintf("(mkEO %s %s false)", u.Pos(ids.Of("j:"+jobOfPod[cl.Pod])), u.Pos(ids.Of("j:"+cl.Preemptor))))
		case "evict":
			evobs = append(evobs, fmt.Sprintf("(mkEO %s %s true)", u.Pos(ids.Of("j:"+jobOfPod[cl.Pod])), u.Pos(ids.Of("j:"+cl.Preemptor))))
			evs = append(evs, u.Pair(u.Pos(ids.Of("j:"+jobOfPod[cl.Pod])), u.Pos(ids.Of("j:"+cl.Preemptor))))
			evOrder = append(evOrder, jobOfPod[cl.Pod])
		case "pipe":
			pipes = append(pipes, u.Pair(u.Pos(ids.Of("j:"+jobOfPod[cl.Pod])), u.Pos(ids.Of("n:"+cl.Node))))
		}
		st["call:"+cl.Kind]++
	}
	var units, queues, running, pending []string
	var total int64
	for _, n := range c.Nodes {
		units = append(units, fmt.Sprintf("(mkSN %s %s %s)", u.Pos(ids.Of("n:"+n.Name)), u.Z(n.Gpus-used[n.Name]), u.Z(0)))
		total += n.Gpus
	}
	for _, q := range qrows {
		par := tree.Parent[q.name]
		des := int64(q.deserved)
		if q.deserved < 0 {
			des = -1 // unlimited
		}
		parent := "None"
		if par != "" {
			parent = "(Some " + u.Pos(ids.Of("q:"+par)) + ")"
		}
		queues = append(queues, fmt.Sprintf("(mkPQ %s %s %s %s %s %s)", u.Pos(ids.Of("q:"+q.name)), parent,
			u.Z(des), u.Z(alloc[q.name]), u.Z(allocNP[q.name]), u.Z(fair[q.name])))
	}
	rj := func(name string) string {
		j := jobs[name]
		return fmt.Sprintf("(mkRJ %s %s %s %s %s)", u.Pos(ids.Of("j:"+name)), u.Pos(ids.Of("q:"+j.Queue)), u.Z(int64(j.Priority)),
			u.Bool(preemptible(j) && j.Pods[0].Node != ps.hog), u.Pos(ids.Of("n:"+j.Pods[0].Node)))
	}
	done := map[string]bool{}
	for _, v := range evOrder {
		if !done[v] && jobs[v].Pods[0].Status == pod_status.Running {
			running = append(running, rj(v))
			done[v] = true
		}
	}
	var pend []cycle.Job
	for _, j := range c.Jobs {
		if j.Pods[0].Gpus == 0 {
			continue // the CPU hog is not a unit job
		}
		if j.Pods[0].Status == pod_status.Running {
			if !done[j.Name] {
				running = append(running, rj(j.Name))
			}
		} else if !hide[j.Name] {
			pend = append(pend, j)
		}
	}
	// pop order within the queue: priority, then age
	sort.SliceStable(pend, func(a, b int) bool {
		if pend[a].Priority != pend[b].Priority {
			return pend[a].Priority > pend[b].Priority
		}
		return pend[a].AgeMinutes > pend[b].AgeMinutes
	})
	// preempt: the real pop order across the queues (a job the real order does not list goes last)
	if ps.kind == 2 {
		pos := map[string]int{}
		for i, n := range popped {
			pos[n] = i + 1
		}
		for _, j := range pend {
			if pos[j.Name] == 0 {
				st["pending-not-in-pop-order"]++
				pos[j.Name] = len(popped) + 1
			}
		}
		sort.SliceStable(pend, func(a, b int) bool { return pos[pend[a].Name] < pos[pend[b].Name] })
	}
	// reclaim under Evict faults: the real pop order (read off the action itself as it ran); the jobs the
	// action never popped follow in the order of JobsOrderByQueues before the action
	// (preempt: the jobs the action attempted, in order, read off IsNonPreemptibleJobOverQueueQuotaFn; a job
	// skipped by the signature shortcut or never popped follows in the precomputed order)
	if ev != nil {
		pos := map[string]int{}
		for _, n := range *realPops {
			if pos[n] == 0 {
				pos[n] = len(pos) + 1
			}
		}
		k := len(pos)
		for _, n := range popped {
			if pos[n] == 0 {
				k++
				pos[n] = k
				st[map[int]string{1: "rfault", 2: "pfault"}[ps.kind]+":pending-never-popped-or-skipped"]++
			}
		}
		for _, j := range pend {
			if pos[j.Name] == 0 {
				st["pending-not-in-pop-order"]++
				k++
				pos[j.Name] = k
			}
		}
		sort.SliceStable(pend, func(a, b int) bool { return pos[pend[a].Name] < pos[pend[b].Name] })
	}
	for _, j := range pend {
		pending = append(pending, fmt.Sprintf("(mkPJ %s %s %s %s %s)", u.Pos(ids.Of("j:"+j.Name)), u.Pos(ids.Of("q:"+j.Queue)),
			u.Z(int64(j.Priority)), u.Bool(preemptible(j)), u.Pos(7)))
	}
	term = fmt.Sprintf("(KProg (mkPC %s %s %s %s %s %s %s %s %s))", u.Nat(ps.kind), u.Bool(cfg.Sigs), u.Z(total), u.List(units),
		u.List(queues), u.List(running), u.List(pending), u.List(evs), u.List(pipes))
	if ev != nil {
		rr = rfaultTerms(b, c, ids, calls, jobOfPod, st, map[int]string{1: "rfault", 2: "pfault"}[ps.kind])
		term = fmt.Sprintf("(KRFault (mkRFC %s %s %s))", term[len("(KProg "):len(term)-1], u.List(evobs), rr.statusTerm)
		tag += "evict-oracle=" + ev.String() + " "
	}
	kind := "reclaim"
	if ps.kind == 2 {
		kind = "preempt"
	}
	hog := ""
	if ps.hog != "" {
		hog = " cpu-hog=" + ps.hog
		st["prog-with-hog"]++
	}
	// who was served (Evict with it as preemptor and TaskPipelined of its pod)
	evFor, piped := map[string]bool{}, map[string]bool{}
	for _, cl := range calls {
		switch cl.Kind {
		case "evict":
			evFor[cl.Preemptor] = true
		case "pipe":
			piped[jobOfPod[cl.Pod]] = true
		}
	}
	servedJob := func(n string) bool { return evFor[n] && piped[n] }
	if w := ps.wit; w != nil {
		// known finding C05-signature-shortcut explains a starved job only by a failed job of ITS OWN
		// queue popped before it in the same action; the tag is written only when the run shows that
		pos := map[string]int{}
		for i, n := range popped {
			pos[n] = i + 1
		}
		rq, sq := jobs[w.rep].Queue, jobs[w.skipped].Queue
		if cfg.Sigs && rq == sq && pos[w.rep] > 0 && pos[w.rep] < pos[w.skipped] && !servedJob(w.rep) && !servedJob(w.skipped) {
			tag += fmt.Sprintf("witness=sig-shortcut(own-queue representative %s@%s failed before %s@%s: %s) ", w.rep, rq, w.skipped, sq, w.why)
		} else {
			tag += fmt.Sprintf("corpus=sig-shortcut-not-shown(%s) ", w.why)
		}
	}
	multi := ""
	if ps.tree != nil {
		multi = fmt.Sprintf(" tree=%s[%s]", ps.shape, ps.tree.describe(c))
		st["reclaim-tree:"+ps.shape]++
	} else if ps.depts != nil || len(c.Queues) > 1 && ps.kind == 2 {
		var qs []string
		for _, q := range c.Queues {
			d := ps.depts[q.Name]
			if d == "" {
				d = "dept"
			}
			qs = append(qs, fmt.Sprintf("%s(dept=%s,prio=%d)", q.Name, d, q.Priority))
		}
		multi = fmt.Sprintf(" queues-in-creation-order[%s]", strings.Join(qs, " "))
		if ps.shape != "" {
			multi += " roles[" + ps.shape + "]"
		}
		// the queues in the order of their first pop, and the first job served of a queue whose
		// earlier-popped queues all failed: what the per-queue representatives are about
		var qorder []string
		seenQ := map[string]bool{}
		for _, n := range popped {
			if q := jobs[n].Queue; !seenQ[q] {
				seenQ[q] = true
				qorder = append(qorder, q)
			}
		}
		st[fmt.Sprintf("multi-queue:%d", len(c.Queues))]++
		if len(qorder) >= 2 {
			st["multi-queue:pending-in>=2-queues"]++
			// a job served although a job of ANOTHER queue (same pod shape) failed before it
			failedQ := map[string]bool{}
		scan:
			for _, n := range popped {
				if !servedJob(n) {
					failedQ[jobs[n].Queue] = true
					continue
				}
				for q := range failedQ {
					if q != jobs[n].Queue {
						st[fmt.Sprintf("multi-queue:served-after-failure-in-another-queue,sigs=%v", cfg.Sigs)]++
						break scan
					}
				}
			}
		}
	}
	pop := ""
	if ps.kind == 2 {
		pop = fmt.Sprintf(" pop-order%v", popped)
	}
	label = fmt.Sprintf("prog %s %s%s%s%s%s %s => %s", kind, tag, cfg, hog, multi, pop, cycle.Describe(c), describeCalls(calls))
	if len(evs) > 0 {
		st["cycles-with-eviction"]++
	}
	return term, label, st, rr
}
