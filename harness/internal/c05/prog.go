package c05

import (
	"fmt"
	"os"
	"sort"

	"github.com/NVIDIA/KAI-scheduler/pkg/scheduler/api/common_info"
	"github.com/NVIDIA/KAI-scheduler/pkg/scheduler/api/pod_status"

	"kaiverif/internal/core"
	"kaiverif/internal/cycle"
	u "kaiverif/internal/util"
)

// The interchangeable class: identical nodes, 1-GPU single-pod jobs.

func unitPod(name, node string, st pod_status.PodStatus) core.PodSpec {
	return core.PodSpec{Name: name, Cpu: 500, Mem: 1 << 30, Gpus: 1, Status: st, Node: node}
}

// pendingPod needs more CPU than all the unit pods of a node hold together: on a
// node without idle CPU it cannot run whatever is evicted there.
func pendingPod(name string, g int64) core.PodSpec {
	p := unitPod(name, "", pod_status.Pending)
	p.Cpu = 500 * (g + 1)
	return p
}

type progSpec struct {
	kind    int // 1 reclaim, 2 preempt
	cluster cycle.Cluster
	gpus    int64  // per node
	hog     string // node whose CPU is exhausted by a non-preemptible CPU-only pod of qa: the pending pods
	// (500*(g+1) mCPU, the running ones 500 each) cannot run there, its pods are no eligible victims
}

const nodeCPU = 16000

// addHog exhausts the CPU of one node (only with >= 2 nodes).
func addHog(r *u.Rng, ps *progSpec) {
	c := &ps.cluster
	if len(c.Nodes) < 2 || !r.Chance(1, 3) {
		return
	}
	ps.hog = c.Nodes[r.Intn(len(c.Nodes))].Name
	c.Jobs = append(c.Jobs, cycle.Job{Name: "hog", Queue: "qa", Priority: 200, MinMember: 1, AgeMinutes: 90, StartedMins: 80,
		Pods: []core.PodSpec{{Name: "hog-0", Cpu: nodeCPU - 500*ps.gpus, Mem: 1 << 30, Status: pod_status.Running, Node: ps.hog}}})
}

// genReclaim: qa has pending jobs within its deserved quota; the other queues'
// preemptible pods fill the cluster.
func genReclaim(r *u.Rng, sigs bool) progSpec {
	n := r.Range(1, 3)
	g := int64(u.Pick(r, []int{1, 2, 2, 4}))
	total := int64(n) * g
	var c cycle.Cluster
	for i := 0; i < n; i++ {
		c.Nodes = append(c.Nodes, core.NodeSpec{Name: fmt.Sprintf("n%d", i+1), Cpu: nodeCPU, Mem: 64 << 30, Gpus: g, Pods: 110})
	}
	three := total >= 4 && r.Chance(1, 3)
	da := int64(r.Range(1, int(total)-0))
	if da >= total {
		da = total - 1
	}
	if da < 1 {
		da = 1
	}
	ra := int64(0)
	if da > 1 && r.Chance(1, 3) {
		ra = int64(r.Range(1, int(da)-1))
	}
	rest := total - ra
	rc := int64(0)
	dc := int64(0)
	if three {
		dc = int64(r.Range(1, 2))
		if da+dc > total {
			dc = 0
			three = false
		} else {
			rc = int64(r.Range(0, int(dc)))
			if rc > rest-1 {
				rc = 0
			}
		}
	}
	rb := rest - rc
	db := total - da - dc
	if db > 0 {
		db = int64(r.Range(0, int(db)))
	}
	c.Queues = []cycle.Queue{{Name: "qa", Deserved: float64(da), OverQuota: 1, Priority: 100}, {Name: "qb", Deserved: float64(db), OverQuota: 1, Priority: 100}}
	if three {
		c.Queues = append(c.Queues, cycle.Queue{Name: "qc", Deserved: float64(dc), OverQuota: 1, Priority: 100})
	}
	// running pods: shuffled queue membership over the units
	var owners []string
	for i := int64(0); i < ra; i++ {
		owners = append(owners, "qa")
	}
	for i := int64(0); i < rb; i++ {
		owners = append(owners, "qb")
	}
	for i := int64(0); i < rc; i++ {
		owners = append(owners, "qc")
	}
	u.Shuffle(r, owners)
	for i, q := range owners {
		node := c.Nodes[i/int(g)].Name
		name := fmt.Sprintf("v%d", i+1)
		c.Jobs = append(c.Jobs, cycle.Job{Name: name, Queue: q, Priority: int32(u.Pick(r, []int{25, 50, 50})), MinMember: 1,
			AgeMinutes: 60 + i, StartedMins: r.Range(5, 100), Pods: []core.PodSpec{unitPod(name+"-0", node, pod_status.Running)}})
	}
	np := r.Range(1, int(da-ra)+1)
	if np > 3 {
		np = 3
	}
	prio := u.Pick(r, []int{50, 75, 100, 125})
	for i := 0; i < np; i++ {
		p := prio
		if !sigs {
			p = u.Pick(r, []int{50, 75, 100, 125})
		}
		name := fmt.Sprintf("p%d", i+1)
		c.Jobs = append(c.Jobs, cycle.Job{Name: name, Queue: "qa", Priority: int32(p), MinMember: 1, AgeMinutes: 40 - i,
			Pods: []core.PodSpec{pendingPod(name+"-0", g)}})
	}
	c.Actions = []string{"allocate", "reclaim"}
	if r.Chance(1, 3) {
		c.Actions = []string{"allocate", "consolidation", "reclaim"}
	}
	ps := progSpec{kind: 1, cluster: c, gpus: g}
	addHog(r, &ps)
	return ps
}

// genPreempt: one queue; running pods of low priorities fill the cluster;
// pending jobs of higher priorities.
func genPreempt(r *u.Rng, sigs bool) progSpec {
	n := r.Range(1, 3)
	g := int64(u.Pick(r, []int{1, 2, 2, 4}))
	total := int(int64(n) * g)
	var c cycle.Cluster
	for i := 0; i < n; i++ {
		c.Nodes = append(c.Nodes, core.NodeSpec{Name: fmt.Sprintf("n%d", i+1), Cpu: nodeCPU, Mem: 64 << 30, Gpus: g, Pods: 110})
	}
	c.Queues = []cycle.Queue{{Name: "qa", Deserved: float64(r.Range(0, total)), OverQuota: 1, Priority: 100}}
	for i := 0; i < total; i++ {
		node := c.Nodes[i/int(g)].Name
		name := fmt.Sprintf("v%d", i+1)
		c.Jobs = append(c.Jobs, cycle.Job{Name: name, Queue: "qa", Priority: int32(u.Pick(r, []int{25, 50, 50, 60, 80, 100})), MinMember: 1,
			AgeMinutes: 60 + i, StartedMins: r.Range(5, 100), Pods: []core.PodSpec{unitPod(name+"-0", node, pod_status.Running)}})
	}
	np := r.Range(1, 3)
	prio := u.Pick(r, []int{55, 75, 90, 100, 125})
	for i := 0; i < np; i++ {
		p := prio
		if !sigs {
			p = u.Pick(r, []int{55, 75, 90, 100, 125})
		}
		name := fmt.Sprintf("p%d", i+1)
		c.Jobs = append(c.Jobs, cycle.Job{Name: name, Queue: "qa", Priority: int32(p), MinMember: 1, AgeMinutes: 40 - i,
			Pods: []core.PodSpec{pendingPod(name+"-0", g)}})
	}
	c.Actions = []string{"allocate", "preempt"}
	if r.Chance(1, 3) {
		c.Actions = []string{"allocate", "consolidation", "preempt"}
	}
	ps := progSpec{kind: 2, cluster: c, gpus: g}
	addHog(r, &ps)
	return ps
}

// ProgCase runs the cycle and returns the KProg term. hide: pending jobs left
// out of the class encoding (gangs of the minMember witness).
func ProgCase(ps progSpec, cfg Config, tag string, hide map[string]bool) (term, label string, st map[string]int) {
	st = map[string]int{}
	c := ps.cluster
	b, tr := Setup(c, cfg)
	ids := core.NewIds()
	for _, n := range c.Nodes {
		ids.Of("n:" + n.Name)
	}
	for _, j := range c.Jobs {
		ids.Of("j:" + j.Name)
	}
	for _, q := range c.Queues {
		ids.Of("q:" + q.Name)
	}
	jobOfPod := map[string]string{}
	jobs := map[string]cycle.Job{}
	for _, j := range c.Jobs {
		jobs[j.Name] = j
		for _, p := range j.Pods {
			jobOfPod[p.Name] = j.Name
		}
	}
	preemptible := func(j cycle.Job) bool { return j.Priority < 100 }
	// snapshot numbers
	used := map[string]int64{}
	alloc := map[string]int64{}
	allocNP := map[string]int64{}
	for _, j := range c.Jobs {
		for _, p := range j.Pods {
			if p.Status == pod_status.Running && p.Gpus > 0 {
				used[p.Node]++
				alloc[j.Queue]++
				if !preemptible(j) {
					allocNP[j.Queue]++
				}
			}
		}
	}
	// fair share as the proportion plugin computed it at session open (1/100 units)
	fair := map[string]int64{}
	for _, q := range c.Queues {
		if qi, ok := b.Ssn.ClusterInfo.Queues[common_info.QueueID(q.Name)]; ok {
			if fs := b.Ssn.QueueFairShare(qi); fs != nil {
				fair[q.Name] = int64(fs.GetGpusQuota()*100 + 0.5)
			}
		}
	}
	if pmsg := cycle.RunActions(b, c.Actions); pmsg != "" {
		st["PANIC"]++
		fmt.Fprintf(os.Stderr, "PANIC in actions: %s\n  cluster: %s\n", pmsg, cycle.Describe(c))
	}
	tr.Finish(b)
	calls := b.Rec.Calls()
	var evs, pipes []string
	var evOrder []string
	for _, cl := range calls {
		switch cl.Kind {
		case "evict":
			evs = append(evs, u.Pair(u.Pos(ids.Of("j:"+jobOfPod[cl.Pod])), u.Pos(ids.Of("j:"+cl.Preemptor))))
			evOrder = append(evOrder, jobOfPod[cl.Pod])
		case "pipe":
			pipes = append(pipes, u.Pair(u.Pos(ids.Of("j:"+jobOfPod[cl.Pod])), u.Pos(ids.Of("n:"+cl.Node))))
		}
		st["call:"+cl.Kind]++
	}
	var units, queues, running, pending []string
	var total int64
	for _, n := range c.Nodes {
		units = append(units, fmt.Sprintf("(mkSN %s %s %s)", u.Pos(ids.Of("n:"+n.Name)), u.Z(n.Gpus-used[n.Name]), u.Z(0)))
		total += n.Gpus
	}
	for _, q := range c.Queues {
		queues = append(queues, fmt.Sprintf("(mkPQ %s %s %s %s %s)", u.Pos(ids.Of("q:"+q.Name)), u.Z(int64(q.Deserved)), u.Z(alloc[q.Name]), u.Z(allocNP[q.Name]), u.Z(fair[q.Name])))
	}
	rj := func(name string) string {
		j := jobs[name]
		return fmt.Sprintf("(mkRJ %s %s %s %s %s)", u.Pos(ids.Of("j:"+name)), u.Pos(ids.Of("q:"+j.Queue)), u.Z(int64(j.Priority)),
			u.Bool(preemptible(j) && j.Pods[0].Node != ps.hog), u.Pos(ids.Of("n:"+j.Pods[0].Node)))
	}
	done := map[string]bool{}
	for _, v := range evOrder {
		if !done[v] && jobs[v].Pods[0].Status == pod_status.Running {
			running = append(running, rj(v))
			done[v] = true
		}
	}
	var pend []cycle.Job
	for _, j := range c.Jobs {
		if j.Pods[0].Gpus == 0 {
			continue // the CPU hog is not a unit job
		}
		if j.Pods[0].Status == pod_status.Running {
			if !done[j.Name] {
				running = append(running, rj(j.Name))
			}
		} else if !hide[j.Name] {
			pend = append(pend, j)
		}
	}
	// pop order within the queue: priority, then age
	sort.SliceStable(pend, func(a, b int) bool {
		if pend[a].Priority != pend[b].Priority {
			return pend[a].Priority > pend[b].Priority
		}
		return pend[a].AgeMinutes > pend[b].AgeMinutes
	})
	for _, j := range pend {
		pending = append(pending, fmt.Sprintf("(mkPJ %s %s %s %s %s)", u.Pos(ids.Of("j:"+j.Name)), u.Pos(ids.Of("q:"+j.Queue)),
			u.Z(int64(j.Priority)), u.Bool(preemptible(j)), u.Pos(7)))
	}
	term = fmt.Sprintf("(KProg (mkPC %s %s %s %s %s %s %s %s %s))", u.Nat(ps.kind), u.Bool(cfg.Sigs), u.Z(total), u.List(units),
		u.List(queues), u.List(running), u.List(pending), u.List(evs), u.List(pipes))
	kind := "reclaim"
	if ps.kind == 2 {
		kind = "preempt"
	}
	hog := ""
	if ps.hog != "" {
		hog = " cpu-hog=" + ps.hog
		st["prog-with-hog"]++
	}
	label = fmt.Sprintf("prog %s %s%s%s %s => %s", kind, tag, cfg, hog, cycle.Describe(c), describeCalls(calls))
	if len(evs) > 0 {
		st["cycles-with-eviction"]++
	}
	return term, label, st
}
