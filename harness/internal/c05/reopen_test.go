package c05

import (
	"testing"

	u "kaiverif/internal/util"
)

// The session re-opened with an explicit queue hierarchy (reopenWithDepartments) must behave as
// the session of cycle.Build when the hierarchy is the same: identical KProg terms.
func TestReopenedSessionAgreesWithBuild(t *testing.T) {
	root := u.NewRng(7)
	for i := 0; i < 24; i++ {
		for _, sigs := range []bool{false, true} {
			var ps progSpec
			if i%2 == 0 {
				ps = genReclaim(root.Fork(uint64(i)), sigs)
			} else {
				ps = genPreempt(root.Fork(uint64(i)), sigs)
			}
			cfg := Config{Sigs: sigs, NodeOrder: "binpack"}
			t1, l1, _ := ProgCase(ps, cfg, "", nil)
			ps.depts = map[string]string{}
			for _, q := range ps.cluster.Queues {
				ps.depts[q.Name] = "dept"
			}
			t2, _, _ := ProgCase(ps, cfg, "", nil)
			if t1 != t2 {
				t.Fatalf("case %d sigs=%v: terms differ\n%s\n%s\n%s", i, sigs, l1, t1, t2)
			}
		}
	}
}
