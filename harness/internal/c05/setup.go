// Package c05 drives the real allocate / reclaim / preempt actions on generated
// clusters (sessions assembled by cycle.Build from the real constructors) and
// emits the observations as Coq cases for Run/C05.v:
//   - KAlloc: only the allocate action, with every attempt of its loop recorded
//     through Session hooks (work conservation + model agreement),
//   - KProg: allocate then reclaim / preempt in the interchangeable class
//     (progress monitors),
//   - KSig: MinimalJobRepresentatives function-level correspondence.
package c05

import (
	"fmt"
	"sort"

	"go.uber.org/mock/gomock"
	v1 "k8s.io/api/core/v1"

	"github.com/NVIDIA/KAI-scheduler/pkg/scheduler/api/common_info"
	"github.com/NVIDIA/KAI-scheduler/pkg/scheduler/api/node_info"
	"github.com/NVIDIA/KAI-scheduler/pkg/scheduler/api/pod_info"
	"github.com/NVIDIA/KAI-scheduler/pkg/scheduler/api/podgroup_info"
	"github.com/NVIDIA/KAI-scheduler/pkg/scheduler/cache"
	"github.com/NVIDIA/KAI-scheduler/pkg/scheduler/cache/cluster_info"
	"github.com/NVIDIA/KAI-scheduler/pkg/scheduler/test_utils"

	"kaiverif/internal/cycle"
	u "kaiverif/internal/util"
)

// Config is what a case varies besides the cluster.
type Config struct {
	Sigs      bool   // SchedulerParams.UseSchedulingSignatures
	NodeOrder string // "binpack" (default tiers) | "spread" | "perm"
	Perm      map[string]int
}

func (c Config) String() string {
	s := "order=" + c.NodeOrder
	if c.NodeOrder == "perm" {
		names := make([]string, 0, len(c.Perm))
		for n := range c.Perm {
			names = append(names, n)
		}
		sort.Slice(names, func(i, j int) bool { return c.Perm[names[i]] > c.Perm[names[j]] })
		s += fmt.Sprintf("%v", names)
	}
	return fmt.Sprintf("%s sigs=%v", s, c.Sigs)
}

// Attempt is one AllocateJob call of the allocate loop.
type Attempt struct {
	Job    string
	Tasks  []string            // tasks to allocate, in order
	Visits map[string][]string // task -> nodes on which the real FittingNode passed, in order
	Calls  []cycle.Call        // Cache calls of the commit that followed (empty: discarded)
}

// Trace collects the attempts of one run.
type Trace struct {
	Attempts []*Attempt
	cur      *Attempt
	curTask  string
	seen     int // number of recorder calls already attributed
}

// reopenWithDepartments replaces the session of cycle.Build (every queue under the
// one department "dept") by a session over the same nodes and pod groups whose
// leaf queues sit under the departments of depts (queue -> department; each
// department unlimited, created in order of first mention). The queue list
// order stays the creation order of the queues. The recorder of cycle.Build is
// re-wired onto the new session's cache.
func reopenWithDepartments(b *cycle.Built, c cycle.Cluster, depts map[string]string) {
	meta := test_utils.TestTopologyBasic{Name: "gen", DisableDefaultDepartment: true,
		Mocks: &test_utils.TestMock{CacheRequirements: &test_utils.CacheMocking{NumberOfCacheBinds: 1 << 20, NumberOfCacheEvictions: 1 << 20, NumberOfPipelineActions: 1 << 20}}}
	seen := map[string]bool{}
	for _, q := range c.Queues {
		d := depts[q.Name]
		if d == "" {
			d = "dept"
		}
		if !seen[d] {
			seen[d] = true
			meta.Departments = append(meta.Departments, test_utils.TestDepartmentBasic{Name: d,
				DeservedGPUs: common_info.NoMaxAllowedResource, MaxAllowedGPUs: common_info.NoMaxAllowedResource})
		}
		prio := q.Priority
		meta.Queues = append(meta.Queues, test_utils.TestQueueBasic{Name: q.Name, ParentQueue: d, DeservedGPUs: q.Deserved,
			MaxAllowedGPUs: q.Limit, GPUOverQuotaWeight: q.OverQuota, Priority: &prio})
	}
	queues := test_utils.BuildQueueInfoMap(meta)
	for k, v := range test_utils.BuildDepartmentInfoMap(meta) {
		queues[k] = v
	}
	cluster_info.UpdateQueueHierarchy(queues)
	cpai, _ := b.Rec.Cache.SnapshotSharedLister().(*cache.K8sClusterPodAffinityInfo)
	if cpai == nil {
		cpai = cache.NewK8sClusterPodAffinityInfo()
	}
	ctrl := gomock.NewController(b.Rep)
	cfg := &test_utils.TestSessionConfig{Plugins: test_utils.BuildPlugins(meta), CachePlugins: map[string]bool{"predicates": true}}
	ssn := test_utils.CreateFakeSession(cfg, b.Nodes, b.Jobs, queues, meta, ctrl, true, nil, cpai)
	b.Rec.Cache = ssn.Cache
	ssn.Cache = b.Rec
	b.Ssn = ssn
}

// Setup builds the real session and installs the hooks.
func Setup(c cycle.Cluster, cfg Config) (*cycle.Built, *Trace) { return SetupDepts(c, cfg, nil) }

// SetupDepts: as Setup, with the leaf queues under the given departments (nil:
// the single department of cycle.Build).
func SetupDepts(c cycle.Cluster, cfg Config, depts map[string]string) (*cycle.Built, *Trace) {
	b := cycle.Build(c)
	if depts != nil {
		reopenWithDepartments(b, c, depts)
	}
	ssn := b.Ssn
	ssn.SchedulerParams.UseSchedulingSignatures = cfg.Sigs
	tr := &Trace{}
	flush := func() {
		calls := b.Rec.Calls()
		if tr.cur != nil {
			tr.cur.Calls = append(tr.cur.Calls, calls[tr.seen:]...)
		}
		tr.seen = len(calls)
	}
	ssn.AddPreJobAllocationFn(func(job *podgroup_info.PodGroupInfo) {
		flush()
		a := &Attempt{Job: job.Name, Visits: map[string][]string{}}
		for _, t := range podgroup_info.GetTasksToAllocate(job, ssn.PodSetOrderFn, ssn.TaskOrderFn, true) {
			a.Tasks = append(a.Tasks, t.Name)
		}
		tr.Attempts = append(tr.Attempts, a)
		tr.cur = a
	})
	ssn.AddPrePredicateFn(func(t *pod_info.PodInfo, _ *podgroup_info.PodGroupInfo) error {
		tr.curTask = t.Name
		return nil
	})
	// registered after the plugins: runs last, i.e. only on nodes that passed the
	// resource check and every predicate of the session
	ssn.AddPredicateFn(func(t *pod_info.PodInfo, _ *podgroup_info.PodGroupInfo, n *node_info.NodeInfo) error {
		if tr.cur != nil {
			tr.cur.Visits[t.Name] = append(tr.cur.Visits[t.Name], n.Name)
		}
		return nil
	})
	switch cfg.NodeOrder {
	case "spread":
		// the formula of nodeplacement's spread strategy, weighted so that it
		// dominates the default binpack score (cycle.Build opens the default tiers)
		ssn.AddNodeOrderFn(func(t *pod_info.PodInfo, n *node_info.NodeInfo) (float64, error) {
			res := "nvidia.com/gpu"
			total := float64(n.GetNumberOfGPUsInNode())
			if t.IsCPUOnlyRequest() {
				res = "cpu"
				total = n.Allocatable.Get(v1.ResourceCPU)
			}
			if total == 0 {
				return 0, nil
			}
			return 20 * n.NonAllocatedResource(v1.ResourceName(res)) / total, nil
		})
	case "perm":
		ssn.AddNodeOrderFn(func(_ *pod_info.PodInfo, n *node_info.NodeInfo) (float64, error) {
			return 50 * float64(cfg.Perm[n.Name]), nil
		})
	}
	return b, tr
}

// Finish attributes the trailing calls to the last attempt.
func (tr *Trace) Finish(b *cycle.Built) {
	calls := b.Rec.Calls()
	if tr.cur != nil {
		tr.cur.Calls = append(tr.cur.Calls, calls[tr.seen:]...)
	}
	tr.seen = len(calls)
	tr.cur = nil
}

func genConfig(r *u.Rng, c cycle.Cluster) Config {
	cfg := Config{Sigs: r.Bool(), NodeOrder: u.Pick(r, []string{"binpack", "binpack", "spread", "perm"})}
	if cfg.NodeOrder == "perm" {
		cfg.Perm = map[string]int{}
		idx := make([]int, len(c.Nodes))
		for i := range idx {
			idx[i] = i
		}
		u.Shuffle(r, idx)
		for i, n := range c.Nodes {
			cfg.Perm[n.Name] = idx[i]
		}
	}
	return cfg
}
