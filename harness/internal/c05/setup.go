// Package c05 drives the real allocate / reclaim / preempt actions on generated
// clusters (sessions assembled by cycle.Build from the real constructors) and
// emits the observations as Coq cases for Run/C05.v:
//   - KAlloc: only the allocate action, with every attempt of its loop recorded
//     through Session hooks (work conservation + model agreement),
//   - KProg: allocate then reclaim / preempt in the interchangeable class
//     (progress monitors),
//   - KSig: MinimalJobRepresentatives function-level correspondence.
package c05

import (
	"fmt"
	"sort"
	"strings"

	"go.uber.org/mock/gomock"
	v1 "k8s.io/api/core/v1"

	"github.com/NVIDIA/KAI-scheduler/pkg/scheduler/api/common_info"
	"github.com/NVIDIA/KAI-scheduler/pkg/scheduler/api/node_info"
	"github.com/NVIDIA/KAI-scheduler/pkg/scheduler/api/pod_info"
	"github.com/NVIDIA/KAI-scheduler/pkg/scheduler/api/podgroup_info"
	"github.com/NVIDIA/KAI-scheduler/pkg/scheduler/cache"
	"github.com/NVIDIA/KAI-scheduler/pkg/scheduler/cache/cluster_info"
	"github.com/NVIDIA/KAI-scheduler/pkg/scheduler/test_utils"

	"kaiverif/internal/cycle"
	u "kaiverif/internal/util"
)

// Config is what a case varies besides the cluster.
type Config struct {
	Sigs      bool   // SchedulerParams.UseSchedulingSignatures
	NodeOrder string // "binpack" (default tiers) | "spread" | "perm"
	Perm      map[string]int
}

func (c Config) String() string {
	s := "order=" + c.NodeOrder
	if c.NodeOrder == "perm" {
		names := make([]string, 0, len(c.Perm))
		for n := range c.Perm {
			names = append(names, n)
		}
		sort.Slice(names, func(i, j int) bool { return c.Perm[names[i]] > c.Perm[names[j]] })
		s += fmt.Sprintf("%v", names)
	}
	return fmt.Sprintf("%s sigs=%v", s, c.Sigs)
}

// Attempt is one AllocateJob call of the allocate loop.
type Attempt struct {
	Job    string
	Tasks  []string            // tasks to allocate, in order
	Visits map[string][]string // task -> nodes on which the real FittingNode passed, in order
	Calls  []cycle.Call        // Cache calls of the commit that followed (empty: discarded)
}

// Trace collects the attempts of one run.
type Trace struct {
	Attempts []*Attempt
	cur      *Attempt
	curTask  string
	seen     int // number of recorder calls already attributed
}

// innerQueue is a queue of the hierarchy that is not a leaf of the cluster (cycle.Cluster.Queues
// lists the leaf queues only): a department or any queue between a top-level queue and a leaf.
type innerQueue struct {
	Name      string
	Deserved  float64 // GPUs; < 0: unlimited
	OverQuota float64
	Priority  int
	Dept      bool // built as a test_utils department (top-level, unlimited, over-quota weight = deserved); else as a queue
}

// qtree is the queue hierarchy of a case: an arbitrary parent map (queue -> parent, any depth) over
// the leaf queues of the cluster and the inner queues. A queue without an entry (or with "") is
// top-level.
type qtree struct {
	Parent map[string]string
	Inner  []innerQueue // creation order (created after the leaf queues)
}

// deptTree: every leaf queue under the department of depts (default "dept"), each department
// unlimited and top-level, created in order of first mention.
func deptTree(c cycle.Cluster, depts map[string]string) *qtree {
	t := &qtree{Parent: map[string]string{}}
	seen := map[string]bool{}
	for _, q := range c.Queues {
		d := depts[q.Name]
		if d == "" {
			d = "dept"
		}
		t.Parent[q.Name] = d
		if !seen[d] {
			seen[d] = true
			t.Inner = append(t.Inner, innerQueue{Name: d, Deserved: -1, Dept: true})
		}
	}
	return t
}

// chain: q and its ancestors, leaf first.
func (t *qtree) chain(q string) []string {
	var out []string
	for q != "" && len(out) < 64 {
		out = append(out, q)
		q = t.Parent[q]
	}
	return out
}

// describe: every queue as root>...>queue(des=deserved), leaf queues first.
func (t *qtree) describe(c cycle.Cluster) string {
	des := map[string]float64{}
	for _, q := range c.Queues {
		des[q.Name] = q.Deserved
	}
	for _, q := range t.Inner {
		des[q.Name] = q.Deserved
	}
	var parts []string
	for _, q := range c.Queues {
		ch := t.chain(q.Name)
		var names []string
		for i := len(ch) - 1; i >= 0; i-- {
			d := "unlimited"
			if des[ch[i]] >= 0 {
				d = fmt.Sprintf("%g", des[ch[i]])
			}
			names = append(names, fmt.Sprintf("%s(des=%s)", ch[i], d))
		}
		parts = append(parts, strings.Join(names, ">"))
	}
	return strings.Join(parts, " | ")
}

// reopenWithTree replaces the session of cycle.Build (every queue under the one department
// "dept") by a session over the same nodes and pod groups whose queues form the hierarchy t:
// the leaf queues of the cluster and the inner queues of t, each under its parent of t.Parent
// (arbitrary depth; top-level queues have no parent). Inner queues marked Dept are built as
// test_utils departments, the others as ordinary queues with a ParentQueue. The leaf queues keep
// the creation order of the cluster's queue list; inner queues are created after them. The
// recorder of cycle.Build is re-wired onto the new session's cache.
func reopenWithTree(b *cycle.Built, c cycle.Cluster, t *qtree) {
	meta := test_utils.TestTopologyBasic{Name: "gen", DisableDefaultDepartment: true,
		Mocks: &test_utils.TestMock{CacheRequirements: &test_utils.CacheMocking{NumberOfCacheBinds: 1 << 20, NumberOfCacheEvictions: 1 << 20, NumberOfPipelineActions: 1 << 20}}}
	for _, q := range c.Queues {
		prio := q.Priority
		meta.Queues = append(meta.Queues, test_utils.TestQueueBasic{Name: q.Name, ParentQueue: t.Parent[q.Name], DeservedGPUs: q.Deserved,
			MaxAllowedGPUs: q.Limit, GPUOverQuotaWeight: q.OverQuota, Priority: &prio})
	}
	for _, q := range t.Inner {
		des := q.Deserved
		if des < 0 {
			des = common_info.NoMaxAllowedResource
		}
		if q.Dept {
			meta.Departments = append(meta.Departments, test_utils.TestDepartmentBasic{Name: q.Name,
				DeservedGPUs: des, MaxAllowedGPUs: common_info.NoMaxAllowedResource})
			continue
		}
		prio := q.Priority
		meta.Queues = append(meta.Queues, test_utils.TestQueueBasic{Name: q.Name, ParentQueue: t.Parent[q.Name], DeservedGPUs: des,
			GPUOverQuotaWeight: q.OverQuota, Priority: &prio})
	}
	queues := test_utils.BuildQueueInfoMap(meta)
	for k, v := range test_utils.BuildDepartmentInfoMap(meta) {
		queues[k] = v
	}
	cluster_info.UpdateQueueHierarchy(queues)
	cpai, _ := b.Rec.Cache.SnapshotSharedLister().(*cache.K8sClusterPodAffinityInfo)
	if cpai == nil {
		cpai = cache.NewK8sClusterPodAffinityInfo()
	}
	ctrl := gomock.NewController(b.Rep)
	cfg := &test_utils.TestSessionConfig{Plugins: test_utils.BuildPlugins(meta), CachePlugins: map[string]bool{"predicates": true}}
	ssn := test_utils.CreateFakeSession(cfg, b.Nodes, b.Jobs, queues, meta, ctrl, true, nil, cpai)
	b.Rec.Cache = ssn.Cache
	ssn.Cache = b.Rec
	b.Ssn = ssn
}

// Setup builds the real session and installs the hooks.
func Setup(c cycle.Cluster, cfg Config) (*cycle.Built, *Trace) { return SetupTree(c, cfg, nil) }

// SetupDepts: as Setup, with the leaf queues under the given departments (nil:
// the single department of cycle.Build).
func SetupDepts(c cycle.Cluster, cfg Config, depts map[string]string) (*cycle.Built, *Trace) {
	if depts == nil {
		return SetupTree(c, cfg, nil)
	}
	return SetupTree(c, cfg, deptTree(c, depts))
}

// SetupTree: as Setup, with the session re-opened over the queue hierarchy t (nil: the single
// department of cycle.Build).
func SetupTree(c cycle.Cluster, cfg Config, t *qtree) (*cycle.Built, *Trace) {
	b := cycle.Build(c)
	if t != nil {
		reopenWithTree(b, c, t)
	}
	ssn := b.Ssn
	ssn.SchedulerParams.UseSchedulingSignatures = cfg.Sigs
	tr := &Trace{}
	flush := func() {
		calls := b.Rec.Calls()
		if tr.cur != nil {
			tr.cur.Calls = append(tr.cur.Calls, calls[tr.seen:]...)
		}
		tr.seen = len(calls)
	}
	ssn.AddPreJobAllocationFn(func(job *podgroup_info.PodGroupInfo) {
		flush()
		a := &Attempt{Job: job.Name, Visits: map[string][]string{}}
		for _, t := range podgroup_info.GetTasksToAllocate(job, ssn.PodSetOrderFn, ssn.TaskOrderFn, true) {
			a.Tasks = append(a.Tasks, t.Name)
		}
		tr.Attempts = append(tr.Attempts, a)
		tr.cur = a
	})
	ssn.AddPrePredicateFn(func(t *pod_info.PodInfo, _ *podgroup_info.PodGroupInfo) error {
		tr.curTask = t.Name
		return nil
	})
	// registered after the plugins: runs last, i.e. only on nodes that passed the
	// resource check and every predicate of the session
	ssn.AddPredicateFn(func(t *pod_info.PodInfo, _ *podgroup_info.PodGroupInfo, n *node_info.NodeInfo) error {
		if tr.cur != nil {
			tr.cur.Visits[t.Name] = append(tr.cur.Visits[t.Name], n.Name)
		}
		return nil
	})
	switch cfg.NodeOrder {
	case "spread":
		// the formula of nodeplacement's spread strategy, weighted so that it
		// dominates the default binpack score (cycle.Build opens the default tiers)
		ssn.AddNodeOrderFn(func(t *pod_info.PodInfo, n *node_info.NodeInfo) (float64, error) {
			res := "nvidia.com/gpu"
			total := float64(n.GetNumberOfGPUsInNode())
			if t.IsCPUOnlyRequest() {
				res = "cpu"
				total = n.Allocatable.Get(v1.ResourceCPU)
			}
			if total == 0 {
				return 0, nil
			}
			return 20 * n.NonAllocatedResource(v1.ResourceName(res)) / total, nil
		})
	case "perm":
		ssn.AddNodeOrderFn(func(_ *pod_info.PodInfo, n *node_info.NodeInfo) (float64, error) {
			return 50 * float64(cfg.Perm[n.Name]), nil
		})
	}
	return b, tr
}

// Finish attributes the trailing calls to the last attempt.
func (tr *Trace) Finish(b *cycle.Built) {
	calls := b.Rec.Calls()
	if tr.cur != nil {
		tr.cur.Calls = append(tr.cur.Calls, calls[tr.seen:]...)
	}
	tr.seen = len(calls)
	tr.cur = nil
}

func genConfig(r *u.Rng, c cycle.Cluster) Config {
	cfg := Config{Sigs: r.Bool(), NodeOrder: u.Pick(r, []string{"binpack", "binpack", "spread", "perm"})}
	if cfg.NodeOrder == "perm" {
		cfg.Perm = map[string]int{}
		idx := make([]int, len(c.Nodes))
		for i := range idx {
			idx[i] = i
		}
		u.Shuffle(r, idx)
		for i, n := range c.Nodes {
			cfg.Perm[n.Name] = idx[i]
		}
	}
	return cfg
}
