package c05

import (
	"fmt"
	"os"
	"sort"
	"strconv"
	"strings"

	"github.com/NVIDIA/KAI-scheduler/pkg/scheduler/api/common_info"
	"github.com/NVIDIA/KAI-scheduler/pkg/scheduler/api/node_info"
	"github.com/NVIDIA/KAI-scheduler/pkg/scheduler/api/pod_info"
	"github.com/NVIDIA/KAI-scheduler/pkg/scheduler/api/pod_status"
	"github.com/NVIDIA/KAI-scheduler/pkg/scheduler/api/podgroup_info"

	"kaiverif/internal/core"
	"kaiverif/internal/cycle"
	u "kaiverif/internal/util"
)

// genAlloc draws a cluster for the allocate-only stream: cycle.Gen's
// distribution without gpu-memory requests (their quota charge is C08's known
// finding), only the allocate action; every third cluster is "tight": many
// identical pods for little capacity, so that jobs stay pending.
func genAlloc(r *u.Rng, i int) cycle.Cluster {
	c := cycle.Gen(r)
	c.Actions = []string{"allocate"}
	for ji := range c.Jobs {
		for pi := range c.Jobs[ji].Pods {
			p := &c.Jobs[ji].Pods[pi]
			if p.GpuMemory > 0 {
				p.GpuMemory = 0
				p.Fraction = "0.5"
			}
		}
	}
	if i%3 == 0 {
		// tight: identical whole-GPU or CPU pods per job, all pending
		for ji := range c.Jobs {
			j := &c.Jobs[ji]
			if j.Pods[0].Status != pod_status.Pending || j.Pods[0].Fraction != "" {
				continue
			}
			n := r.Range(1, 3)
			proto := j.Pods[0]
			proto.Node, proto.Groups = "", nil
			if r.Bool() {
				proto.Gpus, proto.Cpu = int64(r.Range(1, 2)), 500
			} else {
				proto.Gpus, proto.Cpu = 0, int64(u.Pick(r, []int{2000, 3000, 4000}))
			}
			j.Pods = nil
			j.SubGroups = nil
			for k := 0; k < n; k++ {
				p := proto
				p.Name = fmt.Sprintf("%s-%d", j.Name, k)
				p.SubGroup = ""
				p.Status = pod_status.Pending
				j.Pods = append(j.Pods, p)
			}
			j.MinMember = int32(r.Range(1, n))
		}
	}
	return c
}

func portion(p core.PodSpec) int64 {
	if p.Fraction != "" {
		f, _ := strconv.ParseFloat(p.Fraction, 64)
		return int64(f*100 + 0.5)
	}
	if p.Gpus > 0 {
		return 100
	}
	return 0
}

type emitter struct {
	c     cycle.Cluster
	b     *cycle.Built
	ids   *core.Ids
	any   *node_info.NodeInfo
	specs map[string]core.PodSpec
	x0    map[string]string // xtask terms rendered at snapshot time (initial statuses)
}

func newEmitter(c cycle.Cluster, b *cycle.Built) *emitter {
	e := &emitter{c: c, b: b, ids: core.NewIds(), specs: map[string]core.PodSpec{}}
	for _, n := range c.Nodes {
		e.ids.Of("n:" + n.Name)
	}
	for _, j := range c.Jobs {
		e.ids.Of("j:" + j.Name)
		for _, p := range j.Pods {
			e.ids.Of("p:" + p.Name)
			e.specs[p.Name] = p
		}
	}
	for _, n := range c.Nodes {
		e.any = b.Nodes[n.Name]
		break
	}
	e.x0 = map[string]string{}
	for name := range b.Tasks {
		e.x0[name] = e.xtask(name)
	}
	return e
}

func (e *emitter) xtask0(name string) string { return e.x0[name] }

func (e *emitter) nodeOf(t *pod_info.PodInfo) *node_info.NodeInfo {
	if n, ok := e.b.Nodes[t.NodeName]; ok {
		return n
	}
	return e.any
}

func (e *emitter) xtask(name string) string {
	t := e.b.Tasks[name]
	return fmt.Sprintf("(mkXT %s %s)", core.TaskTerm(e.ids, t, e.nodeOf(t)), u.Z(portion(e.specs[name])))
}

func sortedAmap(m map[int]string) string {
	ks := make([]int, 0, len(m))
	for k := range m {
		ks = append(ks, k)
	}
	sort.Ints(ks)
	out := make([]string, len(ks))
	for i, k := range ks {
		out[i] = u.Pair(u.Pos(k), m[k])
	}
	return u.List(out)
}

func (e *emitter) nodeFull(ni *node_info.NodeInfo) string {
	type pe struct {
		k    int
		term string
	}
	var ps []pe
	for _, t := range ni.PodInfos {
		ps = append(ps, pe{e.ids.Of("p:" + string(t.UID)), core.TaskTerm(e.ids, t, ni)})
	}
	sort.Slice(ps, func(i, j int) bool { return ps[i].k < ps[j].k })
	pods := make([]string, len(ps))
	for i, p := range ps {
		pods[i] = u.Pair(u.Pos(p.k), p.term)
	}
	return core.NodeFullTerm(e.ids, ni, u.List(pods))
}

// snapshot terms: nodes, tinfo list, running xtasks — taken BEFORE the actions run
func (e *emitter) snapshot() (nodes, tis, running string) {
	n0 := map[int]string{}
	for name, ni := range e.b.Nodes {
		n0[e.ids.Of("n:"+name)] = e.nodeFull(ni)
	}
	var tl, rl []string
	for _, j := range e.c.Jobs {
		for _, p := range j.Pods {
			t := e.b.Tasks[p.Name]
			pset := "default"
			if t.SubGroupName != "" {
				pset = t.SubGroupName
			}
			node := "None"
			if _, ok := e.b.Nodes[t.NodeName]; ok {
				node = u.Opt(true, u.Pos(e.ids.Of("n:"+t.NodeName)))
			}
			tl = append(tl, fmt.Sprintf("(mkTI %s %s %s)", core.TaskTerm(e.ids, t, e.nodeOf(t)), u.Pos(e.ids.Of("s:"+j.Name+"/"+pset)), node))
			if pod_status.AllocatedStatus(t.Status) {
				rl = append(rl, e.xtask0(p.Name))
			}
		}
	}
	return sortedAmap(n0), u.List(tl), u.List(rl)
}

func (e *emitter) queuesJobs() (queues, jobs string) {
	var ql, jl []string
	dept := e.ids.Of("q:dept")
	none := e.ids.Of("q:")
	cq := func(v float64, zeroUnlimited bool) int64 {
		if v < 0 || (zeroUnlimited && v == 0) {
			return -1
		}
		return int64(v*100 + 0.5)
	}
	for _, q := range e.c.Queues {
		ql = append(ql, fmt.Sprintf("(mkXQ %s %s %s %s)", u.Pos(e.ids.Of("q:"+q.Name)), u.Pos(dept), u.Z(cq(q.Limit, true)), u.Z(cq(q.Deserved, false))))
	}
	ql = append(ql, fmt.Sprintf("(mkXQ %s %s %s %s)", u.Pos(dept), u.Pos(none), u.Z(-1), u.Z(-1)))
	for _, j := range e.c.Jobs {
		job := e.b.Jobs[common_info.PodGroupID(j.Name)]
		jl = append(jl, fmt.Sprintf("(mkXJ %s %s %s)", u.Pos(e.ids.Of("j:"+j.Name)), u.Pos(e.ids.Of("q:"+j.Queue)), u.Bool(job.IsPreemptibleJob())))
	}
	return u.List(ql), u.List(jl)
}

func (e *emitter) placed(cl cycle.Call) string {
	return fmt.Sprintf("(mkPlaced %s %s %s %s)", u.Pos(e.ids.Of("p:"+cl.Pod)), u.Pos(e.ids.Of("n:"+cl.Node)),
		u.Bool(cl.Kind == "pipe"), core.Groups(e.ids, cl.Groups))
}

func describeCalls(calls []cycle.Call) string {
	var d []string
	for _, cl := range calls {
		switch cl.Kind {
		case "bind":
			d = append(d, fmt.Sprintf("bind(%s->%s)", cl.Pod, cl.Node))
		case "pipe":
			d = append(d, fmt.Sprintf("pipe(%s->%s)", cl.Pod, cl.Node))
		case "bindfail":
			d = append(d, fmt.Sprintf("bindREFUSED(%s->%s)", cl.Pod, cl.Node))
		case "evict":
			// same shape as cycle.Describe (known-finding signatures match on it)
			d = append(d, fmt.Sprintf("evict(%s,%s) for=%s", cl.Pod, cl.Action, cl.Preemptor))
		}
	}
	return strings.Join(d, " ")
}

// AllocCase runs ONLY the allocate action on c and returns the KAlloc term.
func AllocCase(c cycle.Cluster, cfg Config, full bool, tag string) (term, label string, st map[string]int) {
	term, label, st, _ = allocCase(c, cfg, full, tag, nil)
	return term, label, st
}

// allocCase: the allocate action on c; with a fault oracle (fs != nil) the session's cache refuses the
// Bind calls the oracle selects and the result is a KFault term (fault.go), otherwise a KAlloc term.
func allocCase(c cycle.Cluster, cfg Config, full bool, tag string, fs *faultSpec) (term, label string, st map[string]int, fr *faultRun) {
	st = map[string]int{}
	c.Actions = []string{"allocate"}
	b, tr := Setup(c, cfg)
	if fs != nil {
		installFaults(b, *fs)
	}
	e := newEmitter(c, b)
	nodes, tis, running := e.snapshot()
	queues, jobs := e.queuesJobs()
	pendingAtStart := e.pendingPods()
	if pmsg := cycle.RunActions(b, c.Actions); pmsg != "" {
		st["PANIC"]++
		fmt.Fprintf(os.Stderr, "PANIC in allocate: %s\n  cluster: %s\n", pmsg, cycle.Describe(c))
	}
	tr.Finish(b)
	var ats []string
	for _, a := range tr.Attempts {
		var ts, vs, ps []string
		for _, n := range a.Tasks {
			ts = append(ts, e.xtask0(n))
			var ns []string
			for _, v := range a.Visits[n] {
				ns = append(ns, u.Pos(e.ids.Of("n:"+v)))
			}
			vs = append(vs, u.Pair(u.Pos(e.ids.Of("p:"+n)), u.List(ns)))
		}
		for _, cl := range a.Calls {
			if cl.Kind == "bind" || cl.Kind == "pipe" {
				ps = append(ps, e.placed(cl))
				st["call:"+cl.Kind]++
			}
		}
		if fs != nil {
			// operations of a commit that a refused Bind cut short: no Cache call, the pod keeps its placement in the session
			for _, ph := range e.dropped(a) {
				ps = append(ps, e.placed(ph))
			}
		}
		ats = append(ats, fmt.Sprintf("(mkAt %s %s %s %s)", u.Pos(e.ids.Of("j:"+a.Job)), u.List(ts), u.List(vs), u.List(ps)))
		st["attempts"]++
		if len(a.Calls) == 0 {
			st["attempts-refused"]++
		}
	}
	final := map[int]string{}
	for name, ni := range b.Nodes {
		final[e.ids.Of("n:"+name)] = core.NodeObs(e.ids, ni)
	}
	// ready jobs with pending pods after the action, in cluster order
	var rem []string
	var remDesc []string
	for _, j := range c.Jobs {
		job := b.Jobs[common_info.PodGroupID(j.Name)]
		if !job.IsReadyForScheduling() || len(job.PodStatusIndex[pod_status.Pending]) == 0 {
			continue
		}
		unit := podgroup_info.GetTasksToAllocate(job, b.Ssn.PodSetOrderFn, b.Ssn.TaskOrderFn, true)
		if len(unit) == 0 {
			continue
		}
		var ts []string
		for _, t := range unit {
			ts = append(ts, e.xtask0(t.Name))
		}
		rem = append(rem, u.Pair(u.Pos(e.ids.Of("j:"+j.Name)), u.List(ts)))
		remDesc = append(remDesc, fmt.Sprintf("%s(%d)", j.Name, len(unit)))
		st["remaining-units"]++
	}
	ac := fmt.Sprintf("(mkAC %s %s %s %s %s %s %s %s %s)", nodes, tis, jobs, queues, running, u.List(ats),
		sortedAmap(final), u.List(rem), u.Bool(full))
	var calls []cycle.Call
	for _, a := range tr.Attempts {
		calls = append(calls, a.Calls...)
	}
	if fs != nil {
		fr = e.faultTerms(tr, pendingAtStart)
		term = fmt.Sprintf("(KFault (mkFC %s %s %s))", ac, fr.callsTerm, fr.statusTerm)
		label = fmt.Sprintf("fault %soracle=%s %s %s => %s remaining[%s] dropped[%s]", tag, fs, cfg, cycle.Describe(c), describeCalls(calls),
			strings.Join(remDesc, " "), strings.Join(fr.dropped, " "))
		for k, v := range fr.stats {
			st[k] += v
		}
		return term, label, st, fr
	}
	term = "(KAlloc " + ac + ")"
	label = fmt.Sprintf("alloc %s%s %s => %s remaining[%s]", tag, cfg, cycle.Describe(c), describeCalls(calls), strings.Join(remDesc, " "))
	return term, label, st, nil
}
