package c05

import (
	"bufio"
	"encoding/json"
	"fmt"
	"os"
	"os/exec"
	"path/filepath"
	"sort"
	"strings"
	"sync"

	"github.com/NVIDIA/KAI-scheduler/pkg/scheduler/api/pod_status"

	"kaiverif/internal/core"
	"kaiverif/internal/cycle"
	u "kaiverif/internal/util"
)

type result struct {
	Idx    int            `json:"idx"`
	Term   string         `json:"term"`
	Label  string         `json:"label"`
	Stats  map[string]int `json:"stats"`
	Stream string         `json:"stream"`
	Sub    int            `json:"sub"` // position among the cases of one plan item (fault stream)
}

type item struct {
	stream string
	i      int
}

// plan lists the cases of a run: fixed corpus first, then the random streams.
func plan(n int) []item {
	var p []item
	for i := range corpus() {
		p = append(p, item{"corpus", i})
	}
	for i := 0; i < n; i++ {
		p = append(p, item{"alloc", i})
	}
	for i := 0; i < n/2; i++ {
		p = append(p, item{"prog", i})
	}
	for i := 0; i < n/4; i++ {
		p = append(p, item{"sig", i})
	}
	// fault stream: one item = one cluster under every Bind-failure oracle (several cases)
	for i := 0; i < n/12; i++ {
		p = append(p, item{"fault", i})
	}
	// rfault stream: one item = one reclaim cluster with >= 2 reclaimer queues under every Evict-failure oracle
	for i := 0; i < n/25; i++ {
		p = append(p, item{"rfault", i})
	}
	// pfault stream: the same for the preempt action (>= 2 eligible preemptors)
	for i := 0; i < n/40; i++ {
		p = append(p, item{"pfault", i})
	}
	return p
}

type corpusCase struct {
	name string
	run  func() (string, string, map[string]int)
}

func gib(n int64) int64 { return n << 30 }

// corpus: the replayed refutation witnesses (with the configuration under
// which the real scheduler shows them and the one under which it does not)
// and boundary clusters.
func corpus() []corpusCase {
	P, R := pod_status.Pending, pod_status.Running
	het := cycle.Cluster{
		Nodes:  []core.NodeSpec{{Name: "n1", Cpu: 4000, Mem: gib(16), Pods: 110}, {Name: "n2", Cpu: 4000, Mem: gib(16), Pods: 110}},
		Queues: []cycle.Queue{{Name: "q1", Deserved: 1, OverQuota: 1, Priority: 100}},
		Jobs: []cycle.Job{
			{Name: "r", Queue: "q1", Priority: 50, MinMember: 1, AgeMinutes: 50, StartedMins: 20, Pods: []core.PodSpec{{Name: "r-0", Cpu: 2000, Mem: gib(1), Status: R, Node: "n2"}}},
			{Name: "j1", Queue: "q1", Priority: 50, MinMember: 2, AgeMinutes: 5, Pods: []core.PodSpec{
				{Name: "j1-0", Cpu: 2000, Mem: gib(1), Status: P}, {Name: "j1-1", Cpu: 4000, Mem: gib(1), Status: P}}}},
	}
	het42 := cycle.Cluster{
		Nodes:  []core.NodeSpec{{Name: "n1", Cpu: 4000, Mem: gib(16), Pods: 110}, {Name: "n2", Cpu: 2000, Mem: gib(16), Pods: 110}},
		Queues: []cycle.Queue{{Name: "q1", Deserved: 1, OverQuota: 1, Priority: 100}},
		Jobs: []cycle.Job{{Name: "j1", Queue: "q1", Priority: 50, MinMember: 2, AgeMinutes: 5, Pods: []core.PodSpec{
			{Name: "j1-0", Cpu: 2000, Mem: gib(1), Status: P}, {Name: "j1-1", Cpu: 4000, Mem: gib(1), Status: P}}}},
	}
	unit := func(name, node string, st pod_status.PodStatus) core.PodSpec { return unitPod(name, node, st) }
	sigA := cycle.Cluster{
		Nodes:  []core.NodeSpec{{Name: "n1", Cpu: 8000, Mem: gib(16), Gpus: 1, Pods: 110}},
		Queues: []cycle.Queue{{Name: "qa", Deserved: 0, OverQuota: 1, Priority: 100}},
		Jobs: []cycle.Job{
			{Name: "v1", Queue: "qa", Priority: 50, MinMember: 1, AgeMinutes: 30, StartedMins: 20, Pods: []core.PodSpec{unit("v1-0", "n1", R)}},
			{Name: "a", Queue: "qa", Priority: 100, MinMember: 1, AgeMinutes: 10, Pods: []core.PodSpec{unit("a-0", "", P)}},
			{Name: "b", Queue: "qa", Priority: 75, MinMember: 1, AgeMinutes: 5, Pods: []core.PodSpec{unit("b-0", "", P)}},
		},
		Actions: []string{"allocate", "preempt"},
	}
	sigB := cycle.Cluster{
		Nodes:  []core.NodeSpec{{Name: "n1", Cpu: 8000, Mem: gib(16), Gpus: 2, Pods: 110}},
		Queues: []cycle.Queue{{Name: "qa", Deserved: 2, OverQuota: 1, Priority: 100}},
		Jobs: []cycle.Job{
			{Name: "v1", Queue: "qa", Priority: 50, MinMember: 1, AgeMinutes: 30, StartedMins: 20, Pods: []core.PodSpec{unit("v1-0", "n1", R)}},
			{Name: "w1", Queue: "qa", Priority: 90, MinMember: 1, AgeMinutes: 30, StartedMins: 20, Pods: []core.PodSpec{unit("w1-0", "n1", R)}},
			{Name: "a", Queue: "qa", Priority: 80, MinMember: 2, AgeMinutes: 10, Pods: []core.PodSpec{unit("a-0", "", P), unit("a-1", "", P)}},
			{Name: "b", Queue: "qa", Priority: 75, MinMember: 1, AgeMinutes: 5, Pods: []core.PodSpec{unit("b-0", "", P), unit("b-1", "", P)}},
		},
		Actions: []string{"allocate", "preempt"},
	}
	empty := cycle.Cluster{Nodes: []core.NodeSpec{{Name: "n1", Cpu: 4000, Mem: gib(16), Gpus: 2, Pods: 110}},
		Queues: []cycle.Queue{{Name: "q1", Deserved: 1, OverQuota: 1, Priority: 100}}}
	limited := cycle.Cluster{Nodes: []core.NodeSpec{{Name: "n1", Cpu: 8000, Mem: gib(16), Gpus: 4, Pods: 110}},
		Queues: []cycle.Queue{{Name: "q1", Deserved: 1, Limit: 1, OverQuota: 1, Priority: 100}},
		Jobs: []cycle.Job{
			{Name: "j1", Queue: "q1", Priority: 50, MinMember: 2, AgeMinutes: 9, Pods: []core.PodSpec{unit("j1-0", "", P), unit("j1-1", "", P)}},
			{Name: "j2", Queue: "q1", Priority: 50, MinMember: 1, AgeMinutes: 5, Pods: []core.PodSpec{unit("j2-0", "", P)}},
			{Name: "j3", Queue: "q1", Priority: 100, MinMember: 1, AgeMinutes: 3, Pods: []core.PodSpec{unit("j3-0", "", P), unit("j3-1", "", P)}},
		}}
	alloc := func(c cycle.Cluster, cfg Config, full bool, tag string) func() (string, string, map[string]int) {
		return func() (string, string, map[string]int) { return AllocCase(c, cfg, full, tag) }
	}
	prog := func(c cycle.Cluster, sigs bool, tag string, hide map[string]bool) func() (string, string, map[string]int) {
		return func() (string, string, map[string]int) {
			return ProgCase(progSpec{kind: 2, cluster: c}, Config{Sigs: sigs, NodeOrder: "binpack"}, tag, hide)
		}
	}
	// replayed witness of known finding C05-signature-shortcut: the tag is computed from the run
	progWit := func(c cycle.Cluster, w sigWitness, hide map[string]bool) func() (string, string, map[string]int) {
		return func() (string, string, map[string]int) {
			return ProgCase(progSpec{kind: 2, cluster: c, wit: &w}, Config{Sigs: true, NodeOrder: "binpack"}, "", hide)
		}
	}
	// identical workloads in two leaf queues; queue "blocked" has nothing of lower priority to
	// preempt, queue "victim" has: whichever queue is served first, the pending job of "victim" must
	// preempt (the failed representatives of the preempt action are kept per queue)
	xq := func(first string, depts map[string]string, sigs bool, actions []string) func() (string, string, map[string]int) {
		qb := cycle.Queue{Name: "qa", Deserved: 1, OverQuota: 1, Priority: 100}
		qv := cycle.Queue{Name: "qb", Deserved: 1, OverQuota: 1, Priority: 100}
		c := cycle.Cluster{
			Nodes: []core.NodeSpec{{Name: "n1", Cpu: 8000, Mem: gib(16), Gpus: 1, Pods: 110}, {Name: "n2", Cpu: 8000, Mem: gib(16), Gpus: 1, Pods: 110}},
			Jobs: []cycle.Job{
				{Name: "v1", Queue: "qa", Priority: 75, MinMember: 1, AgeMinutes: 30, StartedMins: 20, Pods: []core.PodSpec{unit("v1-0", "n1", R)}},
				{Name: "v2", Queue: "qb", Priority: 50, MinMember: 1, AgeMinutes: 30, StartedMins: 20, Pods: []core.PodSpec{unit("v2-0", "n2", R)}},
				{Name: "p1", Queue: "qa", Priority: 75, MinMember: 1, AgeMinutes: 10, Pods: []core.PodSpec{unit("p1-0", "", P)}},
				{Name: "p2", Queue: "qb", Priority: 75, MinMember: 1, AgeMinutes: 10, Pods: []core.PodSpec{unit("p2-0", "", P)}},
			},
			Actions: actions,
		}
		if first == "blocked" {
			c.Queues = []cycle.Queue{qb, qv}
		} else {
			c.Queues = []cycle.Queue{qv, qb}
		}
		return func() (string, string, map[string]int) {
			return ProgCase(progSpec{kind: 2, cluster: c, depts: depts, shape: "qa=blocked,qb=victim"}, Config{Sigs: sigs, NodeOrder: "binpack"},
				"corpus=same-workload-in-two-queues("+first+" queue created first) ", nil)
		}
	}
	// the queue tree of seeded/C05-2's README (reclaimer and over-quota queue at different depths of
	// the tree), both depth orders, two levels of difference, and the same-depth controls
	mixed := func(reclaimerExtra, victimExtra int, sigs bool) func() (string, string, map[string]int) {
		return func() (string, string, map[string]int) {
			return ProgCase(readmeTree(reclaimerExtra, victimExtra), Config{Sigs: sigs, NodeOrder: "binpack"},
				fmt.Sprintf("corpus=mixed-depth-tree(reclaimer %d, over-quota queue %d inner queues below org) ", reclaimerExtra, victimExtra), nil)
		}
	}
	oneDept := map[string]string{"qa": "d1", "qb": "d1"}
	twoDepts := map[string]string{"qa": "d1", "qb": "d2"}
	ap := []string{"allocate", "preempt"}
	full := []string{"allocate", "consolidation", "reclaim", "preempt"}
	return append([]corpusCase{
		{"het-binpack", alloc(het, Config{NodeOrder: "binpack"}, true, "corpus=binpack-het-default-order ")},
		{"het-spread", alloc(het, Config{NodeOrder: "spread"}, true, "witness=binpack-het ")},
		{"het42-perm", alloc(het42, Config{NodeOrder: "perm", Perm: map[string]int{"n1": 1, "n2": 0}}, true, "witness=binpack-het ")},
		{"het42-binpack", alloc(het42, Config{NodeOrder: "binpack"}, true, "corpus=binpack-het-default-order ")},
		{"sigA-off", prog(sigA, false, "corpus=sig-shortcut-off ", nil)},
		{"sigA-on", progWit(sigA, sigWitness{"a", "b", "preemptibility"}, nil)},
		{"sigB-off", prog(sigB, false, "corpus=sig-shortcut-off ", map[string]bool{"a": true})},
		{"sigB-on", progWit(sigB, sigWitness{"a", "b", "minMember; gang a left out of the class encoding"}, map[string]bool{"a": true})},
		{"xq-blocked-first-on", xq("blocked", oneDept, true, ap)},
		{"xq-victim-first-on", xq("victim", oneDept, true, ap)},
		{"xq-blocked-first-off", xq("blocked", oneDept, false, ap)},
		{"xq-blocked-first-on-2depts", xq("blocked", twoDepts, true, ap)},
		{"xq-victim-first-on-2depts", xq("victim", twoDepts, true, ap)},
		{"xq-blocked-first-on-full-cycle", xq("blocked", nil, true, full)},
		{"mixed-reclaimer-deeper", mixed(1, 0, true)},
		{"mixed-victim-deeper", mixed(0, 1, true)},
		{"mixed-same-depth-3", mixed(1, 1, true)},
		{"mixed-same-depth-2", mixed(0, 0, false)},
		{"mixed-reclaimer-deeper-2", mixed(2, 0, false)},
		{"mixed-victim-deeper-2", mixed(0, 2, false)},
		{"mixed-reclaimer-4-victim-3", mixed(2, 1, true)},
		{"empty", alloc(empty, Config{NodeOrder: "binpack"}, false, "corpus=empty ")},
		{"limited", alloc(limited, Config{NodeOrder: "binpack"}, false, "corpus=limit ")},
		{"limited-spread", alloc(limited, Config{NodeOrder: "spread", Sigs: true}, false, "corpus=limit ")},
	}, append(faultCorpus(), rfaultCorpus()...)...)
}

// runItems: the cases of one plan item (one, except for the fault stream).
func runItems(root *u.Rng, it item) []result {
	if it.stream == "rfault" {
		r := root.Fork(uint64(5000000 + it.i))
		sigs := r.Bool()
		ps := genReclaimMulti(r, sigs)
		cfg := genConfig(r, ps.cluster)
		cfg.Sigs = sigs
		return rfaultFamily(ps, cfg, "", 6, 3)
	}
	if it.stream == "pfault" {
		r := root.Fork(uint64(6000000 + it.i))
		sigs := r.Bool()
		ps := genPreemptFault(r, sigs)
		cfg := genConfig(r, ps.cluster)
		cfg.Sigs = sigs
		return rfaultFamily(ps, cfg, "", 6, 3)
	}
	if it.stream != "fault" {
		return []result{runItem(root, it)}
	}
	r := root.Fork(uint64(4000000 + it.i))
	c := genFaultCluster(r)
	cfg := genConfig(r, c)
	return faultFamily(c, cfg, "", 8, 4)
}

func runItem(root *u.Rng, it item) result {
	switch it.stream {
	case "corpus":
		t, l, st := corpus()[it.i].run()
		return result{Term: t, Label: l, Stats: st, Stream: "corpus"}
	case "alloc":
		r := root.Fork(uint64(it.i))
		c := genAlloc(r, it.i)
		cfg := genConfig(r, c)
		t, l, st := AllocCase(c, cfg, false, "")
		st["order:"+cfg.NodeOrder]++
		return result{Term: t, Label: l, Stats: st, Stream: "alloc"}
	case "prog":
		r := root.Fork(uint64(2000000 + it.i))
		sigs := r.Bool()
		var ps progSpec
		switch {
		case it.i%2 == 0:
			ps = genReclaim(r, sigs)
			// three of four reclaim clusters: a queue tree of mixed depth (own fork: the cluster itself is
			// the one the flat hierarchy would get)
			if tr := r.Fork(99); tr.Chance(3, 4) {
				addReclaimTree(tr, &ps)
			}
		case it.i%4 == 1:
			ps = genPreempt(r, sigs)
		default:
			// several leaf queues with the same pod shape: mostly with the signature shortcut on
			sigs = sigs || r.Bool()
			ps = genPreemptMulti(r, sigs)
		}
		cfg := genConfig(r, ps.cluster)
		cfg.Sigs = sigs
		t, l, st := ProgCase(ps, cfg, "", nil)
		st[fmt.Sprintf("prog-kind:%d", ps.kind)]++
		if ps.depts != nil {
			st["prog-kind:2-multi-queue"]++
		}
		st[fmt.Sprintf("sigs:%v", sigs)]++
		return result{Term: t, Label: l, Stats: st, Stream: "prog"}
	default:
		r := root.Fork(uint64(3000000 + it.i))
		t, l := SigCase(r)
		return result{Term: t, Label: l, Stats: map[string]int{}, Stream: "sig"}
	}
}

// Worker computes the cases with index = k mod w and writes them as JSON lines.
func Worker(dir string, seed uint64, n int, spec string) error {
	var k, w int
	if _, err := fmt.Sscanf(spec, "%d/%d", &k, &w); err != nil {
		return err
	}
	f, err := os.Create(filepath.Join(dir, fmt.Sprintf("part_%d.jsonl", k)))
	if err != nil {
		return err
	}
	defer f.Close()
	bw := bufio.NewWriter(f)
	defer bw.Flush()
	root := u.NewRng(seed)
	for idx, it := range plan(n) {
		if idx%w != k {
			continue
		}
		for sub, res := range runItems(root, it) {
			res.Idx, res.Sub = idx, sub
			data, _ := json.Marshal(res)
			bw.Write(data)
			bw.WriteByte('\n')
		}
	}
	return nil
}

// Run spawns the workers (each session opens with a 100 ms informer wait, so the
// cases are spread over processes), merges their output in index order and
// writes the shards.
func Run(dir string, seed uint64, n int, tier string) error {
	workers := 12
	self, err := os.Executable()
	if err != nil {
		return err
	}
	_ = os.MkdirAll(dir, 0o755)
	var wg sync.WaitGroup
	errs := make([]error, workers)
	for k := 0; k < workers; k++ {
		wg.Add(1)
		go func(k int) {
			defer wg.Done()
			cmd := exec.Command(self, "-dir", dir, "-seed", fmt.Sprint(seed), "-n", fmt.Sprint(n), "-tier", tier, "-worker", fmt.Sprintf("%d/%d", k, workers))
			cmd.Stderr = os.Stderr
			errs[k] = cmd.Run()
		}(k)
	}
	wg.Wait()
	for _, e := range errs {
		if e != nil {
			return fmt.Errorf("worker: %v", e)
		}
	}
	var all []result
	for k := 0; k < workers; k++ {
		p := filepath.Join(dir, fmt.Sprintf("part_%d.jsonl", k))
		f, err := os.Open(p)
		if err != nil {
			return err
		}
		sc := bufio.NewScanner(f)
		sc.Buffer(make([]byte, 1<<20), 1<<28)
		for sc.Scan() {
			var r result
			if err := json.Unmarshal(sc.Bytes(), &r); err != nil {
				return err
			}
			all = append(all, r)
		}
		f.Close()
		os.Remove(p)
	}
	sort.Slice(all, func(i, j int) bool {
		if all[i].Idx != all[j].Idx {
			return all[i].Idx < all[j].Idx
		}
		return all[i].Sub < all[j].Sub
	})
	items := map[int]bool{}
	for _, r := range all {
		items[r.Idx] = true
	}
	if len(items) != len(plan(n)) {
		return fmt.Errorf("workers returned cases of %d plan items, expected %d", len(items), len(plan(n)))
	}
	out := u.NewOut(dir, "C05", "KaiV.Run.C05", "c05case", 25)
	out.Flags = true
	for _, r := range all {
		out.Add(r.Term, r.Label)
		out.Count("stream:" + r.Stream)
		decisions := 0
		for k, v := range r.Stats {
			out.CountN(k, v)
			if strings.HasPrefix(k, "call:") {
				decisions += v
			}
		}
		// non-trivial: the cycle made a decision or refused an attempt (alloc/prog); every sig sequence
		if decisions > 0 || r.Stats["attempts-refused"] > 0 || r.Stream == "sig" {
			out.NonTrivial(r.Label)
		}
		out.Sample(r.Label)
	}
	out.Stats["rule"] = "fixed corpus (replayed refutation witnesses under the configuration that shows them and under the default one, boundary clusters, the mixed-depth queue tree org > dept1 > team1 / org > over-quota-queue in both depth orders, with one and two levels of difference, and the same-depth controls), then three streams from one splitmix64 seed: alloc = cycle.Gen clusters without gpu-memory pods (every third one tight: identical whole-GPU / CPU pods, all pending) with only the allocate action, node order binpack / spread (emulated, dominating) / fixed random permutation, scheduling signatures on/off; prog = interchangeable-class clusters (identical nodes, 1-GPU single-pod jobs, saturated) for reclaim (pending queue within quota, other queues over quota, optionally a protected third queue; three of four reclaim clusters with the leaf queues in a queue tree of MIXED depth re-opened with an arbitrary parent map: one or two top-level queues, each leaf directly under a top-level queue or one or two inner queues deeper, 3-4 levels in all; tree shape same-depth / reclaimer-deeper / victim-deeper one third each (depth of the pending jobs' leaf against the depth of the victims' leaf), the third leaf on a chain of its own or below an inner queue of either chain; quotas at every level: in every second tree each inner queue deserves exactly the sum of the leaf quotas below it, in the others that sum 3/5, one more 1/10, one less 1/10, unlimited 1/5; top-level queues unlimited 2/3 or the sum; the remaining quarter flat under the one department) and preempt (one queue, mixed priorities; every second preempt cluster: two or three leaf queues under one / separate / mixed departments, one pod shape = one scheduling signature in all queues, per queue a role victim = runs a strictly lower-priority preemptible pod / blocked = none, or non-preemptible pending jobs over a zero quota / mixed / idle, queue priorities, creation order, quotas and usage random so that either kind of queue is served first; the pop order of the pending jobs is read off the real JobsOrderByQueues right before the action), consolidation action in between on/off, signatures on (pending jobs of one priority class per queue) / off (mixed); sig = random UpdateRepresentative / IsEasierToSchedule sequences on real pod groups with chain-ordered requests. fault = in-class allocate clusters under every Bind-failure oracle (none / the k-th Bind / every Bind of one job); rfault = reclaim clusters with two or three reclaimer queues within quota (one or two pending unit jobs each) and an over-quota queue whose preemptible unit pods fill 2-3 identical nodes, under every Evict-failure oracle (none / the k-th Evict of the cycle, every position / every Evict requested for one preemptor, the first-served one first); pfault = the same oracles on preempt clusters with two or three queues that run preemptible unit pods of priority 25 / 50 on 2-3 identical nodes and hold one or two pending unit jobs of a higher priority each (at least two eligible preemptors), pending jobs in the order the preempt action attempted them; the README worlds of seeded/C05-4 and seeded/C05-5 are in the fixed corpus. Non-trivial = at least one Cache call or one refused attempt; distinct by label."
	return out.Flush()
}
