package c05

// Fault stream of the reclaim part of the progress check (seeded/C05-5): allocate, then reclaim, on
// interchangeable-class clusters with at least two eligible reclaimers in different queues, while the
// session's cache refuses some Evict calls. One case = one cluster + one oracle:
//
//	none                  no call refused (control)
//	evict#k               the k-th Cache.Evict of the cycle (0-based) is refused
//	every-evict-for(job)  every Cache.Evict requested for that preemptor is refused
//
// Recorded per case: the oracle, every Evict / TaskPipelined call in order with its outcome, the real pop
// order of the reclaim action, the final session status of the pod of every unit job.

import (
	"fmt"

	v1 "k8s.io/api/core/v1"

	"github.com/NVIDIA/KAI-scheduler/pkg/scheduler/api"
	"github.com/NVIDIA/KAI-scheduler/pkg/scheduler/api/eviction_info"
	"github.com/NVIDIA/KAI-scheduler/pkg/scheduler/api/pod_info"
	"github.com/NVIDIA/KAI-scheduler/pkg/scheduler/api/pod_status"
	"github.com/NVIDIA/KAI-scheduler/pkg/scheduler/api/podgroup_info"
	"github.com/NVIDIA/KAI-scheduler/pkg/scheduler/cache"

	"kaiverif/internal/core"
	"kaiverif/internal/cycle"
	u "kaiverif/internal/util"
)

type evictSpec struct {
	Kind string // "none" | "kth" | "job"
	K    int
	Job  string // preemptor
}

func (f evictSpec) String() string {
	switch f.Kind {
	case "kth":
		return fmt.Sprintf("evict#%d", f.K)
	case "job":
		return fmt.Sprintf("every-evict-for(%s)", f.Job)
	}
	return "none"
}

// evictFaultCache sits in front of the recording cache of cycle.Build: it decides, call by call, whether
// the recorder refuses this Evict (the recorder logs the refused call as "evictfail" and returns an error).
type evictFaultCache struct {
	cache.Cache
	b    *cycle.Built
	spec evictSpec
	n    int
}

func (f *evictFaultCache) Evict(pod *v1.Pod, job *podgroup_info.PodGroupInfo, md eviction_info.EvictionMetadata, msg string) error {
	k := f.n
	f.n++
	switch f.spec.Kind {
	case "kth":
		if k == f.spec.K {
			f.b.Rec.FailEvict[k] = true
		}
	case "job":
		if md.Preemptor != nil && md.Preemptor.Name == f.spec.Job {
			f.b.Rec.FailEvict[k] = true
		}
	}
	return f.Cache.Evict(pod, job, md, msg)
}

func installEvictFaults(b *cycle.Built, spec evictSpec) {
	b.Ssn.Cache = &evictFaultCache{Cache: b.Rec, b: b, spec: spec}
}

// recordReclaimPops wraps the session's CanReclaimResources function (the first thing the reclaim loop
// asks about a popped job; Session.CanReclaimResources consults the first registered function only):
// the jobs in the order the action popped them.
func recordReclaimPops(b *cycle.Built) *[]string {
	pops := &[]string{}
	fns := b.Ssn.CanReclaimResourcesFns
	if len(fns) == 0 {
		return pops
	}
	orig := fns[0]
	fns[0] = func(j *podgroup_info.PodGroupInfo) bool {
		*pops = append(*pops, j.Name)
		return orig(j)
	}
	return pops
}

type rfRun struct {
	statusTerm string
	evicts     int            // Evict calls of the run (accepted or refused)
	preemptors []string       // preemptors with Evict calls, in order of their first call
	refused    map[string]int // per preemptor
}

func rfaultTerms(b *cycle.Built, c cycle.Cluster, ids *core.Ids, calls []cycle.Call, jobOfPod map[string]string, st map[string]int, pre string) *rfRun {
	rr := &rfRun{refused: map[string]int{}}
	seen := map[string]bool{}
	for _, cl := range calls {
		if cl.Kind != "evict" && cl.Kind != "evictfail" {
			continue
		}
		rr.evicts++
		if !seen[cl.Preemptor] {
			seen[cl.Preemptor] = true
			rr.preemptors = append(rr.preemptors, cl.Preemptor)
		}
		if cl.Kind == "evictfail" {
			rr.refused[cl.Preemptor]++
			st[pre+":evicts-refused"]++
		}
	}
	var ss []string
	for _, j := range c.Jobs {
		p := j.Pods[0]
		if p.Gpus == 0 {
			continue
		}
		t := b.Tasks[p.Name]
		if t == nil {
			continue
		}
		if job, ok := b.Jobs[t.Job]; ok {
			if t2, ok := job.GetAllPodsMap()[t.UID]; ok {
				t = t2
			}
		}
		ss = append(ss, u.Pair(u.Pos(ids.Of("j:"+j.Name)), core.StatusTerm(t.Status)))
		if p.Status == pod_status.Pending {
			st[pre+":final-"+core.StatusTerm(t.Status)]++
		}
	}
	rr.statusTerm = u.List(ss)
	return rr
}

// genReclaimMulti: 2-3 identical nodes (1 or 2 GPUs) filled by preemptible unit pods of the over-quota
// queue qo (deserved 0 or 1); 2-3 reclaimer queues qa, qb(, qc), each within its deserved quota, with
// one or two pending unit jobs; the deserved quotas fit into the cluster.
func genReclaimMulti(r *u.Rng, sigs bool) progSpec {
	n := r.Range(2, 3)
	g := int64(r.Pick3(1, 1, 2))
	total := int(int64(n) * g)
	var c cycle.Cluster
	for i := 0; i < n; i++ {
		c.Nodes = append(c.Nodes, core.NodeSpec{Name: fmt.Sprintf("n%d", i+1), Cpu: nodeCPU, Mem: 64 << 30, Gpus: g, Pods: 110})
	}
	nq := 2
	if total >= 4 && r.Chance(1, 3) {
		nq = 3
	}
	names := []string{"qa", "qb", "qc"}[:nq]
	np := make([]int, nq)
	des := make([]int, nq)
	left := total
	do := 0
	if total > nq+1 && r.Chance(1, 3) {
		do = 1
		left--
	}
	for i := range names {
		np[i] = 1
		des[i] = 1
		left--
	}
	for i := range names {
		if left > 0 && r.Chance(1, 2) {
			des[i]++
			left--
			if r.Bool() {
				np[i] = 2
			}
		}
	}
	order := make([]int, nq)
	for i := range order {
		order[i] = i
	}
	u.Shuffle(r, order)
	for _, i := range order {
		c.Queues = append(c.Queues, cycle.Queue{Name: names[i], Deserved: float64(des[i]), OverQuota: 1, Priority: u.Pick(r, []int{100, 100, 200})})
	}
	c.Queues = append(c.Queues, cycle.Queue{Name: "qo", Deserved: float64(do), OverQuota: 1, Priority: 100})
	for i := 0; i < total; i++ {
		node := c.Nodes[i/int(g)].Name
		name := fmt.Sprintf("v%d", i+1)
		c.Jobs = append(c.Jobs, cycle.Job{Name: name, Queue: "qo", Priority: int32(u.Pick(r, []int{25, 50, 50})), MinMember: 1,
			AgeMinutes: 60 + i, StartedMins: r.Range(5, 100), Pods: []core.PodSpec{unitPod(name+"-0", node, pod_status.Running)}})
	}
	k := 0
	prio := u.Pick(r, []int{50, 75, 100, 125})
	for i, q := range names {
		for x := 0; x < np[i]; x++ {
			k++
			p := prio
			if !sigs {
				p = u.Pick(r, []int{50, 75, 100, 125})
			}
			name := fmt.Sprintf("p%d", k)
			c.Jobs = append(c.Jobs, cycle.Job{Name: name, Queue: q, Priority: int32(p), MinMember: 1, AgeMinutes: 40 - k,
				Pods: []core.PodSpec{pendingPod(name+"-0", g)}})
		}
	}
	c.Actions = []string{"allocate", "reclaim"}
	return progSpec{kind: 1, cluster: c, gpus: g}
}

// rfaultFamily runs one cluster under every oracle: none, every position of the Evict calls of the
// fault-free run (at most maxK), every preemptor the fault-free run evicts for (at most maxJ; the first
// one is "every Evict for the first-served reclaimer").
func rfaultFamily(ps progSpec, cfg Config, tag string, maxK, maxJ int) []result {
	var out []result
	pre := map[int]string{1: "rfault", 2: "pfault"}[ps.kind]
	emit := func(es evictSpec) *rfRun {
		t, l, st, rr := progCase(ps, cfg, tag, nil, &es)
		st[pre+"-oracle:"+es.Kind]++
		if len(rr.refused) > 0 {
			st[pre+":cases-with-a-refused-evict"]++
		}
		if len(rr.preemptors) >= 2 {
			st[pre+":cases-with->=2-preemptors"]++
		}
		out = append(out, result{Term: t, Label: l, Stats: st, Stream: pre})
		return rr
	}
	base := emit(evictSpec{Kind: "none"})
	for k := 0; k < base.evicts && k < maxK; k++ {
		emit(evictSpec{Kind: "kth", K: k})
	}
	for i, j := range base.preemptors {
		if i >= maxJ {
			break
		}
		emit(evictSpec{Kind: "job", Job: j})
	}
	return out
}

// the world of seeded/C05-5's README: two 1-GPU nodes used by preemptible pods of q-over (deserved 0),
// q-a and q-b deserve one GPU each and hold one pending 1-GPU job each.
func readmeEvictWorld() progSpec {
	c := cycle.Cluster{
		Nodes: []core.NodeSpec{{Name: "node0", Cpu: nodeCPU, Mem: 64 << 30, Gpus: 1, Pods: 110}, {Name: "node1", Cpu: nodeCPU, Mem: 64 << 30, Gpus: 1, Pods: 110}},
		Queues: []cycle.Queue{{Name: "q-a", Deserved: 1, OverQuota: 1, Priority: 100}, {Name: "q-b", Deserved: 1, OverQuota: 1, Priority: 100},
			{Name: "q-over", Deserved: 0, OverQuota: 1, Priority: 100}},
		Jobs: []cycle.Job{
			{Name: "victim-0", Queue: "q-over", Priority: 50, MinMember: 1, AgeMinutes: 60, StartedMins: 30, Pods: []core.PodSpec{unitPod("victim-0-0", "node0", pod_status.Running)}},
			{Name: "victim-1", Queue: "q-over", Priority: 50, MinMember: 1, AgeMinutes: 61, StartedMins: 30, Pods: []core.PodSpec{unitPod("victim-1-0", "node1", pod_status.Running)}},
			{Name: "pending-a", Queue: "q-a", Priority: 50, MinMember: 1, AgeMinutes: 10, Pods: []core.PodSpec{pendingPod("pending-a-0", 1)}},
			{Name: "pending-b", Queue: "q-b", Priority: 50, MinMember: 1, AgeMinutes: 9, Pods: []core.PodSpec{pendingPod("pending-b-0", 1)}},
		},
		Actions: []string{"allocate", "reclaim"},
	}
	return progSpec{kind: 1, cluster: c, gpus: 1}
}

func rfaultCorpus() []corpusCase {
	one := func(ps progSpec, es evictSpec, tag string) func() (string, string, map[string]int) {
		return func() (string, string, map[string]int) {
			t, l, st, _ := progCase(ps, Config{Sigs: true, NodeOrder: "binpack"}, tag, nil, &es)
			st[map[int]string{1: "rfault", 2: "pfault"}[ps.kind]+"-oracle:"+es.Kind]++
			return t, l, st
		}
	}
	rw := readmeEvictWorld()
	tag := "corpus=two-reclaimers-one-over-quota-queue "
	pw := preemptEvictWorld()
	ptag := "corpus=two-preemptors-two-queues "
	return []corpusCase{
		{"pfault-two-queues-none", one(pw, evictSpec{Kind: "none"}, ptag)},
		{"pfault-two-queues-evict0", one(pw, evictSpec{Kind: "kth", K: 0}, ptag)},
		{"pfault-two-queues-evict1", one(pw, evictSpec{Kind: "kth", K: 1}, ptag)},
		{"pfault-two-queues-job-a", one(pw, evictSpec{Kind: "job", Job: "pending-a"}, ptag)},
		{"pfault-two-queues-job-b", one(pw, evictSpec{Kind: "job", Job: "pending-b"}, ptag)},
		{"rfault-readme-none", one(rw, evictSpec{Kind: "none"}, tag)},
		{"rfault-readme-evict0", one(rw, evictSpec{Kind: "kth", K: 0}, tag)},
		{"rfault-readme-evict1", one(rw, evictSpec{Kind: "kth", K: 1}, tag)},
		{"rfault-readme-job-a", one(rw, evictSpec{Kind: "job", Job: "pending-a"}, tag)},
		{"rfault-readme-job-b", one(rw, evictSpec{Kind: "job", Job: "pending-b"}, tag)},
	}
}

// recordPreemptAttempts wraps the session's first IsNonPreemptibleJobOverQueueQuota function (the first
// thing attemptToPreemptForPreemptor asks; Session.IsNonPreemptibleJobOverQueueQuotaFn consults the first
// registered function only): the jobs the preempt action attempted, in order (while *active).
func recordPreemptAttempts(b *cycle.Built, active *bool) *[]string {
	pops := &[]string{}
	fns := b.Ssn.IsNonPreemptibleJobOverQueueQuotaFns
	if len(fns) == 0 {
		return pops
	}
	orig := fns[0]
	fns[0] = func(j *podgroup_info.PodGroupInfo, ts []*pod_info.PodInfo) *api.SchedulableResult {
		if *active {
			*pops = append(*pops, j.Name)
		}
		return orig(j, ts)
	}
	return pops
}

// genPreemptFault: 2-3 identical nodes (1 or 2 GPUs) filled by preemptible unit pods (priority 25 / 50) of
// two or three queues, every queue running at least one; per queue one or two pending unit jobs of a
// higher priority (60 / 75 / 90 preemptible; 125 non-preemptible, the queue then deserves the whole
// cluster): at least two eligible preemptors, victims on at least two nodes.
func genPreemptFault(r *u.Rng, sigs bool) progSpec {
	n := r.Range(2, 3)
	g := int64(r.Pick3(1, 1, 2))
	total := int(int64(n) * g)
	var c cycle.Cluster
	for i := 0; i < n; i++ {
		c.Nodes = append(c.Nodes, core.NodeSpec{Name: fmt.Sprintf("n%d", i+1), Cpu: nodeCPU, Mem: 64 << 30, Gpus: g, Pods: 110})
	}
	nq := 2
	if total >= 3 && r.Chance(1, 3) {
		nq = 3
	}
	names := []string{"qa", "qb", "qc"}[:nq]
	prio := make([]int, nq)
	for i := range prio {
		prio[i] = u.Pick(r, []int{60, 75, 75, 90, 125})
	}
	order := make([]int, nq)
	for i := range order {
		order[i] = i
	}
	u.Shuffle(r, order)
	for _, i := range order {
		des := r.Range(0, total)
		if prio[i] >= 100 {
			des = total
		}
		c.Queues = append(c.Queues, cycle.Queue{Name: names[i], Deserved: float64(des), OverQuota: 1, Priority: u.Pick(r, []int{100, 100, 200})})
	}
	owners := make([]int, total)
	for i := range owners {
		if i < nq {
			owners[i] = i
		} else {
			owners[i] = r.Intn(nq)
		}
	}
	u.Shuffle(r, owners)
	for i, o := range owners {
		node := c.Nodes[i/int(g)].Name
		name := fmt.Sprintf("v%d", i+1)
		c.Jobs = append(c.Jobs, cycle.Job{Name: name, Queue: names[o], Priority: int32(u.Pick(r, []int{25, 50, 50})), MinMember: 1,
			AgeMinutes: 60 + i, StartedMins: r.Range(5, 100), Pods: []core.PodSpec{unitPod(name+"-0", node, pod_status.Running)}})
	}
	k := 0
	for i, q := range names {
		for x, np := 0, r.Pick3(1, 1, 2); x < np; x++ {
			k++
			p := prio[i]
			if !sigs && r.Chance(1, 3) {
				p = u.Pick(r, []int{60, 75, 90})
			}
			name := fmt.Sprintf("p%d", k)
			c.Jobs = append(c.Jobs, cycle.Job{Name: name, Queue: q, Priority: int32(p), MinMember: 1, AgeMinutes: 40 - k,
				Pods: []core.PodSpec{pendingPod(name+"-0", g)}})
		}
	}
	c.Actions = []string{"allocate", "preempt"}
	depts := map[string]string{}
	for _, q := range names {
		depts[q] = "d1"
	}
	return progSpec{kind: 2, cluster: c, gpus: g, depts: depts}
}

// the preempt mirror of seeded/C05-5's README world: two 1-GPU nodes; q-a runs victim-0 (priority 50) on
// node0, q-b runs victim-1 on node1; each queue holds one pending 1-GPU job of priority 75.
func preemptEvictWorld() progSpec {
	c := cycle.Cluster{
		Nodes:  []core.NodeSpec{{Name: "node0", Cpu: nodeCPU, Mem: 64 << 30, Gpus: 1, Pods: 110}, {Name: "node1", Cpu: nodeCPU, Mem: 64 << 30, Gpus: 1, Pods: 110}},
		Queues: []cycle.Queue{{Name: "q-a", Deserved: 1, OverQuota: 1, Priority: 100}, {Name: "q-b", Deserved: 1, OverQuota: 1, Priority: 100}},
		Jobs: []cycle.Job{
			{Name: "victim-0", Queue: "q-a", Priority: 50, MinMember: 1, AgeMinutes: 60, StartedMins: 30, Pods: []core.PodSpec{unitPod("victim-0-0", "node0", pod_status.Running)}},
			{Name: "victim-1", Queue: "q-b", Priority: 50, MinMember: 1, AgeMinutes: 61, StartedMins: 30, Pods: []core.PodSpec{unitPod("victim-1-0", "node1", pod_status.Running)}},
			{Name: "pending-a", Queue: "q-a", Priority: 75, MinMember: 1, AgeMinutes: 10, Pods: []core.PodSpec{pendingPod("pending-a-0", 1)}},
			{Name: "pending-b", Queue: "q-b", Priority: 75, MinMember: 1, AgeMinutes: 9, Pods: []core.PodSpec{pendingPod("pending-b-0", 1)}},
		},
		Actions: []string{"allocate", "preempt"},
	}
	return progSpec{kind: 2, cluster: c, gpus: 1, depts: map[string]string{"q-a": "d1", "q-b": "d1"}}
}
