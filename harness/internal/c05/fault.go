package c05

// Fault stream of the allocate part of the progress check (seeded/C05-4): the allocate action on
// in-class clusters (identical non-shared pods per job, non-shared stored pods) while the session's
// cache refuses some Bind calls. One case = one cluster + one oracle:
//
//	none                 no call refused (control)
//	bind#k               the k-th Cache.Bind of the action (0-based) is refused
//	every-bind-of(job)   every Cache.Bind for a pod of that job is refused
//
// Recorded per case: the oracle, every Bind / TaskPipelined call in order with its outcome, the final
// session status of every pod that was Pending in the snapshot, the final node books (idle / releasing
// per node), the ready jobs that still have pending pods, and - per attempt - the operations a refused
// Bind cut off (Statement.Commit clears the remaining operations and returns: those pods keep their
// placement in the session although no Cache call was made for them).

import (
	"fmt"
	"sort"

	"github.com/NVIDIA/KAI-scheduler/pkg/scheduler/api/common_info"
	"github.com/NVIDIA/KAI-scheduler/pkg/scheduler/api/pod_info"
	"github.com/NVIDIA/KAI-scheduler/pkg/scheduler/api/pod_status"
	"github.com/NVIDIA/KAI-scheduler/pkg/scheduler/cache"

	"kaiverif/internal/core"
	"kaiverif/internal/cycle"
	u "kaiverif/internal/util"
)

type faultSpec struct {
	Kind string // "none" | "kth" | "job"
	K    int
	Job  string
}

func (f faultSpec) String() string {
	switch f.Kind {
	case "kth":
		return fmt.Sprintf("bind#%d", f.K)
	case "job":
		return fmt.Sprintf("every-bind-of(%s)", f.Job)
	}
	return "none"
}

// faultCache sits in front of the recording cache of cycle.Build: it decides, call by call, whether the
// recorder refuses this Bind (the recorder logs the refused call as "bindfail" and returns an error).
type faultCache struct {
	cache.Cache
	b    *cycle.Built
	spec faultSpec
	n    int
}

func (f *faultCache) Bind(p *pod_info.PodInfo, hostname string, ann map[string]string) error {
	k := f.n
	f.n++
	switch f.spec.Kind {
	case "kth":
		if k == f.spec.K {
			f.b.Rec.FailBind[k] = true
		}
	case "job":
		if string(p.Job) == f.spec.Job {
			f.b.Rec.FailBind[k] = true
		}
	}
	return f.Cache.Bind(p, hostname, ann)
}

func installFaults(b *cycle.Built, spec faultSpec) {
	b.Ssn.Cache = &faultCache{Cache: b.Rec, b: b, spec: spec}
}

// sessionTask: the session's own object of a pod (after Commit the job's pod map holds the operation's clone).
func (e *emitter) sessionTask(name string) *pod_info.PodInfo {
	t0 := e.b.Tasks[name]
	if t0 == nil {
		return nil
	}
	if job, ok := e.b.Jobs[t0.Job]; ok {
		if t, ok := job.GetAllPodsMap()[t0.UID]; ok {
			return t
		}
	}
	return t0
}

func (e *emitter) pendingPods() []string {
	var l []string
	for _, j := range e.c.Jobs {
		for _, p := range j.Pods {
			if t := e.sessionTask(p.Name); t != nil && t.Status == pod_status.Pending {
				l = append(l, p.Name)
			}
		}
	}
	return l
}

// dropped: the pods of attempt a that hold a placement in the final session without any Cache call of
// the commit (only after a refused Bind), as pseudo calls.
func (e *emitter) dropped(a *Attempt) []cycle.Call {
	refused := false
	called := map[string]bool{}
	for _, cl := range a.Calls {
		called[cl.Pod] = true
		if cl.Kind == "bindfail" {
			refused = true
		}
	}
	if !refused {
		return nil
	}
	var out []cycle.Call
	for _, n := range a.Tasks {
		if called[n] {
			continue
		}
		t := e.sessionTask(n)
		if t == nil || t.NodeName == "" {
			continue
		}
		switch t.Status {
		case pod_status.Allocated:
			out = append(out, cycle.Call{Kind: "bind", Pod: n, Node: t.NodeName, Groups: append([]string{}, t.GPUGroups...)})
		case pod_status.Pipelined:
			out = append(out, cycle.Call{Kind: "pipe", Pod: n, Node: t.NodeName, Groups: append([]string{}, t.GPUGroups...)})
		}
	}
	return out
}

type faultRun struct {
	callsTerm, statusTerm string
	binds                 int            // Bind calls of the run (accepted or refused)
	bindsOf               map[string]int // per job
	jobOrder              []string       // jobs with Bind calls, in order of their first call
	refusedJobs           map[string]bool
	dropped               []string
	stats                 map[string]int
}

func (e *emitter) faultTerms(tr *Trace, pendingAtStart []string) *faultRun {
	fr := &faultRun{bindsOf: map[string]int{}, refusedJobs: map[string]bool{}, stats: map[string]int{}}
	var cs []string
	for _, a := range tr.Attempts {
		for _, cl := range a.Calls {
			var piped, ok bool
			switch cl.Kind {
			case "bind":
				ok = true
			case "bindfail":
				fr.refusedJobs[a.Job] = true
				fr.stats["fault:binds-refused"]++
			case "pipe":
				piped, ok = true, true
			default:
				continue
			}
			if !piped {
				fr.binds++
				if fr.bindsOf[a.Job] == 0 {
					fr.jobOrder = append(fr.jobOrder, a.Job)
				}
				fr.bindsOf[a.Job]++
			}
			cs = append(cs, fmt.Sprintf("(mkBC %s %s %s %s %s)", u.Pos(e.ids.Of("j:"+a.Job)), u.Pos(e.ids.Of("p:"+cl.Pod)),
				u.Pos(e.ids.Of("n:"+cl.Node)), u.Bool(piped), u.Bool(ok)))
		}
		for _, ph := range e.dropped(a) {
			fr.dropped = append(fr.dropped, fmt.Sprintf("%s@%s", ph.Pod, ph.Node))
			fr.stats["fault:dropped-operations"]++
		}
	}
	sort.Strings(pendingAtStart)
	var ss []string
	for _, n := range pendingAtStart {
		t := e.sessionTask(n)
		ss = append(ss, u.Pair(u.Pos(e.ids.Of("p:"+n)), core.StatusTerm(t.Status)))
		fr.stats["fault:final-"+core.StatusTerm(t.Status)]++
	}
	fr.callsTerm, fr.statusTerm = u.List(cs), u.List(ss)
	return fr
}

// genFaultCluster: an in-class cluster: 1-3 nodes with whole GPUs, 1-3 leaf queues, a few running
// whole-GPU pods, 2-5 pending jobs of 1-3 identical non-shared pods (whole GPUs or CPU only).
func genFaultCluster(r *u.Rng) cycle.Cluster {
	c := cycle.Cluster{Actions: []string{"allocate"}}
	nn := r.Pick3(1, 2, 3)
	free := map[string]int64{}
	for i := 0; i < nn; i++ {
		ns := core.NodeSpec{Name: fmt.Sprintf("n%d", i+1), Cpu: int64(u.Pick(r, []int{8000, 16000})), Mem: 64 << 30,
			Gpus: int64(u.Pick(r, []int{1, 2, 3, 4})), Pods: 110}
		c.Nodes = append(c.Nodes, ns)
		free[ns.Name] = ns.Gpus
	}
	nq := r.Pick3(1, 2, 3)
	for i := 0; i < nq; i++ {
		c.Queues = append(c.Queues, cycle.Queue{Name: fmt.Sprintf("q%d", i+1), Deserved: float64(u.Pick(r, []int{0, 1, 2, 4})),
			Limit: float64(u.Pick(r, []int{0, 0, 0, 0, 2, 3})), OverQuota: float64(u.Pick(r, []int{1, 1, 2})), Priority: u.Pick(r, []int{100, 100, 200})})
	}
	// running pods: one job, up to two whole-GPU pods
	if r.Chance(1, 2) {
		j := cycle.Job{Name: "r1", Queue: u.Pick(r, c.Queues).Name, Priority: 50, MinMember: 1, AgeMinutes: 60, StartedMins: 30}
		for k, nr := 0, r.Range(1, 2); k < nr; k++ {
			n := u.Pick(r, c.Nodes).Name
			if free[n] == 0 {
				continue
			}
			free[n]--
			j.Pods = append(j.Pods, core.PodSpec{Name: fmt.Sprintf("r1-%d", len(j.Pods)), Cpu: 500, Mem: 1 << 30, Gpus: 1, Status: pod_status.Running, Node: n})
		}
		if len(j.Pods) > 0 {
			c.Jobs = append(c.Jobs, j)
		}
	}
	nj := r.Range(2, 5)
	for i := 0; i < nj; i++ {
		np := r.Pick3(1, 2, 3)
		if r.Chance(1, 3) {
			np = 1
		}
		j := cycle.Job{Name: fmt.Sprintf("j%d", i+1), Queue: u.Pick(r, c.Queues).Name, Priority: int32(u.Pick(r, []int{50, 50, 75, 100})),
			AgeMinutes: r.Range(1, 50), MinMember: int32(r.Range(1, np))}
		proto := core.PodSpec{Cpu: 500, Mem: 1 << 30, Gpus: int64(r.Pick3(1, 1, 2)), Status: pod_status.Pending}
		if r.Chance(1, 5) {
			proto.Gpus, proto.Cpu = 0, int64(u.Pick(r, []int{2000, 3000, 5000}))
		}
		for k := 0; k < np; k++ {
			p := proto
			p.Name = fmt.Sprintf("%s-%d", j.Name, k)
			j.Pods = append(j.Pods, p)
		}
		c.Jobs = append(c.Jobs, j)
	}
	return c
}

// faultFamily runs one cluster under every oracle: none, every position of the Bind calls of the
// fault-free run (at most maxK), every job that the fault-free run binds pods of (at most maxJ).
func faultFamily(c cycle.Cluster, cfg Config, tag string, maxK, maxJ int) []result {
	var out []result
	emit := func(fs faultSpec) *faultRun {
		t, l, st, fr := allocCase(c, cfg, false, tag, &fs)
		st["fault-oracle:"+fs.Kind]++
		if len(fr.refusedJobs) > 0 {
			st["fault:cases-with-a-refused-bind"]++
		}
		out = append(out, result{Term: t, Label: l, Stats: st, Stream: "fault"})
		return fr
	}
	base := emit(faultSpec{Kind: "none"})
	for k := 0; k < base.binds && k < maxK; k++ {
		emit(faultSpec{Kind: "kth", K: k})
	}
	for i, j := range base.jobOrder {
		if i >= maxJ {
			break
		}
		emit(faultSpec{Kind: "job", Job: j})
	}
	return out
}

// the world of seeded/C05-4's README: one node with 3 idle GPUs, three queues (deserved 1, no limit),
// one pending single-pod 1-GPU job each.
func readmeFaultWorld() cycle.Cluster {
	c := cycle.Cluster{Nodes: []core.NodeSpec{{Name: "node0", Cpu: 8000, Mem: gib(16), Gpus: 3, Pods: 110}}}
	for i := 0; i < 3; i++ {
		q := fmt.Sprintf("queue%d", i)
		c.Queues = append(c.Queues, cycle.Queue{Name: q, Deserved: 1, OverQuota: 1, Priority: 100})
		j := fmt.Sprintf("pending_job%d", i)
		c.Jobs = append(c.Jobs, cycle.Job{Name: j, Queue: q, Priority: 50, MinMember: 1, AgeMinutes: 10 - i,
			Pods: []core.PodSpec{unitPod(j+"-0", "", pod_status.Pending)}})
	}
	return c
}

// a gang whose first Bind is refused keeps its second pod placed in the session (no Cache call); the job
// ordered after it needs both GPUs of the node.
func gangFaultWorld() cycle.Cluster {
	P := pod_status.Pending
	return cycle.Cluster{
		Nodes:  []core.NodeSpec{{Name: "n1", Cpu: 8000, Mem: gib(16), Gpus: 2, Pods: 110}},
		Queues: []cycle.Queue{{Name: "q1", Deserved: 2, OverQuota: 1, Priority: 100}, {Name: "q2", Deserved: 2, OverQuota: 1, Priority: 100}},
		Jobs: []cycle.Job{
			{Name: "a", Queue: "q1", Priority: 100, MinMember: 2, AgeMinutes: 20, Pods: []core.PodSpec{unitPod("a-0", "", P), unitPod("a-1", "", P)}},
			{Name: "b", Queue: "q2", Priority: 50, MinMember: 2, AgeMinutes: 5, Pods: []core.PodSpec{unitPod("b-0", "", P), unitPod("b-1", "", P)}},
		},
	}
}

func faultCorpus() []corpusCase {
	one := func(c cycle.Cluster, fs faultSpec, tag string) func() (string, string, map[string]int) {
		return func() (string, string, map[string]int) {
			t, l, st, _ := allocCase(c, Config{NodeOrder: "binpack"}, false, tag, &fs)
			st["fault-oracle:"+fs.Kind]++
			return t, l, st
		}
	}
	rw, gw := readmeFaultWorld(), gangFaultWorld()
	l := []corpusCase{{"fault-readme-none", one(rw, faultSpec{Kind: "none"}, "corpus=three-queues-one-node ")}}
	for k := 0; k < 3; k++ {
		l = append(l, corpusCase{fmt.Sprintf("fault-readme-bind%d", k), one(rw, faultSpec{Kind: "kth", K: k}, "corpus=three-queues-one-node ")})
	}
	l = append(l,
		corpusCase{"fault-gang-none", one(gw, faultSpec{Kind: "none"}, "corpus=gang-then-gang ")},
		corpusCase{"fault-gang-bind0", one(gw, faultSpec{Kind: "kth", K: 0}, "corpus=gang-then-gang ")},
		corpusCase{"fault-gang-bind1", one(gw, faultSpec{Kind: "kth", K: 1}, "corpus=gang-then-gang ")},
		corpusCase{"fault-gang-job-a", one(gw, faultSpec{Kind: "job", Job: "a"}, "corpus=gang-then-gang ")},
	)
	return l
}

var _ = common_info.PodGroupID("")
