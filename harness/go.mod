module kaiverif

go 1.24.4

require (
	github.com/NVIDIA/KAI-scheduler v0.0.0
	github.com/NVIDIA/gpu-operator v1.8.3-0.20250724212111-616690d88d86
	github.com/go-logr/logr v1.4.3
	github.com/prometheus-operator/prometheus-operator/pkg/apis/monitoring v0.88.0
	github.com/prometheus/client_golang v1.23.2
	go.uber.org/mock v0.6.0
	golang.org/x/exp v0.0.0-20250305212735-054e65f0b394
	k8s.io/api v0.34.3
	k8s.io/apiextensions-apiserver v0.34.3
	k8s.io/apimachinery v0.34.3
	k8s.io/client-go v0.34.3
	k8s.io/component-helpers v0.34.1
	k8s.io/klog/v2 v2.130.1
	k8s.io/kubernetes v1.34.2
	k8s.io/utils v0.0.0-20251002143259-bc988d571ff4
	sigs.k8s.io/controller-runtime v0.22.3
)

require (
	cel.dev/expr v0.24.0 // indirect
	github.com/NVIDIA/k8s-kata-manager v0.2.3 // indirect
	github.com/NVIDIA/k8s-operator-libs v0.0.0-20250311214045-7d667fbaa7ac // indirect
	github.com/antlr4-go/antlr/v4 v4.13.1 // indirect
	github.com/aptible/supercronic v0.2.33 // indirect
	github.com/awslabs/operatorpkg v0.0.0-20241205163410-0fff9f28d115 // indirect
	github.com/beorn7/perks v1.0.1 // indirect
	github.com/blang/semver/v4 v4.0.0 // indirect
	github.com/cenkalti/backoff/v4 v4.3.0 // indirect
	github.com/cespare/xxhash/v2 v2.3.0 // indirect
	github.com/cyphar/filepath-securejoin v0.6.0 // indirect
	github.com/davecgh/go-spew v1.1.2-0.20180830191138-d8f796af33cc // indirect
	github.com/distribution/reference v0.6.0 // indirect
	github.com/dustin/go-humanize v1.0.1 // indirect
	github.com/emicklei/go-restful/v3 v3.12.2 // indirect
	github.com/evanphx/json-patch/v5 v5.9.11 // indirect
	github.com/felixge/httpsnoop v1.0.4 // indirect
	github.com/fsnotify/fsnotify v1.9.0 // indirect
	github.com/fxamacker/cbor/v2 v2.9.0 // indirect
	github.com/go-logr/stdr v1.2.2 // indirect
	github.com/go-openapi/jsonpointer v0.21.1 // indirect
	github.com/go-openapi/jsonreference v0.21.0 // indirect
	github.com/go-openapi/swag v0.23.1 // indirect
	github.com/gogo/protobuf v1.3.2 // indirect
	github.com/google/btree v1.1.3 // indirect
	github.com/google/cel-go v0.26.0 // indirect
	github.com/google/gnostic-models v0.7.0 // indirect
	github.com/google/go-cmp v0.7.0 // indirect
	github.com/google/uuid v1.6.0 // indirect
	github.com/gorilla/websocket v1.5.4-0.20250319132907-e064f32e3674 // indirect
	github.com/grpc-ecosystem/grpc-gateway/v2 v2.26.3 // indirect
	github.com/josharian/intern v1.0.0 // indirect
	github.com/json-iterator/go v1.1.12 // indirect
	github.com/kubeflow/training-operator v1.9.3 // indirect
	github.com/mailru/easyjson v0.9.0 // indirect
	github.com/mitchellh/hashstructure/v2 v2.0.2 // indirect
	github.com/moby/spdystream v0.5.0 // indirect
	github.com/moby/sys/mountinfo v0.7.2 // indirect
	github.com/modern-go/concurrent v0.0.0-20180306012644-bacd9c7ef1dd // indirect
	github.com/modern-go/reflect2 v1.0.3-0.20250322232337-35a7c28c31ee // indirect
	github.com/munnerz/goautoneg v0.0.0-20191010083416-a7dc8b61c822 // indirect
	github.com/mxk/go-flowrate v0.0.0-20140419014527-cca7078d478f // indirect
	github.com/opencontainers/go-digest v1.0.0 // indirect
	github.com/opencontainers/selinux v1.13.0 // indirect
	github.com/pkg/errors v0.9.1 // indirect
	github.com/pmezard/go-difflib v1.0.1-0.20181226105442-5d4384ee4fb2 // indirect
	github.com/prometheus/client_model v0.6.2 // indirect
	github.com/prometheus/common v0.66.1 // indirect
	github.com/prometheus/procfs v0.16.1 // indirect
	github.com/ray-project/kuberay/ray-operator v1.4.2 // indirect
	github.com/robfig/cron/v3 v3.0.1 // indirect
	github.com/samber/lo v1.47.0 // indirect
	github.com/sirupsen/logrus v1.9.3 // indirect
	github.com/spf13/cobra v1.10.1 // indirect
	github.com/spf13/pflag v1.0.10 // indirect
	github.com/stoewer/go-strcase v1.3.0 // indirect
	github.com/stretchr/testify v1.11.1 // indirect
	github.com/x448/float16 v0.8.4 // indirect
	github.com/xhit/go-str2duration/v2 v2.1.0 // indirect
	go.opentelemetry.io/auto/sdk v1.2.1 // indirect
	go.opentelemetry.io/contrib/instrumentation/google.golang.org/grpc/otelgrpc v0.60.0 // indirect
	go.opentelemetry.io/contrib/instrumentation/net/http/otelhttp v0.59.0 // indirect
	go.opentelemetry.io/otel v1.40.0 // indirect
	go.opentelemetry.io/otel/exporters/otlp/otlptrace v1.34.0 // indirect
	go.opentelemetry.io/otel/exporters/otlp/otlptrace/otlptracegrpc v1.34.0 // indirect
	go.opentelemetry.io/otel/metric v1.40.0 // indirect
	go.opentelemetry.io/otel/sdk v1.40.0 // indirect
	go.opentelemetry.io/otel/trace v1.40.0 // indirect
	go.opentelemetry.io/proto/otlp v1.5.0 // indirect
	go.uber.org/multierr v1.11.0 // indirect
	go.uber.org/zap v1.27.0 // indirect
	go.yaml.in/yaml/v2 v2.4.3 // indirect
	go.yaml.in/yaml/v3 v3.0.4 // indirect
	golang.org/x/mod v0.29.0 // indirect
	golang.org/x/net v0.47.0 // indirect
	golang.org/x/oauth2 v0.30.0 // indirect
	golang.org/x/sync v0.18.0 // indirect
	golang.org/x/sys v0.40.0 // indirect
	golang.org/x/term v0.37.0 // indirect
	golang.org/x/text v0.31.0 // indirect
	golang.org/x/time v0.11.0 // indirect
	gomodules.xyz/jsonpatch/v2 v2.5.0 // indirect
	google.golang.org/genproto/googleapis/api v0.0.0-20250303144028-a0af3efb3deb // indirect
	google.golang.org/genproto/googleapis/rpc v0.0.0-20250313205543-e70fdf4c4cb4 // indirect
	google.golang.org/grpc v1.72.1 // indirect
	google.golang.org/protobuf v1.36.8 // indirect
	gopkg.in/evanphx/json-patch.v4 v4.12.0 // indirect
	gopkg.in/inf.v0 v0.9.1 // indirect
	gopkg.in/yaml.v2 v2.4.0 // indirect
	gopkg.in/yaml.v3 v3.0.1 // indirect
	k8s.io/apiserver v0.34.3 // indirect
	k8s.io/cli-runtime v0.34.1 // indirect
	k8s.io/cloud-provider v0.34.1 // indirect
	k8s.io/cluster-bootstrap v0.34.1 // indirect
	k8s.io/component-base v0.34.3 // indirect
	k8s.io/controller-manager v0.34.1 // indirect
	k8s.io/cri-api v0.34.1 // indirect
	k8s.io/cri-client v0.34.1 // indirect
	k8s.io/csi-translation-lib v0.34.1 // indirect
	k8s.io/dynamic-resource-allocation v0.34.1 // indirect
	k8s.io/endpointslice v0.34.2 // indirect
	k8s.io/externaljwt v0.34.1 // indirect
	k8s.io/kube-aggregator v0.34.1 // indirect
	k8s.io/kube-controller-manager v0.34.1 // indirect
	k8s.io/kube-openapi v0.0.0-20250710124328-f3f2b991d03b // indirect
	k8s.io/kube-proxy v0.34.1 // indirect
	k8s.io/kube-scheduler v0.34.1 // indirect
	k8s.io/kubectl v0.34.1 // indirect
	k8s.io/kubelet v0.34.1 // indirect
	k8s.io/metrics v0.34.1 // indirect
	k8s.io/mount-utils v0.34.1 // indirect
	k8s.io/pod-security-admission v0.34.1 // indirect
	k8s.io/sample-apiserver v0.34.1 // indirect
	knative.dev/pkg v0.0.0-20250117084104-c43477f0052b // indirect
	sigs.k8s.io/json v0.0.0-20250730193827-2d320260d730 // indirect
	sigs.k8s.io/karpenter v1.2.0 // indirect
	sigs.k8s.io/lws v0.7.0 // indirect
	sigs.k8s.io/randfill v1.0.0 // indirect
	sigs.k8s.io/structured-merge-diff/v6 v6.3.0 // indirect
	sigs.k8s.io/yaml v1.6.0 // indirect
)

replace github.com/NVIDIA/KAI-scheduler => /repo
